#!/bin/sh
# Build the framework from files on disk only (offline).
set -e
cd "$(dirname "$0")"
export CARGO_NET_OFFLINE=true
(cd lean && lake build)
(cd harness && cargo build --offline --quiet)
echo "(flags (ref 0 static (infer 2 g)))" | lean/.lake/build/bin/chalk_model_driver | grep -q "(ok 4097)"
echo setup-ok
