"""Per-property configuration of ./check (level, generation rule, what the correspondence is)."""

HOOK_COMMITS = []

PROPS = {
    "C18": {
        "level": "proof",
        "rule": "pairs (type / domain goal or clause conclusion / argument list) derived from a common ancestor by replacing subterms with "
                "bound or inference variables (unifiable by construction, 40%), then edited in one constructor (30%) or independent (30%); "
                "variance tables well-formed or (10%) too short; plus generated programs (structs with variances, traits, 2-6 impls) lowered "
                "by chalk with 4 impls_for_trait queries each; non-trivial = the filter said false / dropped an impl / panicked",
        "technique": "Lean 4 theorems (no pair with a common instance is rejected; impls_for_trait keeps every such impl) + differential correspondence + real unifier as oracle",
        "claim": "couldMatch_of_unifiable and implsFor_superset are proved for every pair of terms of the model and every folder pair (any "
                 "substitution of bound/inference variables/placeholders); could_match booleans and impls_for_trait id lists are compared "
                 "exactly with the model; on the implementation every rejected pair / dropped impl is re-checked with the real InferenceTable::relate.",
        "note": "Trusted: Lean kernel, model fidelity (differential), harness. The second DESIGN theorem (false => relate fails for every table) needs the "
                "unifier model and is covered here only by running the real unifier on each rejected pair.",
        "correspondence": "cmTy/cmDomainGoal/cmSlice/implsForTrait (lean/ChalkModel/CouldMatch.lean) vs chalk_ir::could_match and Program::impls_for_trait",
    },
    "C25": {
        "level": "proof",
        "rule": "type-directed random terms (all 25 TyKind variants, lifetimes/consts of every kind, dyn and fn-pointer binders, "
                "bound variables at de Bruijn depths 0..binders+3) x ops {shift-in, shift-out, shift-in-out, subst, subst-wc, "
                "substitute, identity-subst, fold-noop}, 1/8 malformed (kind-mismatched / short parameter lists); a case is "
                "non-trivial when the operation changed the term, failed or panicked; distinct = distinct request lines",
        "technique": "Lean 4 theorems (structural induction over the mutual term syntax) + differential correspondence of the model driver with chalk-ir",
        "claim": "The substitution laws are theorems about an executable model of Shifter/DownShifter/Subst/default folds for every type, "
                 "lifetime, const, generic argument, where clause and dyn bound of any size; the model is tied to the Rust code by exact "
                 "output comparison on generated terms on every run, and the laws are also evaluated on the implementation itself.",
        "note": "Trusted: Lean kernel, the hand-written model's fidelity (checked by differential runs only), the harness. Goals and program "
                "clauses are not yet in the model (types, lifetimes, consts, substitutions, where-clauses, dyn bounds, fn pointers are).",
        "correspondence": "Shift/Subst/Fold model (lean/ChalkModel/{Fold,Shift}.lean) vs chalk-ir fold::{shift,subst}, Binders::substitute",
    },
    "C26": {
        "level": "proof",
        "rule": "type-directed random types of depth 1..5 over all 25 TyKind variants with consts/lifetimes of every kind and dyn "
                "bounds of all four where-clause kinds; non-trivial = the stored flag word is non-zero; distinct = distinct request lines",
        "technique": "Lean 4 theorem (flag set iff reported leaf occurs, all types) + differential correspondence with TyData.flags",
        "claim": "flags_iff_occurs is proved for every type of the model (all TyKind variants, every lifetime/const kind, dyn bounds); the "
                 "model's flag word is compared bit-for-bit with the flags chalk stores, and an independent leaf walk over the serialised "
                 "term is compared with the implementation's flags as well.",
        "note": "Trusted: Lean kernel, model fidelity (differential only), harness serialiser. STILL_FURTHER_SPECIALIZABLE is modelled but excluded from the theorem, as the property says.",
        "correspondence": "Ty.computeFlags (lean/ChalkModel/Flags.lean) vs TyData.flags as stored by Ty::new",
    },
}
