"""Per-property configuration of ./check (level, generation rule, what the correspondence is)."""

HOOK_COMMITS = ["f5b1d5244facd014c279423c479633cc3b50fced", "3268006", "35263043bf6b5f4fd4fd4db82c5d5667fb3b1627", "271a2157aed3e04ac2f8ae3450ad240ff780209e", "dd59e1336b5a0e5e9904133fd68242d941c5cae1"]

PROPS = {
    "C01": {
        "level": "translation_validation",
        "rule": "generated Horn-fragment programs (as C02; 1/4 with #[coinductive] traits, SLG only for those) x 6 goals with 1-2 unknowns (4 shaped after an "
                "impl header with parameters/subterms replaced by unknowns, 2 free-form, conjunctions and equalities); both solvers on fresh instances; "
                "each answer judged by Contract.judgeAnswer with candidate solutions enumerated over the program's constructors (depth 2 for one unknown, "
                "depth 1 for two, capped); known-finding programs from corpus/C01 first; non-trivial = every judged answer",
        "technique": "certified checker: Lean 4 acceptance predicate over the proved-sound Stage-A evaluator (every rejection carries a kernel-certified witness); exact model + theorems for the aggregation layer (C17)",
        "claim": "Unique: certified to hold for the generic instantiation of its substitution, and no enumerated certified solution lies outside it; No-solution and "
                 "definite guidance: no enumerated certified solution contradicts them. Every rejection is a proved violation of the property's sentence "
                 "(theorems rejected_none_has_solution, rejected_unique_does_not_hold, rejected_excludes_solution). Completeness half is refutation-complete "
                 "only up to the enumeration bound (Stage C / lifting lemma not proved).",
        "note": "Trusted: Lean kernel, horn.rs translation (program, peeled query, answers), Stage-A theorems. Not verified: the solvers' search (every produced "
                "answer is checked instead). Known findings F1 (SLG nonlinear definite guidance) and F11 (SLG coinductive variant cycle) are open and reported as "
                "KNOWN-FINDING. 'holds for every instantiation' is certified on the generic instance with opaque constants; the generalisation lemma "
                "(derivations are closed under replacing opaque constants) is not yet a theorem.",
        "correspondence": "real Solver::solve (SLG, recursive) vs Contract.judgeAnswer on horn(program, peeled goal)",
        "explanation": "translation validation of solver answers by a certified checker",
    },
    "C02": {
        "level": "translation_validation",
        "rule": "generated programs of the Horn fragment (structs of arity 0-2, 1-3 traits with 0-1 parameters, optionally #[coinductive], 2-7 impls: "
                "concrete, structural with where-clause, blanket, repeated parameter, growing/polymorphic-recursive, concrete cycle edges) lowered by "
                "chalk; 8 closed goals each (atoms, conjunctions, forall/if, not); both solvers at default limits on fresh instances; every answer is "
                "judged by the Lean Stage-A evaluator on the Horn clauses read off chalk's lowered Program; non-trivial = every judged answer; "
                "distinct = distinct (program, goal, solver) lines",
        "technique": "certified checker: Lean 4 evaluator with proved soundness of yes/no against a fixed-point semantics (evalGoal_sound), applied to every solver answer",
        "claim": "For every program/goal generated, a Unique / No-solution answer is accepted only if the kernel-checked evaluator certifies that the goal "
                 "holds / fails in the declarative semantics (least fixed point, greatest for coinductive traits); Ambiguous on a decided closed goal is a rejection. "
                 "The solvers themselves are not verified: every produced answer is.",
        "note": "Trusted: Lean kernel; the translation horn.rs from chalk's lowered Program/Goal to Horn clauses (hand-written, small); Stage-A theorems "
                "evalInd_yes/no, evalCo_yes/no, evalGoal_sound. Inconclusive (fuel, growing types) cases are counted, never alarms. Solver limits: defaults only so far.",
        "correspondence": "real Solver::solve (SLG, recursive) vs Sem.evalGoal on horn(program)",
        "explanation": "translation validation of solver answers by a certified checker",
    },
    "C16": {
        "level": "proof",
        "rule": "every case carries its inference table as a script (new universes 0-6; 0-9 variables of sorts general/integer/float type, "
                "lifetime, const, in 1-3 universes; 1/3 of them unified into classes via the real relate; 1/3 of the classes bound to values "
                "that mention later classes, so bound values are folded through) and a value of 1-4 generic args over all constructors, "
                "placeholders of all three kinds in universes 0-8 with gaps, repeated variables, variables of unified classes, bound "
                "variables; streams: canon (+ canon-ty) with two renamed twins each (consistent: bijection on classes keeping sort and "
                "universe, any member of the image class; inconsistent: merge two classes / split one occurrence off / move a class to "
                "another universe / change the kind annotation), ucanon (outputs of the canonicalizer and generated canonical values), "
                "map-from-canonical with out-of-range canonical universes, instantiate-canon (instantiate then canonicalize; well-numbered "
                "and arbitrary canonical values), invert (2/3 with all variables bound), instantiate-ex/-univ; 1/15 malformed (free bound "
                "variables, kind-inconsistent uses, empty/unsorted universe maps). Non-trivial = the output has a canonical variable / "
                "panicked / more than one universe / any invert case; distinct = distinct request lines",
        "technique": "Lean 4 theorems about executable models of Canonicalizer, fresh_subst/instantiate_canonical, u_canonicalize/UniverseMap, "
                     "invert (a generic state-threading fold, forward simulation and fusion lemmas over the mutual syntax; fuel = number of "
                     "table variables for the recursion through bound values) + exact differential correspondence on real InferenceTables + "
                     "the property's sentences evaluated on the implementation (renamed twins, round trips, order of universes)",
        "claim": "Proved for all tables, values and budgets (unbounded): canon_first_occurrence (free_vars = first occurrence of each distinct "
                 "unbound root met by the traversal, in order; no duplicates; binder i = kind of that occurrence x universe of root i), "
                 "canon_numbering (the canonical value is the input with every unbound variable replaced by the position of its root in "
                 "free_vars and every bound variable by its value numbered the same way), canon_closed (no inference variable and only ^0.i "
                 "with i < #binders in the canonical value; needed by C28), canon_roundtrip (canonicalize(instantiate c) = c for every "
                 "WellNumbered c, all kinds incl. integer/float/const binders, any universes), canon_eq_of_renaming (+ _same_table: the IF "
                 "direction of 'equal canonical forms iff renaming', for two (table,value) pairs related by a root-bijective, "
                 "universe-preserving renaming, bound variables included), invert_none_iff (invert refuses iff the traversal meets an unbound "
                 "variable), invert_some_spec, invert_consistent + invOk_var (the result is the canonical value with every type/lifetime "
                 "placeholder replaced, consistently at all occurrences, by one variable per placeholder; these variables are fresh, pairwise "
                 "distinct, unbound roots in the placeholder's universe; const placeholders stay, as in the code), ucanon_monotone (map "
                 "strictly increasing, U0 first, every present universe mapped, compression strictly monotone and order-reflecting), "
                 "ucanon_roundtrip (map_from_canonical(u_canonicalize c) = c for type, lifetime AND const placeholders, on the code as "
                 "repaired for F8; legacy_ucanon_roundtrip_refuted proves the defect on the pre-repair folder), from_canonical_fresh (total, "
                 "strictly increasing on all canonical universes, out-of-range ones land above every original one). Every model function is "
                 "compared exactly with the real one on every run (canonical value, binders, free_vars roots, universe maps, inverted "
                 "values) and the property is evaluated on the implementation: consistent twins must give equal forms, inconsistent ones "
                 "different forms, canonicalize(instantiate(.)) of every canonicalizer output and of every well-numbered input must give it "
                 "back, u_canonicalize must be order-preserving and undone by map_from_canonical, invert must refuse exactly on reachable "
                 "unbound variables and replace placeholders consistently by fresh variables of their universe.",
        "note": "F8 (UMapFromCanonical without fold_free_placeholder_const: const placeholders keep the compressed universe) reproduced by the "
                "oracle and by the model comparison on the unchanged code, repaired in /repo (commit f919731, status fixed, regression input in "
                "corpus/C16). NOT YET THEOREMS (checked differentially only): the converse of canon_eq_of_renaming (equal forms => renaming; "
                "inconsistent twins), 'every output of canonicalize is WellNumbered' (one machine-checked example + independent walk on every "
                "real well-sorted output; ill-sorted inputs - one variable used at two sorts - are counted and excluded from the "
                "oracles), sufficiency of fuel = #variables on acyclic "
                "tables (argued in Canon.lean), the union-find invariants of Infer.lean (theorems assume Table.Aligned where fresh variables "
                "are created; Renaming states its requirements on roots directly). Constants: Canonicalizer/Inverter/UMap* receive the type "
                "of a variable/placeholder constant unfolded and copy it; closedAt does not inspect those types and VarKind.const keeps only "
                "a scalar code (standing assumption: constants have closed scalar types). max_universe of the Canonicalizer is computed and "
                "dropped by the Rust code, so it is modelled but not compared. bind steps and unify-vv on a bound variable use the "
                "cfg(chalk_verif) hooks (plain ena unify_var_value/unify_var_var: the real relate would generalize the value and create "
                "further variables); cyclic tables are not generated (the real code overflows the stack, the model reports a panic). "
                "Trusted: Lean kernel, model fidelity (differential only), harness and its independent walkers.",
        "correspondence": "Table.canonicalize/canonicalizeTy, instantiateCanonical, instantiateBinders*, uCanonicalize, mapFromCanonical, "
                          "Table.invert (lean/ChalkModel/{SFold,Canon,UCanon,Invert}.lean) vs chalk-solve infer::{canonicalize, instantiate, "
                          "ucanonicalize, invert} on a real InferenceTable<ChalkIr>",
    },
    "C04": {
        "level": "translation_validation",
        "rule": "every `goal { .. }` of every `program { .. }` block of /repo/tests/test/*.rs (extracted at run time, ~900 goals: associated types, auto traits, "
                "built-ins, custom clauses, lifetimes, negation, subtyping ...) plus 150 generated Horn-fragment programs x 6 goals (ground and with unknowns); "
                "both solvers on fresh instances in child-process shards; the pair of answers is judged by Compat.compatible after a generic first-order "
                "encoding of substitutions (lifetimes erased: region constraints are not compared); non-trivial = at least one solver found a solution",
        "technique": "certified comparator: Lean 4 theorem compatible_of_contracts (any solution set) + evaluation of the comparator on every pair of real answers",
        "claim": "compatible_of_contracts: if both answers meet C01's contract for the same (arbitrary) solution set then the comparator accepts; so every rejected pair "
                 "certifies a contract violation by one solver, with no reference semantics. The comparator is run on the whole test-suite corpus and generated programs.",
        "note": "Trusted: Lean kernel, the generic encoding in c04.rs, harness. Skipped (counted): recursive solver on coinductive/auto goals with unknowns (F12, process abort), "
                "SLG negative-cycle panics and recursive overflow panics (documented behaviours). A crash of a shard is reported with the case in flight and the shard re-run without it.",
        "correspondence": "real SLG vs real recursive solver through Compat.compatible",
        "explanation": "cross-validation of the two solvers by a certified comparator",
    },
    "C05": {
        "level": "translation_validation",
        "rule": "150 generated programs: 1-2 #[auto] traits (optionally a #[coinductive] trait with cyclic impls), 3-6 structs with 0-2 fields forming rings and chains "
                "(recursive and mutually recursive), explicit positive (plain and conditional) and negative auto-trait impls; 7 closed goals each (atoms, conjunctions, not); "
                "both solvers, each goal on a fresh instance AND the whole sequence on one shared instance; every answer judged by the certified evaluator on autoProgram(data) "
                "built in Lean from the ADT/impl data read off chalk's lowered Program; non-trivial = every judged answer",
        "technique": "certified checker (Stage-A evaluator, coinductive stratum proved sound in both directions) + Lean theorem that the gfp of the data-built clauses is the property's sentence (auto_sentence)",
        "claim": "auto_sentence / no_default_if_provided / default_clause_of_adt: the meaning used as oracle is exactly 'explicit impl applies, or constructor without explicit/negative "
                 "impl and all constituents hold, cycles satisfied'. decide_co_yes/no: every accepted Unique/No-solution is certified. Reuse of a solver instance is part of every run.",
        "note": "Trusted: Lean kernel, horn.rs data extraction (fields, impls, provided pairs), Stage-A theorems. Fragment: ADTs, u32/bool leaves; no tuples/refs/closures/phantom data. "
                "Known findings found by this check (open): F14 SLG reuse after a coinductive cycle gives 'No possible solution' for a true goal; F15 SLG panic 'Negative subgoal had delayed_subgoals'. "
                "The recursive solver's cache framework has its own model (C10).",
        "correspondence": "real Solver::solve (SLG, recursive; fresh and shared instances) vs Sem.evalGoal on autoProgram(data)",
        "explanation": "translation validation of solver answers by a certified checker",
    },
    "C06": {
        "level": "translation_validation",
        "rule": "150 generated programs: 2-5 traits (a quarter with a parameter) with 0-2 where-clauses each (supertraits Self: Tj, bounds on the trait's own parameter; "
                "diamonds and cycles arise), 2-3 structs, 0-3 impls (plain and conditional); 3 conclusions each posed as forall<X>{ if (hyps) {C} } and forall<X>{ C } "
                "interleaved (with/without/with or without/with/without) on ONE solver instance and on fresh instances, both solvers; each answer judged by the certified "
                "evaluator on impl clauses + environment clauses read off chalk's lowered Program; non-trivial = every judged answer",
        "technique": "certified checker (Stage-A evaluator) on the Horn encoding of hypotheses/implied bounds + Lean theorems on that encoding (hypothesis_usable, implied_bound, hypotheses_scoped)",
        "claim": "Every Unique/No-solution answer to a hypothetical goal is certified against the least fixed point in which hypotheses imply exactly the where-clauses of their traits "
                 "(transitively) and are visible only inside their `if`; the same conclusions without the hypotheses are posed to the same solver instance right before/after, so leakage "
                 "through caches/tables would be rejected.",
        "note": "Trusted: Lean kernel, horn.rs (environment-clause construction), Stage-A theorems. Fragment F1: trait where-clauses of kind Implemented; struct where-clauses, associated "
                "types and lifetimes are outside (programs with them are counted out-of-fragment). Where-clauses on a trait parameter give clauses with a body variable "
                "absent from the head: the evaluator answers unknown there (counted inconclusive, ~15%).",
        "correspondence": "real Solver::solve (SLG, recursive; shared and fresh instances) vs Sem.evalGoal on horn_env(program)",
        "explanation": "translation validation of solver answers by a certified checker",
    },
    "C07": {
        "level": "translation_validation",
        "rule": "150 generated coherent programs (one impl per trait and self-type constructor): 1-2 traits with an associated type (a quarter with a trait parameter), impls on "
                "nullary and unary structs whose values mention impl parameters, structs and scalars, some with where-clauses; 8 goals each: exists<U>{Normalize(<X as Tr>::A -> U)}, "
                "closed X: Tr<A = Y>, exists<U>{X: Tr<A = U>}, forall<X>{exists<U>{Normalize(..)}}; both solvers, fresh instances; closed goals judged by judge-ground, goals with unknowns "
                "by the C01 contract (judge-answer) on the Normalize/AliasEq clauses read off chalk's lowered Program; non-trivial = every judged answer",
        "technique": "certified checker (Stage-A evaluator + answer contract) on the Normalize/AliasEq Horn encoding + Lean theorems on that encoding (normalize_unique, aliasEq_sols) and on the exact priority rule (withPriorities_prefers_high)",
        "claim": "A Unique answer to a normalization goal is certified to be a solution and no enumerated other type is one; No-solution is refuted when an impl applies; closed equality goals are "
                 "decided against the least fixed point (never another type). normalize_unique: in a coherent program two normal forms of one projection coincide; aliasEq_sols: an AliasEq fact "
                 "is the normalized value or the placeholder type; with equal inputs the high-priority impl solution is the one returned.",
        "note": "Trusted: Lean kernel, horn.rs encoding, Stage-A theorems, Aggregate model (C17). Fragment F2: non-generic associated types without bounds; values without projections "
                "(values mentioning other projections are not generated yet); completeness half bounded by the enumeration (depth 2).",
        "correspondence": "real Solver::solve (SLG, recursive) vs Sem contract on horn_assoc(program)",
        "explanation": "translation validation of solver answers by a certified checker",
    },
    "C13": {
        "level": "proof",
        "rule": "100 generated Horn-fragment programs (no growing-type impls: searches stay within the size limits) x 5 goals (2 closed, 3 with unknowns) x 6 (thorough 24) "
                "random permutations of the item list and of every where-clause list, both solvers, fresh instances, in child-process shards; answers compared "
                "through their name-based rendering; non-trivial = every (goal, solver) family of permutations; plus the aggregation-layer witness lines for the model",
        "technique": "Lean 4 theorems (meaning is invariant under permutation of clauses/conditions; order dependence of SLG guidance refuted on the exact aggregation model) + differential runs under permutation",
        "claim": "sol_perm_invariant/sol_perm_clauses: the declarative solution set cannot depend on declaration order, for every program and goal. guidance_order_dependent: the full "
                 "statement is false at the SLG aggregation layer (exact model, witness F2); guidance_sound_any_order: any order gives guidance that generalises all merged answers. "
                 "On the real code every permutation family must give identical answers; differences are reported with the permuted program as replay.",
        "note": "Trusted: Lean kernel, Aggregate model fidelity (C17 correspondence), harness. Known findings (open): F2 slg_antiunify_order, F13 slg_trivial_answer_order "
                "(found by this check). The recursive solver showed no order dependence in the explored programs.",
        "correspondence": "real solvers under permutation; mayInvalidate/mergeIntoGuidance witness lines vs chalk-engine",
    },
    "C17": {
        "level": "proof",
        "rule": "pairs of canonical substitutions (1-3 generic args over every constructor, placeholders, consts, lifetimes, variables ^0.i) "
                "derived from a common ancestor by generalising subterms to variables, then identical / edited / ground-vs-generalised / "
                "independent; ops may-invalidate, merge, is-trivial, combine (solution pairs sharing or not sharing a substitution), "
                "with-priorities; 1/12 malformed (kind-mismatched, wrong lengths, free inference variables); non-trivial = the merge "
                "introduced a variable / the check answered / the two solutions differ; distinct = distinct request lines",
        "technique": "Lean 4 theorems about an exact model of AntiUnifier/MayInvalidate/Solution::combine/with_priorities (induction over the mutual syntax; refutation by witness where the code violates the property) + differential correspondence through cfg hooks + independent matcher as oracle",
        "claim": "merge_generalizes, combine_comm, combine_no_more, withPriorities_prefers_high are proved for all inputs; the full soundness "
                 "statement of may_invalidate is refuted on the model by the F1 witness and proved in the partial form (structural instance = "
                 "instance for guidance without repeated variables); every model function is compared exactly with the real one on every run and "
                 "the property's sentences are evaluated on the real code (merge results matched against both inputs, may_invalidate=false "
                 "cross-checked by actually merging, combine in both orders).",
        "note": "Trusted: Lean kernel, model fidelity (differential only), harness + its matcher. Known finding F1 (open): may_invalidate unsound for "
                "guidance that repeats a variable. Constants: the types of corresponding constants are assumed equal (typing), as the Rust code assumes. "
                "Linearity of anti-unifier results (each fresh variable used once) is argued in the model's doc comment, not yet a theorem.",
        "correspondence": "mayInvalidate/mergeIntoGuidance/isTrivial/Solution.combine/withPriorities (lean/ChalkModel/Aggregate.lean) vs chalk-engine slg::{MayInvalidate, aggregate}, chalk-solve Solution::combine, chalk-recursive combine::with_priorities",
    },
    "C18": {
        "level": "proof",
        "rule": "pairs (type / domain goal or clause conclusion / argument list) derived from a common ancestor by replacing subterms with "
                "bound or inference variables (unifiable by construction, 40%), then edited in one constructor (30%) or independent (30%); "
                "variance tables well-formed or (10%) too short; plus generated programs (structs with variances, traits, 2-6 impls) lowered "
                "by chalk with 4 impls_for_trait queries each; non-trivial = the filter said false / dropped an impl / panicked",
        "technique": "Lean 4 theorems (no pair with a common instance is rejected; impls_for_trait keeps every such impl) + differential correspondence + real unifier as oracle",
        "claim": "couldMatch_of_unifiable and implsFor_superset are proved for every pair of terms of the model and every folder pair (any "
                 "substitution of bound/inference variables/placeholders); could_match booleans and impls_for_trait id lists are compared "
                 "exactly with the model; on the implementation every rejected pair / dropped impl is re-checked with the real InferenceTable::relate.",
        "note": "Trusted: Lean kernel, model fidelity (differential), harness. The second DESIGN theorem (false => relate fails for every table) needs the "
                "unifier model and is covered here only by running the real unifier on each rejected pair.",
        "correspondence": "cmTy/cmDomainGoal/cmSlice/implsForTrait (lean/ChalkModel/CouldMatch.lean) vs chalk_ir::could_match and Program::impls_for_trait",
    },
    "C19": {
        "level": "proof",
        "rule": "per trait two request lines (op priorities: outcome ok+priority per impl / overlap / panic; op coh-trace: which pairs were "
                "queried and how many solver answers each consumed). Streams: (a) exhaustive: the real CoherenceSolver driven by a scripted "
                "Solver over every pair of answer strings for 3 impls x all 8 negative-flag assignments, marker on/off (thorough: also every "
                "string pair for 4 positive impls, 262144 tables); (b) random scripted answer strings for 0..5 impls with varying rates of "
                "disjoint / two-way / backward answers, so cyclic and non-transitive tables occur, plus marker and negative flags; (c) generated "
                ".chalk programs with <= 5 impls of a trait over structs I32, U8, Vec<T>, Box<T>, Pair<A,B>: headers from a pool of 19 (blanket T, "
                "Vec<T>, Vec<Vec<T>>, Vec<I32>, Pair<T,T>, ...), named shapes (chains of 3-5, trees, Pair diamonds, incomparable pairs, flat, "
                "identical duplicates) with members dropped/added, shuffled order, where-clauses on auxiliary traits that have their own impls, "
                "1/10 #[marker], negative impls; real SLG solver; the answer table for every pair is read through the cfg(chalk_verif) hook. "
                "Non-trivial = trait with >= 2 impls for which at least one pair was visited; distinct = distinct request lines",
        "technique": "Lean 4 theorems about an executable model of visit_specializations_of_trait / build_specialization_forest / set_priorities "
                     "(loop invariant of the priority DFS, counting argument for roots) + differential correspondence with CoherenceSolver "
                     "(outcome and query trace) + direct evaluation of the property on the implementation against an independent matcher",
        "claim": "coherence_total is proved at full strength for the code as repaired (F4): for every number of impls, every table of solver answers "
                 "(cyclic ones included) and every marker/negative flags the check ends with acceptance or the overlap error, never a panic. "
                 "priorities_consistent_partial is proved for every non-marker trait under the set-theoretic oracle over an arbitrary type of "
                 "trait references (sets of any size): two impls that are not both negative and apply to a common trait reference both have "
                 "a priority and the two differ (so equal priority implies disjoint), and an impl applying to a non-empty strict subset has the "
                 "strictly higher priority. The sentence read literally for all flags is refuted by machine-checked witnesses in the corner "
                 "classes the code intends (marker traits are not ordered, two negative impls are never compared, an impl that applies to nothing "
                 "is disjoint from everything). The model is compared with the real CoherenceSolver on every run (outcome and which queries it "
                 "made); the property is also evaluated on the real outcome over all ground types of depth <= 2 of each generated program.",
        "note": "F4 (assert in SpecializationPriorities::insert on a chain of three specializing impls) reproduced, repaired in /repo (commit bfe588c, "
                "status fixed in known_findings.json), regression inputs in corpus/C19; Legacy.* in the model keeps the pre-repair code and "
                "legacy_assert_trips_on_chain proves the defect on it. Trusted: Lean kernel, model fidelity (differential only; a petgraph NodeIndex is "
                "represented by the impl number), harness, the matcher used for the direct evaluation (structs only, where-clauses `Ty: Trait`). "
                "The comparison of solver answers with sets of trait references is bounded (depth 2) and only the soundness direction is required. "
                "Residue outside the property's oracle: answers forming a cycle that no root reaches leave those impls without priority (accepted, no panic).",
        "correspondence": "Coherence model (lean/ChalkModel/Coherence.lean: visit, buildForest, setPriorities, specializationPriorities) vs "
                          "chalk-solve coherence.rs / coherence/solve.rs CoherenceSolver::specialization_priorities",
    },
    "C25": {
        "level": "proof",
        "rule": "type-directed random terms (all 25 TyKind variants, lifetimes/consts of every kind, dyn and fn-pointer binders, "
                "bound variables at de Bruijn depths 0..binders+3) x ops {shift-in, shift-out, shift-in-out, subst, subst-wc, "
                "substitute, identity-subst, fold-noop}, 1/8 malformed (kind-mismatched / short parameter lists); a case is "
                "non-trivial when the operation changed the term, failed or panicked; distinct = distinct request lines",
        "technique": "Lean 4 theorems (structural induction over the mutual term syntax) + differential correspondence of the model driver with chalk-ir",
        "claim": "The substitution laws are theorems about an executable model of Shifter/DownShifter/Subst/default folds for every type, "
                 "lifetime, const, generic argument, where clause and dyn bound of any size; the model is tied to the Rust code by exact "
                 "output comparison on generated terms on every run, and the laws are also evaluated on the implementation itself.",
        "note": "Trusted: Lean kernel, the hand-written model's fidelity (checked by differential runs only), the harness. Goals and program "
                "clauses are not yet in the model (types, lifetimes, consts, substitutions, where-clauses, dyn bounds, fn pointers are).",
        "correspondence": "Shift/Subst/Fold model (lean/ChalkModel/{Fold,Shift}.lean) vs chalk-ir fold::{shift,subst}, Binders::substitute",
    },
    "C26": {
        "level": "proof",
        "rule": "type-directed random types of depth 1..5 over all 25 TyKind variants with consts/lifetimes of every kind and dyn "
                "bounds of all four where-clause kinds; non-trivial = the stored flag word is non-zero; distinct = distinct request lines",
        "technique": "Lean 4 theorem (flag set iff reported leaf occurs, all types) + differential correspondence with TyData.flags",
        "claim": "flags_iff_occurs is proved for every type of the model (all TyKind variants, every lifetime/const kind, dyn bounds); the "
                 "model's flag word is compared bit-for-bit with the flags chalk stores, and an independent leaf walk over the serialised "
                 "term is compared with the implementation's flags as well.",
        "note": "Trusted: Lean kernel, model fidelity (differential only), harness serialiser. STILL_FURTHER_SPECIALIZABLE is modelled but excluded from the theorem, as the property says.",
        "correspondence": "Ty.computeFlags (lean/ChalkModel/Flags.lean) vs TyData.flags as stored by Ty::new",
    },
    "C27": {
        "level": "proof",
        "rule": "exhaustive, no randomness: 7 layout situations (identical layout size 4 and size 8 with different field offsets -> in-place "
                "path; larger U, smaller U, T and U zero-sized, only T zero-sized, only U zero-sized -> fallback path) x every length "
                "0..8 (thorough 0..64) x {no failure, failure at every position k < n} x {Err return, panic caught by catch_unwind}, plus "
                "boxes for every layout x {ok, err, panic}; the real fallible_map_vec / fallible_map_box are called through the "
                "cfg(chalk_verif) hook on element types whose destructors log (id, T | U | cb = dropped inside the callback's frame); "
                "a case is non-trivial when the vector is non-empty (at least one element is mapped or dropped) or it is a box; "
                "distinct = distinct request lines",
        "technique": "Lean 4 theorems (induction over the loops of an executable slot/buffer model, all lengths, positions, callbacks) + "
                     "exhaustive differential correspondence of drop multiset and returned contents with chalk-ir/src/fold/in_place.rs",
        "claim": "For every layout situation, every callback (position, id) -> ok u | err | panic, every vector length and every failing "
                 "position, both failure modes, and for boxes, the model of fallible_map_vec / fallible_map_box (control flow of "
                 "in_place.rs including Drop for VecMappedInPlace on error return and on unwinding, and the into_iter().map().collect() / "
                 "Box::new fallback) never reaches ub (read of a moved-out/dropped/freed slot, drop at the wrong type, double drop, "
                 "double free); on failure the drop log is a permutation of {failing element by the callback, mapped prefix as U, "
                 "unmapped suffix as T} (one entry per position, no duplicates for distinct ids, nothing left live) and every buffer "
                 "ends freed; on success the log is empty and the result owns a buffer holding all mapped values in order. The model "
                 "is tied to the Rust code on every run by exact comparison of exit kind, returned ids and sorted drop log over the "
                 "whole space up to the length bound, and the property is also evaluated directly on the real runs.",
        "note": "PARTIAL with respect to real memory: the theorems are about slots {liveT, liveU, moved, dropped} and a buffer token "
                "{owned, freed}; the allocator (sizes/capacities/alignments handed to dealloc inside Vec::from_raw_parts and Box::from_raw, "
                "reads of uninitialised bytes, pointer provenance) is NOT modelled and not observable by the harness, so a theorem "
                "about slots cannot exhibit e.g. a dealloc with a wrong layout. The fallback path models std's IntoIter/collect "
                "abstractly (two buffers); the relative order of std's two destructors is not claimed, only the multiset is compared. "
                "Supporting evidence outside ./check: the same harness cases (quick tier, 588 runs) executed under "
                "`cargo +nightly miri run` with -Zmiri-disable-isolation reported no undefined behaviour and no leak. "
                "Trusted: Lean kernel, model fidelity (differential, exhaustive up to the bound), the harness's drop-recording types.",
        "correspondence": "InPlace.fallibleMapVec / fallibleMapBox (lean/ChalkModel/InPlace.lean) vs chalk_ir::fold::in_place::{fallible_map_vec, "
                          "fallible_map_box} through the hook chalk_ir::fold::verif",
        "explanation": "complete enumeration of layouts x lengths x failure positions x failure modes up to the tier's length bound "
                       "(8 quick, 64 thorough); the theorems cover all lengths",
    },
}
