"""Per-property configuration of ./check (level, generation rule, what the correspondence is)."""

HOOK_COMMITS = ["f5b1d5244facd014c279423c479633cc3b50fced", "3268006", "35263043bf6b5f4fd4fd4db82c5d5667fb3b1627", "271a2157aed3e04ac2f8ae3450ad240ff780209e", "dd59e1336b5a0e5e9904133fd68242d941c5cae1", "4e071b4aa7c10fdd7b9386de080e5777a2954bde", "834320745b50f3f381f6bf170e16583dc0615328", "72630d7"]

PROPS = {
    "C01": {
        "extra_props": ["C01gen"],
        "level": "translation_validation",
        "rule": "generated Horn-fragment programs (as C02; 1/4 with #[coinductive] traits, SLG only for those) x 6 goals with 1-2 unknowns (4 shaped after an "
                "impl header with parameters/subterms replaced by unknowns, 2 free-form, conjunctions and equalities); both solvers on fresh instances; "
                "each answer judged by Contract.judgeAnswer with candidate solutions enumerated over the program's constructors (depth 2 for one unknown, "
                "depth 1 for two, capped); known-finding programs from corpus/C01 first; non-trivial = every judged answer",
        "technique": "certified checker: Lean 4 acceptance predicate over the proved-sound Stage-A evaluator (every rejection carries a kernel-certified witness); exact model + theorems for the aggregation layer (C17)",
        "claim": "Unique: certified to hold for the generic instantiation of its substitution and THEREFORE for every instantiation (Props/C01gen.lean, accepted_unique_holds_every_instance: the generalisation lemma for opaque constants, both fixed-point strata, positive goals whose program/goal/answer contain no !g symbol - side conditions evaluated by the driver per answer, stage unique:A+bounded+every-instance; necessity of positivity: generalisation_fails_with_negation), and no enumerated certified solution lies outside it; No-solution and "
                 "definite guidance: no enumerated certified solution contradicts them. Every rejection is a proved violation of the property's sentence "
                 "(theorems rejected_none_has_solution, rejected_unique_does_not_hold, rejected_excludes_solution). Completeness half is refutation-complete "
                 "only up to the enumeration bound (Stage C / lifting lemma not proved).",
        "note": "Trusted: Lean kernel, horn.rs translation (program, peeled query, answers), Stage-A theorems. Not verified: the solvers' search (every produced "
                "answer is checked instead). Known findings F1 (SLG nonlinear definite guidance) and F11 (SLG coinductive variant cycle) are open and reported as "
                "KNOWN-FINDING. 'holds for every instantiation' is certified on the generic instance with opaque constants and lifted to every instance by the generalisation lemma "
                "(Props/C01gen.lean: derivations of both strata are closed under replacing opaque constants that the program does not mention).",
        "correspondence": "real Solver::solve (SLG, recursive) vs Contract.judgeAnswer on horn(program, peeled goal)",
        "explanation": "translation validation of solver answers by a certified checker",
    },
    "C02": {
        "extra_props": ["C05fp", "C02gen"],
        "level": "translation_validation",
        "rule": "generated programs of the Horn fragment (structs of arity 0-2, 1-3 traits with 0-1 parameters, optionally #[coinductive], 2-7 impls: "
                "concrete, structural with where-clause, blanket, repeated parameter, growing/polymorphic-recursive, concrete cycle edges) lowered by "
                "chalk; 8 closed goals each (atoms, conjunctions, forall/if, not); both solvers at default limits on fresh instances; every answer is "
                "judged by the Lean Stage-A evaluator on the Horn clauses read off chalk's lowered Program; non-trivial = every judged answer; "
                "distinct = distinct (program, goal, solver) lines",
        "technique": "certified checker: Lean 4 evaluator with proved soundness of yes/no against a fixed-point semantics (evalGoal_sound), applied to every solver answer",
        "claim": "(`forall` in goals is translated with a fresh opaque constant; Props/C02gen.lean forall_by_fresh_constant(s): for positive goals that is equivalent to holding for every term, refuted with negation.) For every program/goal generated, a Unique / No-solution answer is accepted only if the kernel-checked evaluator certifies that the goal "
                 "holds / fails in the declarative semantics (least fixed point, greatest for coinductive traits); Ambiguous on a decided closed goal is a rejection. "
                 "The solvers themselves are not verified: every produced answer is.",
        "note": "Trusted: Lean kernel; the translation horn.rs from chalk's lowered Program/Goal to Horn clauses (hand-written, small); Stage-A theorems "
                "evalInd_yes/no, evalCo_yes/no, evalGoal_sound. Inconclusive (fuel, growing types) cases are counted, never alarms. Solver limits: defaults only so far.",
        "correspondence": "real Solver::solve (SLG, recursive) vs Sem.evalGoal on horn(program)",
        "explanation": "translation validation of solver answers by a certified checker",
    },
    "C16": {
        "level": "proof",
        "rule": "every case carries its inference table as a script (new universes 0-6; 0-9 variables of sorts general/integer/float type, "
                "lifetime, const, in 1-3 universes; 1/3 of them unified into classes via the real relate; 1/3 of the classes bound to values "
                "that mention later classes, so bound values are folded through) and a value of 1-4 generic args over all constructors, "
                "placeholders of all three kinds in universes 0-8 with gaps, repeated variables, variables of unified classes, bound "
                "variables; streams: canon (+ canon-ty) with two renamed twins each (consistent: bijection on classes keeping sort and "
                "universe, any member of the image class; inconsistent: merge two classes / split one occurrence off / move a class to "
                "another universe / change the kind annotation), ucanon (outputs of the canonicalizer and generated canonical values), "
                "map-from-canonical with out-of-range canonical universes, instantiate-canon (instantiate then canonicalize; well-numbered "
                "and arbitrary canonical values), invert (2/3 with all variables bound), instantiate-ex/-univ; 1/15 malformed (free bound "
                "variables, kind-inconsistent uses, empty/unsorted universe maps). Non-trivial = the output has a canonical variable / "
                "panicked / more than one universe / any invert case; distinct = distinct request lines",
        "technique": "Lean 4 theorems about executable models of Canonicalizer, fresh_subst/instantiate_canonical, u_canonicalize/UniverseMap, "
                     "invert (a generic state-threading fold, forward simulation and fusion lemmas over the mutual syntax; fuel = number of "
                     "table variables for the recursion through bound values) + exact differential correspondence on real InferenceTables + "
                     "the property's sentences evaluated on the implementation (renamed twins, round trips, order of universes)",
        "claim": "Proved for all tables, values and budgets (unbounded): canon_first_occurrence (free_vars = first occurrence of each distinct "
                 "unbound root met by the traversal, in order; no duplicates; binder i = kind of that occurrence x universe of root i), "
                 "canon_numbering (the canonical value is the input with every unbound variable replaced by the position of its root in "
                 "free_vars and every bound variable by its value numbered the same way), canon_closed (no inference variable and only ^0.i "
                 "with i < #binders in the canonical value; needed by C28), canon_roundtrip (canonicalize(instantiate c) = c for every "
                 "WellNumbered c, all kinds incl. integer/float/const binders, any universes), canon_eq_of_renaming (+ _same_table: the IF "
                 "direction of 'equal canonical forms iff renaming', for two (table,value) pairs related by a root-bijective, "
                 "universe-preserving renaming, bound variables included), invert_none_iff (invert refuses iff the traversal meets an unbound "
                 "variable), invert_some_spec, invert_consistent + invOk_var (the result is the canonical value with every type/lifetime "
                 "placeholder replaced, consistently at all occurrences, by one variable per placeholder; these variables are fresh, pairwise "
                 "distinct, unbound roots in the placeholder's universe; const placeholders stay, as in the code), ucanon_monotone (map "
                 "strictly increasing, U0 first, every present universe mapped, compression strictly monotone and order-reflecting), "
                 "ucanon_roundtrip (map_from_canonical(u_canonicalize c) = c for type, lifetime AND const placeholders, on the code as "
                 "repaired for F8; legacy_ucanon_roundtrip_refuted proves the defect on the pre-repair folder), from_canonical_fresh (total, "
                 "strictly increasing on all canonical universes, out-of-range ones land above every original one). Every model function is "
                 "compared exactly with the real one on every run (canonical value, binders, free_vars roots, universe maps, inverted "
                 "values) and the property is evaluated on the implementation: consistent twins must give equal forms, inconsistent ones "
                 "different forms, canonicalize(instantiate(.)) of every canonicalizer output and of every well-numbered input must give it "
                 "back, u_canonicalize must be order-preserving and undone by map_from_canonical, invert must refuse exactly on reachable "
                 "unbound variables and replace placeholders consistently by fresh variables of their universe.",
        "note": "F8 (UMapFromCanonical without fold_free_placeholder_const: const placeholders keep the compressed universe) reproduced by the "
                "oracle and by the model comparison on the unchanged code, repaired in /repo (commit f919731, status fixed, regression input in "
                "corpus/C16). NOT YET THEOREMS (checked differentially only): the converse of canon_eq_of_renaming (equal forms => renaming; "
                "inconsistent twins), 'every output of canonicalize is WellNumbered' (one machine-checked example + independent walk on every "
                "real well-sorted output; ill-sorted inputs - one variable used at two sorts - are counted and excluded from the "
                "oracles), sufficiency of fuel = #variables on acyclic "
                "tables (argued in Canon.lean), the union-find invariants of Infer.lean (theorems assume Table.Aligned where fresh variables "
                "are created; Renaming states its requirements on roots directly). Constants: Canonicalizer/Inverter/UMap* receive the type "
                "of a variable/placeholder constant unfolded and copy it; closedAt does not inspect those types and VarKind.const keeps only "
                "a scalar code (standing assumption: constants have closed scalar types). max_universe of the Canonicalizer is computed and "
                "dropped by the Rust code, so it is modelled but not compared. bind steps and unify-vv on a bound variable use the "
                "cfg(chalk_verif) hooks (plain ena unify_var_value/unify_var_var: the real relate would generalize the value and create "
                "further variables); cyclic tables are not generated (the real code overflows the stack, the model reports a panic). "
                "Trusted: Lean kernel, model fidelity (differential only), harness and its independent walkers.",
        "correspondence": "Table.canonicalize/canonicalizeTy, instantiateCanonical, instantiateBinders*, uCanonicalize, mapFromCanonical, "
                          "Table.invert (lean/ChalkModel/{SFold,Canon,UCanon,Invert}.lean) vs chalk-solve infer::{canonicalize, instantiate, "
                          "ucanonicalize, invert} on a real InferenceTable<ChalkIr>",
    },
    "C03": {
        "level": "proof",
        "rule": "120 generated Horn-fragment programs (1/5 with coinductive traits) x 6 goals with unknowns (finite and infinite solution sets: structural impls give unbounded streams, "
                "cut after 8 callbacks); for each: a fresh SLGSolver, solve_multiple with a callback that continues 7 times; (1) the observed callback sequence vs the stream model "
                "replayed over the root table dumped through the cfg hook (exact); (2) the yielded answers judged by judgeEnumeration (sound / no duplicates / complete when the stream ended); "
                "non-trivial = at least one callback",
        "technique": "Lean 4 theorems about an exact model of push_answer / peek / next / solve_multiple (invariant by induction over pushes; callback sequence = valid answers with accurate flag) + certified content checker",
        "claim": "pushAnswer_nodup (any push sequence), enumerate_eq_filter_and_flag_accurate (the callback sequence is the table's valid answers in order, flag true iff another follows) are "
                 "proved for the model, which reproduces the real callback sequences exactly on every run; rejected_not_sound / rejected_misses: every content rejection is a certified violation.",
        "note": "Trusted: Lean kernel, model fidelity (differential through the table-dump hook), horn.rs, Stage-A theorems. The engine that fills the table is not modelled: its content is judged per run. "
                "Completeness is refutation-complete up to the enumeration bound. Known finding F11 (open) shows up here as an unsound enumerated answer.",
        "correspondence": "solveMultiple (lean/ChalkModel/AnswerStream.lean) vs SLGSolver::solve_multiple + Table dump; judgeEnumeration vs yielded answers",
    },
    "C04": {
        "level": "translation_validation",
        "rule": "every `goal { .. }` of every `program { .. }` block of /repo/tests/test/*.rs (extracted at run time, ~900 goals: associated types, auto traits, "
                "built-ins, custom clauses, lifetimes, negation, subtyping ...) plus 150 generated Horn-fragment programs x 6 goals (ground and with unknowns); "
                "both solvers on fresh instances in child-process shards; the pair of answers is judged by Compat.compatible after a generic first-order "
                "encoding of substitutions (lifetimes erased: region constraints are not compared); non-trivial = at least one solver found a solution",
        "technique": "certified comparator: Lean 4 theorem compatible_of_contracts (any solution set) + evaluation of the comparator on every pair of real answers",
        "claim": "compatible_of_contracts: if both answers meet C01's contract for the same (arbitrary) solution set then the comparator accepts; so every rejected pair "
                 "certifies a contract violation by one solver, with no reference semantics. The comparator is run on the whole test-suite corpus and generated programs.",
        "note": "Trusted: Lean kernel, the generic encoding in c04.rs, harness. Skipped (counted): recursive solver on coinductive/auto goals with unknowns (F12, process abort), "
                "SLG negative-cycle panics and recursive overflow panics (documented behaviours). A crash of a shard is reported with the case in flight and the shard re-run without it.",
        "correspondence": "real SLG vs real recursive solver through Compat.compatible",
        "explanation": "cross-validation of the two solvers by a certified comparator",
    },
    "C05": {
        "extra_props": ["C05fp", "C05mixed", "C05strat"],
        "level": "translation_validation",
        "rule": "150 generated programs: 1-2 #[auto] traits (optionally a #[coinductive] trait with cyclic impls), 3-6 structs with 0-2 fields forming rings and chains "
                "(recursive and mutually recursive), explicit positive (plain and conditional) and negative auto-trait impls; 7 closed goals each (atoms, conjunctions, not); "
                "both solvers, each goal on a fresh instance AND the whole sequence on one shared instance; every answer judged by the certified evaluator on autoProgram(data) "
                "built in Lean from the ADT/impl data read off chalk's lowered Program; non-trivial = every judged answer",
        "technique": "certified checker (Stage-A evaluator, coinductive stratum proved sound in both directions) + Lean theorem that the gfp of the data-built clauses is the property's sentence (auto_sentence)",
        "claim": "(Props/C05strat.lean: a stratification exists iff no dependency cycle mixes polarities, so the mixed-instance correctness theorems hold for every instance without a mixed cycle.) auto_sentence / no_default_if_provided / default_clause_of_adt: the meaning used as oracle is exactly 'explicit impl applies, or constructor without explicit/negative "
                 "impl and all constituents hold, cycles satisfied'. decide_co_yes/no: every accepted Unique/No-solution is certified. Reuse of a solver instance is part of every run.",
        "note": "Trusted: Lean kernel, horn.rs data extraction (fields, impls, provided pairs), Stage-A theorems. Fragment: ADTs, u32/bool leaves; no tuples/refs/closures/phantom data. "
                "Known findings found by this check (open): F14 SLG reuse after a coinductive cycle gives 'No possible solution' for a true goal; F15 SLG panic 'Negative subgoal had delayed_subgoals'. "
                "The recursive solver's fixed-point/cache framework has an exact model (FixedPoint.lean, tied to the code by the C10 correspondence and, on the ground dependency-graph families of this check, "
                "by an exact history line per program here); Props/C05fp.lean PROVES for every finite ground all-coinductive (resp. all-inductive) instance, any cycle structure, any history of plain solve calls: "
                "the model returns, never panics, answers unique iff the goal is in the greatest (resp. least) fixed point, and leaves only correct entries in the cache "
                "(coinductive_cycles_correct, inductive_cycles_correct, *_history_correct) - the second sentence of the property as a theorem. Not covered by that theorem: mixed cycles, goals with unknowns, interrupted runs, cache off.",
        "correspondence": "real Solver::solve (SLG, recursive; fresh and shared instances) vs Sem.evalGoal on autoProgram(data)",
        "explanation": "translation validation of solver answers by a certified checker",
    },
    "C06": {
        "extra_props": ["C02gen", "C06sem"],
        "level": "translation_validation",
        "rule": "150 generated programs: 2-5 traits (a quarter with a parameter) with 0-2 where-clauses each (supertraits Self: Tj, bounds on the trait's own parameter; "
                "diamonds and cycles arise), 2-3 structs, 0-3 impls (plain and conditional); 3 conclusions each posed as forall<X>{ if (hyps) {C} } and forall<X>{ C } "
                "interleaved (with/without/with or without/with/without) on ONE solver instance and on fresh instances, both solvers; each answer judged by the certified "
                "evaluator on impl clauses + environment clauses read off chalk's lowered Program; non-trivial = every judged answer",
        "technique": "Lean 4 theorems on the semantics for ALL programs, both strata (Props/C06sem.lean: weakening, cut, a ground hypothesis = an added program fact hyp_iff_fact / implies_iff_facts, no_leak) + certified checker (Stage-A evaluator) on the Horn encoding of hypotheses/implied bounds + Lean theorems on that encoding (hypothesis_usable, implied_bound, hypotheses_scoped)",
        "claim": "Every Unique/No-solution answer to a hypothetical goal is certified against the least fixed point in which hypotheses imply exactly the where-clauses of their traits "
                 "(transitively) and are visible only inside their `if`; the same conclusions without the hypotheses are posed to the same solver instance right before/after, so leakage "
                 "through caches/tables would be rejected.",
        "note": "Trusted: Lean kernel, horn.rs (environment-clause construction), Stage-A theorems. Fragment F1: trait where-clauses of kind Implemented; struct where-clauses, associated "
                "types and lifetimes are outside (programs with them are counted out-of-fragment). Where-clauses on a trait parameter give clauses with a body variable "
                "absent from the head: the evaluator answers unknown there (counted inconclusive, ~15%).",
        "correspondence": "real Solver::solve (SLG, recursive; shared and fresh instances) vs Sem.evalGoal on horn_env(program)",
        "explanation": "translation validation of solver answers by a certified checker",
    },
    "C07": {
        "extra_props": ["C01gen"],
        "level": "translation_validation",
        "rule": "(half of the traits of family 1 declare TWO associated types and their impls list the `type X = ..;` items in random order; goals project either) 150 generated coherent programs (one impl per trait and self-type constructor): 1-2 traits with an associated type (a quarter with a trait parameter), impls on "
                "nullary and unary structs whose values mention impl parameters, structs and scalars, some with where-clauses; 8 goals each: exists<U>{Normalize(<X as Tr>::A -> U)}, "
                "closed X: Tr<A = Y>, exists<U>{X: Tr<A = U>}, forall<X>{exists<U>{Normalize(..)}}; both solvers, fresh instances; closed goals judged by judge-ground, goals with unknowns "
                "by the C01 contract (judge-answer) on the Normalize/AliasEq clauses read off chalk's lowered Program; non-trivial = every judged answer",
        "technique": "certified checker (Stage-A evaluator + answer contract) on the Normalize/AliasEq Horn encoding + Lean theorems on that encoding (normalize_unique, aliasEq_sols) and on the exact priority rule (withPriorities_prefers_high)",
        "claim": "A Unique answer to a normalization goal is certified to be a solution and no enumerated other type is one; No-solution is refuted when an impl applies; closed equality goals are "
                 "decided against the least fixed point (never another type). normalize_unique: in a coherent program two normal forms of one projection coincide; aliasEq_sols: an AliasEq fact "
                 "is the normalized value or the placeholder type; with equal inputs the high-priority impl solution is the one returned.",
        "note": "Trusted: Lean kernel, horn.rs encoding, Stage-A theorems, Aggregate model (C17). Fragment F2: non-generic associated types without bounds; values without projections "
                "(values mentioning other projections are not generated yet); completeness half bounded by the enumeration (depth 2).",
        "correspondence": "real Solver::solve (SLG, recursive) vs Sem contract on horn_assoc(program)",
        "explanation": "translation validation of solver answers by a certified checker",
    },
    "C21": {
        "level": "translation_validation",
        "rule": "200 generated programs: 2-4 traits in supertrait chains/forks, structs with where-clauses and fields (a wrapper struct with or without the bound its field needs), "
                "impls for S0/u32/S1<P0> closed under supertraits or with one supertrait impl or one bound missing (about 40% broken on purpose); the real checked_program() decides; "
                "every ACCEPTED program is checked by judge-wf: for every trait where-clause `wf(Self),Tr(Self..) => W` and every struct field `wf(S<x>) => wf(field)`, over all closed "
                "types to depth 2 (capped at 200 instantiations each), premises and conclusion decided by the certified evaluator; non-trivial = accepted programs",
        "technique": "certified bounded check: Lean 4 evaluator (Stage A) decides premises and conclusions; theorem rejected_is_counterexample makes every rejection a proved violation; the universal meta-theorem is not proved",
        "claim": "For each accepted program no instantiation (within the stated bound) has certified-true premises and a certified-false implied bound; a rejection exhibits an accepted "
                 "program with such an instantiation (proved counterexample to the property).  Well-formedness of a type is read hereditarily (the struct's where-clauses hold and its arguments are well-formed).",
        "note": "Partial: the statement for ALL well-formed types (meta-theorem of implied bounds) is not a theorem here; the check is bounded (depth 2, 200 instantiations per implication) and says so in "
                "the evidence. Trusted: Lean kernel, horn.rs (wf clauses and implications), Stage-A theorems. A first version of the oracle read WellFormed(S<T>) non-hereditarily and raised false "
                "alarms on accepted programs; corrected (DESIGN section 12).",
        "correspondence": "real wf checker (accept/reject) + Sem.evalInd on horn_wf(program)",
        "explanation": "bounded certified validation of accepted programs",
    },
    "C28": {
        "level": "translation_validation",
        "rule": "every goal of every program block of /repo/tests/test/*.rs (types, lifetimes and constants as unknowns, nested forall, associated types, built-ins ...) plus 100 generated "
                "programs x 5 goals with unknowns (one under an extra forall): the Unique / definite / suggested substitution of each solver and up to 6 answers enumerated by "
                "SLG solve_multiple; each judged by WfAnswer.wfAnswer in Lean and actually applied to the query in Rust under catch_unwind; child-process shards; non-trivial = non-empty substitution",
        "technique": "certified checker: Lean 4 predicate wfAnswer with theorem wfAnswer_apply_ok (application cannot panic, proved over the exact model of SubstFolder) evaluated on every returned solution",
        "claim": "wfAnswer_apply_ok/_wc, wfAnswer_arity, wfAnswer_closed: an accepted answer has one entry per query unknown of the right kind, refers only to its own binders, each in a universe "
                 "the query can name, has no inference variables, and applying it to any query term cannot hit any panic of Substitution::apply. Every solution produced in the run is judged.",
        "note": "Trusted: Lean kernel, wire serialiser, model fidelity of applyFolder (tied by C17's with-priorities correspondence). Binders used only by region constraints are not "
                "restricted to the query's universes (the property speaks of the substitution). Skipped (counted): recursive solver on known-divergent inputs (F12, F18), enumeration on programs with negative clauses.",
        "correspondence": "real solver outputs (solve, solve_multiple) vs WfAnswer.wfAnswer; real Substitution::apply under catch_unwind",
        "explanation": "certified validation of every returned solution",
    },
    "C13": {
        "level": "proof",
        "rule": "100 generated Horn-fragment programs (no growing-type impls: searches stay within the size limits) x 5 goals (2 closed, 3 with unknowns) x 6 (thorough 24) "
                "random permutations of the item list and of every where-clause list, both solvers, fresh instances, in child-process shards; answers compared "
                "through their name-based rendering; non-trivial = every (goal, solver) family of permutations; plus the aggregation-layer witness lines for the model",
        "technique": "Lean 4 theorems (meaning is invariant under permutation of clauses/conditions; order dependence of SLG guidance refuted on the exact aggregation model) + differential runs under permutation",
        "claim": "sol_perm_invariant/sol_perm_clauses: the declarative solution set cannot depend on declaration order, for every program and goal. guidance_order_dependent: the full "
                 "statement is false at the SLG aggregation layer (exact model, witness F2); guidance_sound_any_order: any order gives guidance that generalises all merged answers. "
                 "On the real code every permutation family must give identical answers; differences are reported with the permuted program as replay.",
        "note": "Trusted: Lean kernel, Aggregate model fidelity (C17 correspondence), harness. Known findings (open): F2 slg_antiunify_order, F13 slg_trivial_answer_order "
                "(found by this check). The recursive solver showed no order dependence in the explored programs.",
        "correspondence": "real solvers under permutation; mayInvalidate/mergeIntoGuidance witness lines vs chalk-engine",
    },
    "C17": {
        "extra_props": ["C17ms", "C17lin"],
        "level": "proof",
        "rule": "(a) make_solution itself: 250 programs (2/3 overlapping impls of marker traits - answers that are instances of one another, repeated parameters - 1/3 ProgGen) x 5-6 goals with unknowns: "
                "solve_multiple completes the root table on one SLGSolver, the stored answers are read through the cfg hook, then solve() on the SAME solver must equal "
                "makeSolution(stored answers) exactly, and a Definite guidance is matched against every stored answer by an independent matcher; "
                "(b) pairs of canonical substitutions (1-3 generic args over every constructor, placeholders, consts, lifetimes, variables ^0.i) "
                "derived from a common ancestor by generalising subterms to variables, then identical / edited / ground-vs-generalised / "
                "independent; ops may-invalidate, merge, is-trivial, combine (solution pairs sharing or not sharing a substitution), "
                "with-priorities; 1/12 malformed (kind-mismatched, wrong lengths, free inference variables); non-trivial = the merge "
                "introduced a variable / the check answered / the two solutions differ; distinct = distinct request lines",
        "technique": "Lean 4 theorems about an exact model of AntiUnifier/MayInvalidate/Solution::combine/with_priorities (induction over the mutual syntax; refutation by witness where the code violates the property) + differential correspondence through cfg hooks + independent matcher as oracle",
        "claim": "Props/C17ms.lean (make_solution over a completed table, all tables): none_iff_no_answers, unique_iff_single_unconditional, "
                 "definite_guidance_covers_every_answer_partial (Definite guidance covers - equals or structurally generalises - EVERY stored answer, merged or skipped by any_future_answer; "
                 "structural = instance for guidance without repeated variables), definite_guidance_excludes_answer_refuted (the full statement fails on the F1 table [Pair<^0,^0>], [Pair<A,B>]). "
                 "merge_generalizes, combine_comm, combine_no_more, withPriorities_prefers_high are proved for all inputs; the full soundness "
                 "statement of may_invalidate is refuted on the model by the F1 witness and proved in the partial form (structural instance = "
                 "instance for guidance without repeated variables); every model function is compared exactly with the real one on every run and "
                 "the property's sentences are evaluated on the real code (merge results matched against both inputs, may_invalidate=false "
                 "cross-checked by actually merging, combine in both orders).",
        "note": "Trusted: Lean kernel, model fidelity (differential only), harness + its matcher. Known finding F1 (open): may_invalidate unsound for "
                "guidance that repeats a variable. Constants: the types of corresponding constants are assumed equal (typing), as the Rust code assumes. "
                "Linearity of anti-unifier results is a theorem (Props/C17lin.lean: merge_result_linear - the variables of a merged guidance are exactly ^0.0 .. ^0.(n-1), each once), and with it the structural instance "
                "relation of the C17/C17ms theorems becomes the real one: merged_guidance_instances (both inputs are SUBSTITUTION INSTANCES of the merge result), definite_guidance_merged_covers_by_instance "
                "(once make_solution has merged at least one answer, every stored answer is a substitution instance of the definite guidance; the F1 table is exactly the no-merge case with a repeated variable). "
                "Hypothesis `ctAgree` (corresponding constants carry the same type - typing; the Rust code never compares them) is shown necessary by *_const_type_refuted witnesses on ill-typed tables.",
        "correspondence": "makeSolution (lean/ChalkModel/MakeSolution.lean) vs AggregateOps::make_solution through Solver::solve on a forest whose root table was completed; mayInvalidate/mergeIntoGuidance/isTrivial/Solution.combine/withPriorities (lean/ChalkModel/Aggregate.lean) vs chalk-engine slg::{MayInvalidate, aggregate}, chalk-solve Solution::combine, chalk-recursive combine::with_priorities",
    },
    "C18": {
        "level": "proof",
        "rule": "pairs (type / domain goal or clause conclusion / argument list) derived from a common ancestor by replacing subterms with "
                "bound or inference variables (unifiable by construction, 40%), then edited in one constructor (30%) or independent (30%); "
                "variance tables well-formed or (10%) too short; plus generated programs (structs with variances, traits, 2-6 impls) lowered "
                "by chalk with 4 impls_for_trait queries each; non-trivial = the filter said false / dropped an impl / panicked",
        "technique": "Lean 4 theorems (no pair with a common instance is rejected; impls_for_trait keeps every such impl) + differential correspondence + real unifier as oracle",
        "claim": "couldMatch_of_unifiable and implsFor_superset are proved for every pair of terms of the model and every folder pair (any "
                 "substitution of bound/inference variables/placeholders); could_match booleans and impls_for_trait id lists are compared "
                 "exactly with the model; on the implementation every rejected pair / dropped impl is re-checked with the real InferenceTable::relate.",
        "note": "Trusted: Lean kernel, model fidelity (differential), harness. The second DESIGN theorem (false => relate fails for every table) needs the "
                "unifier model and is covered here only by running the real unifier on each rejected pair.",
        "correspondence": "cmTy/cmDomainGoal/cmSlice/implsForTrait (lean/ChalkModel/CouldMatch.lean) vs chalk_ir::could_match and Program::impls_for_trait",
    },
    "C19": {
        "level": "proof",
        "rule": "per trait two request lines (op priorities: outcome ok+priority per impl / overlap / panic; op coh-trace: which pairs were "
                "queried and how many solver answers each consumed). Streams: (a) exhaustive: the real CoherenceSolver driven by a scripted "
                "Solver over every pair of answer strings for 3 impls x all 8 negative-flag assignments, marker on/off (thorough: also every "
                "string pair for 4 positive impls, 262144 tables); (b) random scripted answer strings for 0..5 impls with varying rates of "
                "disjoint / two-way / backward answers, so cyclic and non-transitive tables occur, plus marker and negative flags; (c) generated "
                ".chalk programs with <= 5 impls of a trait over structs I32, U8, Vec<T>, Box<T>, Pair<A,B>: headers from a pool of 19 (blanket T, "
                "Vec<T>, Vec<Vec<T>>, Vec<I32>, Pair<T,T>, ...), named shapes (chains of 3-5, trees, Pair diamonds, incomparable pairs, flat, "
                "identical duplicates) with members dropped/added, shuffled order, where-clauses on auxiliary traits that have their own impls, "
                "1/10 #[marker], negative impls; real SLG solver; the answer table for every pair is read through the cfg(chalk_verif) hook. "
                "Non-trivial = trait with >= 2 impls for which at least one pair was visited; distinct = distinct request lines",
        "technique": "Lean 4 theorems about an executable model of visit_specializations_of_trait / build_specialization_forest / set_priorities "
                     "(loop invariant of the priority DFS, counting argument for roots) + differential correspondence with CoherenceSolver "
                     "(outcome and query trace) + direct evaluation of the property on the implementation against an independent matcher",
        "claim": "coherence_total is proved at full strength for the code as repaired (F4): for every number of impls, every table of solver answers "
                 "(cyclic ones included) and every marker/negative flags the check ends with acceptance or the overlap error, never a panic. "
                 "priorities_consistent_partial is proved for every non-marker trait under the set-theoretic oracle over an arbitrary type of "
                 "trait references (sets of any size): two impls that are not both negative and apply to a common trait reference both have "
                 "a priority and the two differ (so equal priority implies disjoint), and an impl applying to a non-empty strict subset has the "
                 "strictly higher priority. The sentence read literally for all flags is refuted by machine-checked witnesses in the corner "
                 "classes the code intends (marker traits are not ordered, two negative impls are never compared, an impl that applies to nothing "
                 "is disjoint from everything). The model is compared with the real CoherenceSolver on every run (outcome and which queries it "
                 "made); the property is also evaluated on the real outcome over all ground types of depth <= 2 of each generated program.",
        "note": "F4 (assert in SpecializationPriorities::insert on a chain of three specializing impls) reproduced, repaired in /repo (commit bfe588c, "
                "status fixed in known_findings.json), regression inputs in corpus/C19; Legacy.* in the model keeps the pre-repair code and "
                "legacy_assert_trips_on_chain proves the defect on it. Trusted: Lean kernel, model fidelity (differential only; a petgraph NodeIndex is "
                "represented by the impl number), harness, the matcher used for the direct evaluation (structs only, where-clauses `Ty: Trait`). "
                "The comparison of solver answers with sets of trait references is bounded (depth 2) and only the soundness direction is required. "
                "Residue outside the property's oracle: answers forming a cycle that no root reaches leave those impls without priority (accepted, no panic).",
        "correspondence": "Coherence model (lean/ChalkModel/Coherence.lean: visit, buildForest, setPriorities, specializationPriorities) vs "
                          "chalk-solve coherence.rs / coherence/solve.rs CoherenceSolver::specialization_priorities",
    },
    "C24": {
        "level": "proof",
        "rule": "three input streams through the real parse_program / parse_goal / ChalkDatabase::program_ir / lower_goal, every call under "
                "catch_unwind with a hook recording the panic location: (a) 20000 (thorough 500000) byte strings: random bytes, random "
                "ASCII/UTF-8, and mutants (bit flips, truncations, duplicated/deleted/spliced chunks) of the ~490 program{..} / ~900 goal{..} "
                "blocks extracted at run time from /repo/tests/test/*.rs and tests/lowering/*.rs; (b) 20000 (500000) token strings over the "
                "terminals collected from parser.lalrpop plus sample identifiers/lifetimes/integers (incl. 4294967296): random sequences "
                "and seed token sequences with 1-3 tokens deleted/inserted/swapped/replaced; (c) 2000 (50000) programs x 3 goals from a "
                "grammar of the harness's own (struct/enum, trait with associated types, impl, extern type, opaque type, fn, closure, "
                "coroutine, custom clause; all type forms; all goal forms) in which each choice is made 'correctly' only with probability "
                "80-100%: otherwise a name of ANY sort (trait/extern/opaque/fn/closure/assoc/parameter/unknown, Self, __FIXME_SELF__) applied "
                "or not to arguments of arbitrary number and kind, duplicate/shadowing parameters and items, values for undeclared "
                "associated types, wrong variance counts, unknown ABIs, auto traits with parameters/where-clauses/associated types. "
                "For stream (c), for every seed and for the corpus the AST that chalk_parse produced is serialised and the Lean model's "
                "outcome class (ok / RustIrError variant / panic site, for the program and for the goal) is compared exactly. Deeply "
                "nested inputs (8 shapes x depths 1000..50000, thorough ..1000000) run in child processes. Non-trivial = model-compared "
                "case whose outcome is an error; distinct = distinct request lines",
        "technique": "Lean 4 theorems about an executable model of chalk-integration's lowering in which every unwrap/indexing/panic! is a "
                     "named panic outcome (invariants of the id/kind/associated-type tables proved by induction over the extraction "
                     "and item loops; mutual structural induction over the AST) + differential correspondence on the parsed AST + "
                     "fuzzing of the generated parser (no model) + child processes for stack exhaustion",
        "claim": "lower_no_panic and lower_goal_no_panic are proved at full strength for the code as repaired: for EVERY program AST, "
                 "Program::lower ends in Ok or a RustIrError, and for every goal AST against every successfully lowered program so "
                 "does lower_goal; none of the 16 modelled panic sites (table in Resolve.lean) is reachable. The same statements are "
                 "refuted by machine-checked witnesses for the code before the repairs (legacy_panics_F6_goal/_field/_foreign, "
                 "legacy_panics_F6b). The model is compared with the real code on every run (0 disagreements over ~3800 quick / "
                 "~67000 thorough cases covering all 19 RustIrError variants). PARTIAL for the LALRPOP-generated parser and lexer: no "
                 "executable model exists, only the byte/token fuzz streams cover them (they found F6c). PARTIAL for native stack "
                 "exhaustion: outside the model, open finding F6d.",
        "note": "Panic sites (file:line -> reachable?): lowering.rs:445/446 args[0]/assert_ty_ref (no: grammar always puts the self type "
                "first); lowering.rs:760 panic!(Unexpected apply type) (YES = F6, fixed c9a5508: NotStruct for a trait name, arity error "
                "for an extern type); lowering.rs:934 and program_lowerer.rs:335 associated_ty_value_ids[..] (no: inserted by "
                "extract_associated_types); lowering.rs:1014 lookup_associated_ty().unwrap() and program_lowerer.rs:274 "
                "associated_ty_lookups[..] (no: same); program_lowerer.rs:336 associated_ty_lookups[(trait, value name)] (YES = F6b, fixed "
                "82a1542: MissingAssociatedType); lowering.rs:1037/1040 trait_data[..], binders[n..] in lower_goal (no: proved from "
                "the shape of the lowered program); env.rs:176-212 auto_traits/..._kinds[&id] (no: extract_ids inserts id and kind "
                "together); program_lowerer.rs:478 coroutine_ids[..] (no); parser.lalrpop ConstValue u32 unwrap (YES = F6c, fixed "
                "c2a7603: ParseError::User). F6d (open): ~30000 nested types overflow the native stack in the recursive lowering "
                "(~1e6 in the drop of the AST); the LALR parser itself is iterative. Not small-and-safe to repair (needs a depth "
                "limit), reported as KNOWN-FINDING with classifier parser_stack_overflow. Regression inputs of all findings in "
                "corpus/C24. Trusted: Lean kernel, model fidelity (differential only), the AST serialiser conv in c24.rs, the harness.",
        "correspondence": "Resolve.lowerProgram / lowerGoalTop (lean/ChalkModel/Resolve.lean) vs chalk_integration::lowering::{Lower for Program, "
                          "lower_goal} on the AST produced by chalk_parse",
        "assumptions": ["the native stack suffices for the nesting depth of the input (F6d)"],
        "explanation": "proof for lowering; fuzzing only for the generated parser",
    },
    "C25": {
        "level": "proof",
        "rule": "type-directed random terms (all 25 TyKind variants, lifetimes/consts of every kind, dyn and fn-pointer binders, "
                "bound variables at de Bruijn depths 0..binders+3) x ops {shift-in, shift-out, shift-in-out, subst, subst-wc, "
                "substitute, identity-subst, fold-noop}, 1/8 malformed (kind-mismatched / short parameter lists); a case is "
                "non-trivial when the operation changed the term, failed or panicked; distinct = distinct request lines",
        "technique": "Lean 4 theorems (structural induction over the mutual term syntax) + differential correspondence of the model driver with chalk-ir",
        "claim": "The substitution laws are theorems about an executable model of Shifter/DownShifter/Subst/default folds for every type, "
                 "lifetime, const, generic argument, where clause and dyn bound of any size; the model is tied to the Rust code by exact "
                 "output comparison on generated terms on every run, and the laws are also evaluated on the implementation itself.",
        "note": "Trusted: Lean kernel, the hand-written model's fidelity (checked by differential runs only), the harness. Goals and program "
                "clauses are not yet in the model (types, lifetimes, consts, substitutions, where-clauses, dyn bounds, fn pointers are).",
        "correspondence": "Shift/Subst/Fold model (lean/ChalkModel/{Fold,Shift}.lean) vs chalk-ir fold::{shift,subst}, Binders::substitute",
    },
    "C26": {
        "level": "proof",
        "rule": "type-directed random types of depth 1..5 over all 25 TyKind variants with consts/lifetimes of every kind and dyn "
                "bounds of all four where-clause kinds; non-trivial = the stored flag word is non-zero; distinct = distinct request lines",
        "technique": "Lean 4 theorem (flag set iff reported leaf occurs, all types) + differential correspondence with TyData.flags",
        "claim": "flags_iff_occurs is proved for every type of the model (all TyKind variants, every lifetime/const kind, dyn bounds); the "
                 "model's flag word is compared bit-for-bit with the flags chalk stores, and an independent leaf walk over the serialised "
                 "term is compared with the implementation's flags as well.",
        "note": "Trusted: Lean kernel, model fidelity (differential only), harness serialiser. STILL_FURTHER_SPECIALIZABLE is modelled but excluded from the theorem, as the property says.",
        "correspondence": "Ty.computeFlags (lean/ChalkModel/Flags.lean) vs TyData.flags as stored by Ty::new",
    },
    "C27": {
        "level": "proof",
        "rule": "exhaustive, no randomness: 12 layout / drop-glue situations (in-place path: identical layout size 4, size 8 with different "
                "field offsets, plain T without destructor -> drop-recording U, drop-recording T -> plain U, plain -> plain; fallback path: "
                "larger U, plain T -> larger drop-recording U, drop-recording T -> larger plain U, smaller U, T and U zero-sized, only T "
                "zero-sized, only U zero-sized) x every length 0..8 (thorough 0..64) x {no failure, failure at every position k < n} x "
                "{Err return, panic caught by catch_unwind}, plus boxes for every situation x {ok, err, panic}; the real fallible_map_vec / "
                "fallible_map_box are called through the cfg(chalk_verif) hook on element types whose destructors log (id, T | U | cb = "
                "dropped inside the callback's frame); a type without drop glue (mem::needs_drop false) logs nothing, in the harness and "
                "in the model (Layout.glueT / glueU); a case is non-trivial when the vector is non-empty or it is a box; "
                "distinct = distinct request lines",
        "technique": "Lean 4 theorems (induction over the loops of an executable slot/buffer model, all lengths, positions, callbacks) + "
                     "exhaustive differential correspondence of drop multiset and returned contents with chalk-ir/src/fold/in_place.rs",
        "claim": "For every layout situation, every callback (position, id) -> ok u | err | panic, every vector length and every failing "
                 "position, both failure modes, and for boxes, the model of fallible_map_vec / fallible_map_box (control flow of "
                 "in_place.rs including Drop for VecMappedInPlace on error return and on unwinding, and the into_iter().map().collect() / "
                 "Box::new fallback) never reaches ub (read of a moved-out/dropped/freed slot, drop at the wrong type, double drop, "
                 "double free); on failure the drop log is a permutation of {failing element by the callback, mapped prefix as U, "
                 "unmapped suffix as T}, each restricted to the element types that have drop glue (with glue on both types: one entry "
                 "per position; no duplicates for distinct ids; no slot left live, with or without glue) and every buffer "
                 "ends freed; on success the log is empty and the result owns a buffer holding all mapped values in order. The model "
                 "is tied to the Rust code on every run by exact comparison of exit kind, returned ids and sorted drop log over the "
                 "whole space up to the length bound, and the property is also evaluated directly on the real runs.",
        "note": "Destructor runs and leaks of element types without drop glue are unobservable and not claimed. PARTIAL with respect to real memory: the theorems are about slots {liveT, liveU, moved, dropped} and a buffer token "
                "{owned, freed}; the allocator (sizes/capacities/alignments handed to dealloc inside Vec::from_raw_parts and Box::from_raw, "
                "reads of uninitialised bytes, pointer provenance) is NOT modelled and not observable by the harness, so a theorem "
                "about slots cannot exhibit e.g. a dealloc with a wrong layout. The fallback path models std's IntoIter/collect "
                "abstractly (two buffers); the relative order of std's two destructors is not claimed, only the multiset is compared. "
                "Supporting evidence outside ./check: the same harness cases (quick tier of the first seven situations, 588 runs) executed under "
                "`cargo +nightly miri run` with -Zmiri-disable-isolation reported no undefined behaviour and no leak. "
                "Trusted: Lean kernel, model fidelity (differential, exhaustive up to the bound), the harness's drop-recording types.",
        "correspondence": "InPlace.fallibleMapVec / fallibleMapBox (lean/ChalkModel/InPlace.lean) vs chalk_ir::fold::in_place::{fallible_map_vec, "
                          "fallible_map_box} through the hook chalk_ir::fold::verif",
        "explanation": "complete enumeration of layouts x lengths x failure positions x failure modes up to the tier's length bound "
                       "(8 quick, 64 thorough); the theorems cover all lengths",
    },
    "C14": {
        "level": "proof",
        "rule": "one request = a script building a real InferenceTable (0-3 new_universe, 1-8 new_variable in universes 0..3 with kinds "
                "general/integer/float/lifetime/const, up to 12 history relates executed on the real table while generating so that "
                "variable numbers are chalk's) + the relate under test. Pairs are derived from a common ancestor (ADTs with declared "
                "variance tables, tuples, slices, raw pointers, scalars, str, never, foreign, placeholders !0..3_i; streams 2/3 add refs "
                "with lifetimes from {static, placeholders, lifetime variables, erased, error}, fn pointers with and without binders, "
                "fn defs, arrays/consts, aliases, closures/coroutines, dyn with well-scoped bounds, error) by replacing subterms with "
                "declared variables (unifiable 50%), editing one constructor/scalar/mutability/placeholder (40%), or independently (10%); "
                "70% first-order stream, invariant relation 60%; 1/40 variance tables too short and 1/40 ill-formed terms (bound "
                "variables, empty fn signature, variable at the wrong sort) for the panic arms; corpus seeds (occurs check, universe "
                "errors, promotion, integer/float kinds). Non-trivial = the relate failed, returned goals or bound a variable; "
                "distinct = distinct request lines",
        "technique": "Lean 4 theorems about an executable arm-by-arm model of InferenceTable::relate / Unifier / OccursCheck on a union-find "
                     "table model (induction on fuel, mutual structural induction over the syntax, union-find invariants) + differential "
                     "correspondence (outcome, goals in order, deep-resolved value / root / universe of every variable, max universe) + "
                     "independent oracles on the real code (Robinson unifier with universe check, brute-force unifier search, "
                     "resolution equality, table-extension check)",
        "claim": "For the invariant relation on the first-order fragment Ty.fo (applied names over type arguments: ADTs, tuples, fn defs, closures ...; "
                 "slices, raw pointers, scalars, str, !, foreign types, placeholders of every universe, general/integer/float variables created in "
                 "any universe), every union-find-well-formed table of well-kinded first-order values (TableOk: holds for Table.new and is "
                 "preserved by new_variable, new_universe and by relate itself, hence after ANY history), every fuel: relate_sound (success "
                 "returns no goals and every solution of the resulting table equates the two types), relate_extends (every solution of the new "
                 "table is a solution of the old one, bound variables keep their values, classes only merge, no universe is created, the "
                 "invariants hold again), relate_acyclic (occurs check: under a one-kind-per-variable discipline an acyclic table stays acyclic), "
                 "ranked_canon (an acyclic table has a solution, its full resolution, so relate_sound is not vacuous) and relate_sound_resolve "
                 "(from some depth on, fully resolving the two types through the resulting table gives equal types) are theorems about the "
                 "model. The model is compared with the real InferenceTable::relate on every run (outcome, goals in order, value/root/universe "
                 "of every variable); on the real code every success is checked by resolution equality and table extension, every failure by an "
                 "independent Robinson unifier with universe check and by brute-force search of unifiers over closed types of depth <= 2.",
        "note": "Theorems proved (Props/C14.lean): tableOk_new/_newVariable/_newUniverse, tableOk2_*, relate_unfold, relate_sound, relate_extends, "
                "relate_acyclic, ranked_canon, relate_sound_resolve — fragment: invariant relation, Ty.fo, well-kinded against an arity table "
                "(zip_substs truncates argument lists: without arityOk the statement is false, counterexample proved in Lemmas/UnifySound.lean); "
                "relate_acyclic / relate_sound_resolve additionally need every variable to be written with one kind (false otherwise: ?0:general vs "
                "?0:integer binds ?0 := ?0; both counterexamples proved in Lemmas/UnifyAcyclic.lean). Stated in DESIGN, not yet a theorem; covered "
                "differentially only: relate_mgu (most general), relate_complete (failure => no unifier), relate_universe_ok (values only mention "
                "visible placeholders; promotion), soundness with lifetimes/consts/references/fn pointers/aliases and under the covariant / "
                "contravariant relation ('up to the returned obligations'), sufficiency of fuel outside the rigid fragment (the driver runs with "
                "fuel 100000, outOfFuel was never produced). Trusted: Lean kernel, model fidelity (differential only; ena's union-find incl. "
                "snapshots is modelled from its observable API), harness + its independent unifier.",
        "correspondence": "relate / relateTy / occTy / generalizeTy (lean/ChalkModel/Unify.lean, Infer.lean) vs chalk_solve::infer::InferenceTable::relate "
                          "(chalk-solve/src/infer/unify.rs, chalk-ir/src/zip.rs, infer/instantiate.rs) and ena's unification table",
    },
    "C15": {
        "level": "proof",
        "rule": "same request format and generators as C14 with the mix shifted to failing relates: 40% first-order, 30% with lifetimes / fn "
                "pointers, 30% everything (consts, aliases, dyn, binders, error); final pair unifiable 27% / edited 36% / lifetimes changed "
                "9% / both 18% / independent 9%, all three variances uniformly, histories of 0..12 relates, corpus seeds that fail after "
                "bindings, universe promotions, fresh variables and instantiated binders were made. Non-trivial = the relate failed, returned "
                "goals or bound a variable; distinct = distinct request lines",
        "technique": "Lean 4 theorems about the model of InferenceTable::relate with explicit snapshot/rollback_to (all inputs) and about the "
                     "unifier on the rigid fragment (induction on fuel over the arm order) + differential correspondence + direct evaluation "
                     "on the real code: every observation re-taken after each failed relate, both argument orders on two clones of the table",
        "claim": "relate_fail_state / relate_not_ok_state: for ALL tables, variances, types and fuels a relate that does not succeed returns the table it "
                 "was given as a whole record (the model mirrors snapshot / rollback_to). relate_symm (+ _inv, _co_contra): on the rigid fragment "
                 "(no inference variables of any sort, no bound variables, aliases, dyn, error type; fn pointers without binders; lifetimes static / "
                 "placeholder / erased / error; well-kinded; fuel >= depth) success of relate(v, a, b) is equivalent to success of relate(v', b, a) for "
                 "every pair of variances and every table; relate_symm_goals: the two orders (v / v.invert) return the same obligations up to order; "
                 "relate_symm_ltvars: the same order-independence of success with LIFETIME variables allowed, on every well-formed table whose "
                 "lifetime variables are unbound or bound to rigid lifetimes (there the two orders modify the table differently). On the real code "
                 "every observation (value, root, universe of every variable, max universe) is re-taken after each failed relate and must be "
                 "unchanged, and every pair is related in both orders on two clones of the table.",
        "note": "Theorems proved (Props/C15.lean): relate_fail_state, relate_not_ok_state (all inputs); relate_symm, relate_symm_inv, relate_symm_co_contra, "
                "relate_symm_goals (fragment Ty.rigid), relate_symm_ltvars (fragment Ty.rigidT). Stated in DESIGN, not yet a theorem; covered "
                "differentially only: order-independence with TYPE / CONST inference variables, aliases, binders, dyn (the two orders take different "
                "paths through the union-find). ena's rollback is external code: assumed to restore the union-find (the model's rollbackTo returns "
                "the snapshot), validated by the re-taken observations. Known finding F17 (open): with TyKind::Error in play the order does change "
                "success under relate_binders (dyn / for<> fn): `error` relates to everything but only once a variable has been resolved to it; outside "
                "the constructors the property names. Trusted: Lean kernel, model fidelity (differential), harness.",
        "correspondence": "relate (lean/ChalkModel/Unify.lean) incl. Table.snapshot/rollbackTo (Infer.lean) vs InferenceTable::relate / snapshot / "
                          "rollback_to / commit (chalk-solve/src/infer.rs, infer/unify.rs) and ena's snapshots",
    },
    "C29": {
        "level": "proof",
        "rule": "same request format as C14; 80% of the cases are pairs of types without type/const variables built over refs (&, &mut), raw "
                "pointers, slices, tuples, fn pointers (no binders), ADTs and fn defs with lifetime and type parameters and random declared "
                "variance tables, where the second type is the first with 2/3 of its lifetimes redrawn from {static, placeholders of universes "
                "0..3, lifetime variables (half of the cases), erased, error} (70%), identical (10%), edited in one constructor (10%), both "
                "(10%); all three variances; 20% from the full C14 generator; histories 0..2 (rigid stream) or 0..12. Non-trivial = the relate "
                "failed or returned goals; distinct = distinct request lines",
        "technique": "Lean 4 theorems (algebra of Variance by cases; the unifier on the rigid fragment = an independently written variance "
                     "specification, by induction on fuel and on the syntax) + differential correspondence + an oracle written from the "
                     "variance rules in Rust evaluated on the real relate (multiset equality of outlives goals; with lifetime variables: "
                     "equivalence after applying the bindings the unifier made, every binding must be forced by the rules)",
        "claim": "xform_assoc, xform_comm, xform_invert, xform_co, xform_inv, invert_invert, invert_eq_xform_contra: the algebra of Variance (total). "
                 "relate_variance_struct: on the rigid fragment, for every table, variance and fuel >= depth, relate succeeds exactly when the two types "
                 "are equal after erasing lifetimes, then leaves the table untouched, and otherwise answers NoSolution (never a panic); "
                 "relate_variance_struct_ltvars: the same success criterion with lifetime inference variables allowed (no type/const variables); "
                 "relate_variance_constraints: on the rigid fragment the returned goals are EXACTLY (as a list) the outlives constraints of the "
                 "specification subConstraints, written from the variance rules (covariant position b: a, contravariant a: b, invariant both; &'a T "
                 "contravariant in 'a in chalk's orientation, i.e. &'a T <: &'b T demands 'a: 'b; &mut / *mut invariant in T; fn parameters "
                 "contravariant, result covariant, equality of fn pointers = two subtypings; ADT / fn-def parameters by declared variance composed "
                 "with xform; equal and error lifetimes impose nothing); subConstraints_swap: swapping the types and inverting the variance gives "
                 "the same constraints up to order. The same specification, written independently in Rust, is compared with the goals of the real "
                 "relate on every run (multiset equality; with lifetime variables: equivalence after applying the bindings, every binding must be forced).",
        "note": "Theorems proved (Props/C29.lean): the seven algebra theorems (all Variances); relate_variance_struct, relate_variance_constraints, "
                "subConstraints_swap, subConstraints_self (fragment Ty.rigid, well-kinded: zip_substs does not compare argument-list lengths); "
                "relate_variance_struct_ltvars (fragment Ty.rigidT). Goal lists are compared as lists. Stated in DESIGN, not yet a theorem; covered "
                "differentially only: the constraints when lifetimes are inference variables or when type variables are generalized "
                "(relate_variance_constraints_gen), binders (for<> fn pointers, dyn), and the solver-level Subtype(A,B) comparison. Known finding F16 "
                "(open): two lifetime VARIABLES related in a covariant/contravariant position are unified (made equal) although the variance only "
                "dictates one outlives obligation; at solver level `exists<'a,'b> { Subtype(&'a T, &'b T) }` is answered Unique with 'a = 'b, and "
                "conjunctions give order-dependent, over-strong lifetime constraints. Note on orientation: a declared Covariant LIFETIME parameter "
                "demands 'b: 'a for Foo<'a> <: Foo<'b> (chalk's own test struct_lifetime_variance blesses this), the opposite of rustc's reading; the "
                "specification follows chalk's orientation. Trusted: Lean kernel, model fidelity (differential), harness + its Rust oracle.",
        "correspondence": "relate, Variance.xform/invert (lean/ChalkModel/Unify.lean, Variance.lean) vs InferenceTable::relate, Zipper::zip_substs, "
                          "Zip for FnSubst/DynTy, Variance::{xform, invert} (chalk-solve/src/infer/unify.rs, chalk-ir/src/zip.rs, chalk-ir/src/lib.rs)",
    },
    "C20": {
        "level": "proof",
        "rule": "150 programs (thorough 6000) with 2-4 impls of local and upstream traits in random order: the orphan_check QUERY (loop over local_impl_ids in chalk-integration/src/query.rs, as checked_program runs it) must accept exactly when every local impl passes perform_orphan_check on its own; one .chalk program per case: a fixed prelude (structs L0, L1<T> local; U0, U1<T>, U2<T,U> #[upstream]; F1<T>, F2<T,U> #[upstream] "
                "#[fundamental]; LF1<T> local #[fundamental]; traits LT0..LT2 local, UT0..UT2 #[upstream]) plus ONE impl with 1-3 type arguments (Self first). "
                "Tables (exhaustive=true in the thorough tier): remote trait with 1 argument over all 2705 types of depth <= 2, with 2 and with 3 "
                "arguments over all types of depth <= 1 (50^2, 50^3), built from leaves L0, U0, u32, P0 (impl parameter), () and constructors L1<_>, "
                "U1<_>, F1<_>, (_,), (_, _); quick: depth <= 1 / leaf x depth-1 pairs / leaf triples; local traits over leaf tuples. Random stream: "
                "impls over the whole pool (F2, LF1, U2, 1-3-tuples, six scalars, two parameters), depth <= 3, 1/8 local trait. Each impl is checked by "
                "the real orphan check four times (SLG and recursive solver, at the default size limits 10 / 30 and with the limit lifted via SolverChoice::slg(100000, None) / recursive(100000, 100)); request lines are "
                "built from the LOWERED Program (flags of every struct and trait, the impl's trait reference), not from the generator. Second stream: "
                "the domain goals IsLocal / IsUpstream / IsFullyVisible / DownstreamType (T) as `forall<P0,P1> { Pred(T) }` on every type of depth <= 2 "
                "(quick <= 1) plus random ones, both solvers. Corpus first. Sharded over 12 child processes. Non-trivial = impl of a remote trait, or "
                "any auxiliary goal; distinct = distinct request lines",
        "technique": "Lean 4 theorems relating a clause-by-clause model of the orphan program clauses (least fixed point + resolution) to a spec written "
                     "from the property's sentence + exhaustive/differential correspondence with perform_orphan_check under both solvers + "
                     "independent evaluation of the sentence in Rust against the real verdicts",
        "claim": "orphan_iff_spec is proved at full strength for the code as repaired (F5): for every program (any #[upstream]/#[fundamental] flags), every "
                 "number of type arguments and every type built from structs, scalars, tuples and impl parameters of any size, the clauses chalk generates "
                 "(match_ty, AdtDatum / TraitDatum::to_program_clauses) derive forall<..>{LocalImplAllowed(..)} iff the trait is local or some argument is "
                 "local looking through fundamental constructors and no earlier argument mentions an impl parameter. provable_iff_derivable: the "
                 "resolution procedure the driver runs decides that least fixed point. isFullyVisible_iff / isLocal_iff / isUpstream_iff / "
                 "downstreamType_never characterise each auxiliary predicate. On the code before the repair the statement is refuted by a "
                 "machine-checked witness (legacy_rejects_f5, legacy_orphan_iff_spec_false) and legacy_orphan_iff_spec_partial holds for arguments built "
                 "from structs and parameters only. The model's verdict is compared with the real orphan check on every run (exhaustively over the "
                 "tables above in the thorough tier), exactly, for both solvers.",
        "note": "F5 (built-in types not IsFullyVisible: `impl Remote<Local> for u32` rejected) reproduced by this harness on the unchanged tree (the "
                "legacy model agreed with the old code on all cases), repaired in /repo (commit 31b536a, status fixed), regression inputs in corpus/C20. "
                "F20 (perform_orphan_check took any answer, also Ambiguous, for `allowed`: beyond the solver's max_size - 10 for SLG, 30 recursive - "
                "the truncated closed goal is answered Ambiguous, so impls of an upstream trait for large upstream-only types were accepted) found by the "
                "random stream, repaired in /repo (commit 68e435c: only a Unique answer is a proof), status fixed. Open finding reported as "
                "KNOWN-FINDING: F5b (IsUpstream not derivable for built-in types; invisible to the orphan check, makes the overlap check accept "
                "`impl<T> Local for T where T: Remote` + `impl Local for u32`; repair entangled with the compatible-mode rule being generated for "
                "local traits). Size limits: the model is compared with the default-limit runs only on the tables (all types below the limits) and "
                "with the limit-lifted runs everywhere; a default-limit run that rejects an allowed impl only because its goal is truncated at max_size "
                "(documented behaviour of a search cut off at the limit) is counted (dropped_*_default_size_limit), not reported; a default-limit run "
                "that ACCEPTS a forbidden impl is reported. "
                "Trusted: Lean kernel; fidelity of the clause model (differential, exhaustive on the tables); "
                "the harness's reading of flags and trait references off the lowered Program; the solvers (only their verdicts on these ground goals "
                "are used). The model has one constructor for an impl parameter and the placeholder replacing it; #[fundamental] structs without "
                "parameters (chalk asserts) are outside the fragment; refs, raw pointers, arrays, slices, fn pointers are outside the property's quantifier "
                "and still get no IsFullyVisible clause.",
        "correspondence": "Orphan.provable over Orphan.clausesFor (lean/ChalkModel/Orphan.lean) vs chalk_solve::coherence::orphan::perform_orphan_check / "
                          "the orphan_check query (SLG and recursive solver) and vs Solver::solve on the auxiliary domain goals",
        "explanation": "thorough tier: complete enumeration of impls of a remote trait with 1 argument of depth <= 2 and 2-3 arguments of depth <= 1 over the "
                       "stated constructors; the theorems cover all sizes",
        "timeout": 3600,
    },
    "C08": {
        "level": "proof",
        "rule": "generated .chalk programs: the five lang-item traits (#[lang(sized)] trait Sized etc.), `trait Obj` (for dyn), `fn fd0();`, 2-5 structs/enums "
                "A0.. with 0-2 type parameters and 0-3 fields per variant (field types of depth <= 2 over parameters, scalars, other ADTs, tuples, arrays, "
                "slices, str, dyn, references, raw pointers, fn pointers, !, fn items; 1/4 of the ADTs may mention themselves and later ADTs - recursive and "
                "mutually recursive declarations - but then only applied to leaves, so that no declaration cycle makes types grow: polymorphic recursion "
                "is C09's subject), 0-5 explicit impls (Copy/Clone/Sized/Tuple for scalars; `impl<P..> Tr for Ak<P..> where Pi: Tr'` with optional "
                "conditions on compound types; concrete instances `impl Tr for Ak<u8>`; `impl<T> Tr for *const T`, `for &'static T`; blanket "
                "`impl<T> Clone for T where T: Copy`; impls for !, str, ()). 10 closed goals `T: Trait` per program, T of depth <= 4 over all thirteen "
                "type constructors (1/6 bare leaves / ADTs), traits weighted Sized 5 : Copy 5 : Clone 4 : Tuple 1 : FnPtr 1. Each goal goes to fresh "
                "instances of both solvers, with the size limit lifted - SolverChoice::slg(100000, None), recursive(100000, 100) - (compared with the "
                "model, exactly: yes / no / ambig, and judged against the rules) and at the default limits 10 / 30 (judged against the rules; a goal "
                "the default SLG solver answers Ambiguous only because its type exceeds max_size is documented truncation behaviour, outside the "
                "property: such goals are dropped for that configuration and counted as dropped_slg_default_size_limit, about 1% of the goals). "
                "No references under fn pointers (a lifetime there is generalized into a region variable and two derivations with different region "
                "constraints make the recursive solver answer Ambiguous - the lifetime exemption of the property). Requests are built from the LOWERED Program and Goal (ADT kinds and fields, impl headers and "
                "where-clauses, goal type as first-order terms). Corpus seeds first. Sharded over 12 child processes. Non-trivial = every goal; "
                "distinct = distinct request lines",
        "technique": "Lean 4 theorems: clause-by-clause model of add_builtin_program_clauses / sized.rs / copy.rs / clone.rs / tuple.rs / last_field_of_struct / "
                     "impl clauses with least-fixed-point meaning = rule-by-rule inductive spec; proved-sound decision procedure (resolution with ancestor "
                     "check) + differential correspondence with both real solvers + independent evaluation of the rules in Rust",
        "claim": "builtinClauses_iff_spec is proved at full strength: for every program (any constructor table, any struct/enum/union declarations - "
                 "generic, recursive -, any list of explicit impls - generic, overlapping, recursive) and every type term of any size, the atoms "
                 "derivable (least fixed point) from the clause instances chalk generates for Sized/Copy/Clone/Tuple/FnPtr are exactly those the "
                 "rules grant (BuiltinHolds: scalars, refs, raw pointers, arrays, fn pointers, fn items, ! Sized; tuples iff last element; structs iff "
                 "no fields or last field; enums/unions always; str, slices, dyn never; Copy/Clone for tuples and arrays iff elements, fn pointers "
                 "and fn items always, everything else only via impls; Tuple = tuples; FnPtr = fn pointers; plus explicit impls). The property's "
                 "sentences are corollaries (unsized_never_sized, tuple_copy_iff_elements, array_copy_iff_element, struct_sized_iff_last_field, "
                 "tuple_trait_iff, fnPtr_trait_iff, scalar_copy_only_by_impl). decide_yes / decide_no: the driver's decision procedure is sound in both "
                 "directions (decide_no and clausesFor_complete under the decidable hypothesis implParamsInHeader = rustc's E0207, without which an "
                 "impl clause has an existential variable). The model's verdict is compared exactly with both real solvers on every run.",
        "note": "No open finding. Trusted: Lean kernel; fidelity of the clause model (differential only); the harness's translation of the lowered Program/Goal into "
                "terms (lifetimes, array lengths, fn-pointer ABI/binders dropped: none of the modelled clauses reads them; all references are 'static); "
                "the generator never produces unions (no syntax), closures, coroutines, foreign/opaque/associated types, inference variables - the "
                "arms of sized.rs/copy.rs for those are not modelled. In chalk scalars, references, raw pointers and ! are NOT Copy/Clone by a "
                "built-in clause (copy.rs: `these impls are in libcore`); the spec follows that reading (scalar_copy_only_by_impl).",
        "correspondence": "Builtin.decideGoal over Builtin.clausesFor (lean/ChalkModel/Builtin.lean) vs Solver::solve (SLG, recursive) on closed goals `T: Sized|Copy|Clone|Tuple|FnPtr`",
        "timeout": 3600,
    },
    "C22": {
        "level": "proof",
        "rule": "programs as text from four sources: (i) corpus/C22 (one input per finding); (ii) every `program { .. }` block of /repo/tests/display/*.rs and "
                "/repo/tests/test/*.rs extracted at run time with a brace matcher (~530); (iii) mutations of those (item shuffle/drop/duplicate, a scalar type replaced by "
                "one of 12 other types, an attribute added); (iv) an own generator over every item kind the writer knows: structs/enums with type/lifetime/const "
                "parameters, #[upstream] #[fundamental] #[phantom_data] #[one_zst] #[variance(..)] #[repr(C|packed|int)], fields and tuple/struct/unit variants; traits "
                "with all seven flags, 20 #[lang(..)] attributes, parameters, where-clauses, associated types with own parameters, (quantified, alias-eq) bounds and "
                "where-clauses; impls positive/negative/#[upstream] with parameters, where-clauses and (default) associated values; opaque types with bounds and "
                "where-clauses; fn items with unsafe / extern \"C\" / variadic; where-clauses Implemented, `T: Tr<A = U>`, `'a: 'b`, `T: 'a`, `forall<'a>`; types: ADT "
                "application, 18 scalars, tuples incl. () and (T,), & / &mut with lifetimes, *const / *mut, slices, arrays with literal and const-parameter lengths, fn "
                "pointers incl. for<'a>, projections <T as Tr<..>>::A<..>, dyn with 1-2 (quantified, alias-eq) bounds, !, str, opaque types; half of the generated "
                "programs are restricted to the modelled fragment. Each program is lowered by the real chalk, rendered with the real write_items over all item ids "
                "(as tests/display/util.rs), the text is reparsed and lowered, the two Programs are compared field by field with every where-clause list (also inside "
                "dyn) as a set, and rendered again (byte comparison). Programs with closures, coroutines, foreign types or custom clauses are skipped (not items the "
                "writer prints). Model lines for every program inside the modelled fragment: print (token list of the first rendering), reprint (the model parses its "
                "own output, applies lowering's alias-eq expansion, prints again: token list of the real SECOND rendering), check-wf (hypotheses WfProgram, Lowered "
                "and conclusions of the theorems evaluated by the model on the real program). Non-trivial = rendered text longer than 40 characters; distinct = distinct "
                "request lines",
        "technique": "Lean 4 theorems about an executable model of the writer (RenderAsRust impls, InternalWriterState, IdAliasStore) and of a parser for its token language "
                     "(mutual structural induction over the six syntactic categories in continuation form, fuel bounds, state-faithfulness invariant; refutation by witness "
                     "where the code violates the property) + exact differential correspondence of token lists for first and second rendering + the property evaluated "
                     "directly on the real writer / parser / lowering",
        "claim": "PROVED for every well-formed program of the fragment {struct and enum declarations with type/lifetime/const parameters, all ADT flags and reprs, fields, "
                 "where-clauses; traits with all flags, #[object_safe], #[lang(..)], parameters, where-clauses, associated types with own parameters, quantified trait / "
                 "alias-eq bounds and where-clauses; impls positive/negative/#[upstream] with parameters, where-clauses and associated type values} over the types {ADT "
                 "application, scalars, tuples, & / &mut, raw pointers, slices, arrays, fn pointers with for<..>, projections, dyn with a non-empty list of (quantified, "
                 "alias-eq) bounds and a lifetime, !, str, bound variables} and where-clauses {Implemented, AliasEq, lifetime outlives, type outlives, forall<..>}: "
                 "parseTy_printTy (types round-trip in every faithful parser state; continuation form parseTy_printTy_cont, parseBounds_printBounds), "
                 "parseQWC_printQWC / parseWhere_printWhere, parseItem_printItem, parse_print (parseProgram (print p) = some p), reparse_equiv + parse_print_equiv (the "
                 "reparsed-and-lowered program is equivalent: same items, where-clause lists and dyn bound lists as sets, given that alias-eq clauses come with their "
                 "implied trait bound, which lowering always produces), print_stable_partial(+_parsed) (second rendering = first when there is no alias-eq clause / "
                 "bound). The sentence 'rendering the reparsed program once more reproduces it exactly' is REFUTED at full strength by print_stable_refuted (machine-"
                 "checked witness `struct Foo<T> where T: Baux<Assoc = T>`): every round trip adds the implied trait bound once more - false of the model because it is "
                 "false of the code (finding F22d). Well-formedness (WfProgram: scoping and kinds of bound variables, binder shapes) and Lowered are decidable, have "
                 "non-trivial witnesses (exBig, exMore) and are evaluated by the model on every real program of the fragment in every run (all satisfied). PARTIAL "
                 "outside the fragment (differential / direct check only): opaque types, fn items, fn-def types, fn-pointer signatures other than safe/Rust, #[variance], "
                 "#[lang] on associated types, int/float parameter kinds are outside the MODEL (counted as unmodelled_features); closures, coroutines, foreign types, "
                 "custom clauses are outside the writer. The direct property check on the real code covers everything the writer prints.",
        "note": "Model: two layers. Layer 1 = order of alias_for_id_name calls (incl. display_type_with_generics rendering its parameters eagerly) + IdAliasStore; layer 2 = "
                "printing over final names. Theorems are about layer 2 (programs whose ids are their final names) and about structured tokens (Tok: keyword, item name, "
                "_d_i, '_d_i, Self, number, field_i / variant_i); the lexer (text <-> Tok) and layer 1 are validated differentially only. The parser model decodes the "
                "canonical variable names with the writer's own state discipline (it is a parser for the writer's output, not a model of parser.lalrpop); lowering's "
                "effect on a reparsed program is modelled by Display.reparse (alias-eq expansion) and validated through the reprint lines. Findings of this check on the "
                "unchanged tree - repaired in /repo, one commit each, repo suite passing: #[lang(pointee)] (e16cbb1), '_ for 'erased (f7fd928), #[one_zst] dropped "
                "(8b04f1b), #[variance] dropped (af98d71), #[lang] on associated types dropped (3dd44db), int/float parameter kinds dropped (f881981); open (known "
                "findings, inputs in corpus/C22): F22d second_rendering_repeats_implied_trait_bound (documented by the `produces` tests of tests/display; repairing it "
                "changes five expected outputs), F22f fn_signature_qualifiers_not_printed, F22g opaque_type_where_clauses_not_printed, F22h same_named_items_renamed "
                "(associated types named alike in two traits come back as Item_1), F22j fn_def_type_printed_as_placeholder. Trusted: Lean kernel, model fidelity "
                "(differential), harness (tokeniser, serialiser, Program comparison with its cause analysis).",
        "correspondence": "Display.writeItems / Parse.parseProgram / Display.reparse (lean/ChalkModel/{Display,Parse}.lean) vs chalk_solve::display::write_items, "
                          "chalk_parse + chalk_integration lowering, second write_items",
    },
    "C23": {
        "level": "proof",
        "rule": "programs: 1/2 auto-trait programs (#[auto] trait Send [, Sync], unit structs, generic structs with 0-2 fields over parameters / other structs / u32, "
                "0-3 explicit positive / conditional / negative impls for instantiations of the generic structs or for unit structs, an ordinary trait whose impls "
                "depend on the auto trait), 1/4 Horn-fragment programs of progen.rs (1/4 of them with #[coinductive] traits), 1/4 associated-type programs (trait Tr "
                "{ type Item; }, impls with values incl. <T as Tr>::Item, a trait bounded by Tr<Item = B>); 1-4 goals per program (ground atoms, conjunctions, not, "
                "forall/if, exists goals, Normalize / projection-equality goals); per solver (SLG, recursive; recursive skipped on coinductive/auto programs for goals "
                "with unknowns: F12) every goal is solved through ONE LoggingRustIrDatabase with a fresh solver per goal, the wrapper's Display text is lowered, every "
                "goal is lowered against it and solved by a fresh solver, answers are compared through the name-based Display of the Solution; corpus/C23 (F9a, F9b "
                "inputs) first. Model lines: for ground goals of Horn-fragment programs the answer obtained on the ORIGINAL program is judged by the certified Stage-A "
                "evaluator (a) against the Horn clauses of the LOGGED program (judge-ground) and (b) against the original program restricted by the model "
                "(judge-restricted: Logging.restrict P (Logging.needs P g)). Non-trivial = every judged answer; distinct = distinct request lines",
        "technique": "Lean 4 theorems (restriction lemma on the Horn-clause semantics of Sem.lean, both fixed-point strata, closed-set / consistent-set argument; executable "
                     "reachability with a counting argument; item-level model of auto-trait lowering) + differential runs of the real wrapper with both real solvers + "
                     "certified checker (Stage-A evaluator) applied to the logged program",
        "claim": "PROOF for the restriction lemma: sol_restrict (any log Q between the clauses reachable from the goal's predicates and P has Holds Q G a <-> Holds P G a for every "
                 "reachable atom, any hypotheses), sol_restrict_instance(+_co) (instance-level, symmetric form matching could_match-filtered impls_for_trait: P and Q need "
                 "only agree on the clauses with a head instance in a set of atoms closed under P's clauses), goal_restrict (all goals incl. not / if), restrict_needs(+_cert), "
                 "needs_closed, needs_exact (the executable `needs` is exactly the reachable predicate set and restricting to it preserves every goal's truth value, "
                 "unconditionally), lowerAuto_sublist_of_faithful (what the wrapper must additionally record for auto traits: if the log's items are among the original's and "
                 "the log is SuppressionFaithful - an explicit impl of auto trait t for ADT s is present in the log iff one is present in the original, for all t, s of the log - "
                 "then the lowered log is a sub-program of the lowered original), auto_log_without_suppressing_impl_differs / auto_log_changes_answer (F9a machine-checked on "
                 "the model: without the suppressing impl the log gains the default clause and `Foo<B>: Send` flips from false to true). DIFFERENTIAL for the real wrapper: on "
                 "every run the printed log must lower, every goal must lower against it, both solvers must answer as on the original program, SuppressionFaithful is "
                 "evaluated on (original, log), and the original answers of ground Horn goals are certified against the logged program's declarative meaning.",
        "note": "The theorems are about the Horn-clause semantics (C01/C02 fragment: predicates = traits, atoms = trait references); they say a log that contains the reachable "
                "clauses has the same MEANING, not that the real solvers consult exactly those clauses (the solvers are lazy: a failed first conjunct ends the search, so real logs "
                "are smaller than `needs`; the answer comparison is therefore the oracle, not log >= needs). Associated-type and auto-trait programs are covered by the "
                "differential part only, except for the item-level auto-trait lowering model (lowerAuto). F9a (suppressing explicit auto impl not recorded) reproduced by the "
                "harness and in the model, repaired in /repo (commit 86f5b93, status fixed, regression inputs in corpus/C23 and tests/logging_db). F9b (open, classifier "
                "logging_misses_goal_only_type): items that occur only in the goal and are never looked up are missing from the log, so the goal does not lower against it; not "
                "repairable inside the wrapper (it never sees the goal); for those cases the harness declares the missing items and still compares the answers (they agreed in "
                "every explored case; counter answers_equal_after_declaring_goal_only_items). Trusted: Lean kernel, horn.rs translation, Stage-A theorems, the harness.",
        "correspondence": "real LoggingRustIrDatabase + SLG / recursive solvers on original vs printed program; Sem.evalGoal on horn(logged program) and on "
                          "Logging.restrict (horn(original)) (Logging.needs ..) vs the real answers",
    },
    'C09': {
        'extra_props': ['C05fp', 'C05mixed', 'C09trunc'],
        'level': 'other',
        'rule': "MODEL lines: abstract instances are READ OFF THE REAL CODE (for every goal reachable from the root goals the harness asks chalk for the clauses solve_from_clauses would try - custom clauses, program_clauses_that_could_match, program_clauses_for_env, could_match filter - instantiates each against the goal with the real InferenceTable as Fulfill::new_with_clause does and canonicalizes the conditions as Fulfill::prove does; programs outside the abstraction of FixedPoint.lean are refused and counted) for three families: ground dependency graphs of <= 12 structs over an inductive and a #[coinductive] trait (chains with/without base case, diamonds, one cycle with/without base case entered through a tail, nested SCCs, two SCCs sharing nodes, random graphs; all-inductive / all-coinductive / mixed kinds; several impls per type), goals with unknowns (the F10 family: blanket impls `impl<X> Qi for X where X: Qj` + per trait no or >= 2 facts), and ProgGen programs with closed atomic goals whose goal closure is finite (<= 48 goals). One request line = one SCRIPT of calls on ONE real RecursiveSolver (cache on or off, overflow depth): per call the outcome kind (unique/none/ambig/panic:<site>), the hook's work counter and the hook-dumped cache must equal the model's, exactly. C09 scripts: histories of plain solves with cache on/off plus overflow depths 1,2,3,5 (overflow panics compared). ORACLE (both solvers, no model line): corpus/C09 first (F12, F18, F20 inputs, growing types `impl<T> Foo for T where Vec<T>: Foo`, polymorphic recursion `impl<T> Foo for Vec<T> where Vec<Vec<T>>: Foo`; every limit combination), then generated subjects (ground graphs, unknown-family, ProgGen with growing/polymorphic-recursive impls and 1/3 coinductive traits; 5 goals each: 2 shaped after impl headers with unknowns, 1 free-form with unknowns, 2 closed incl. not/forall/if) x 4 configurations drawn per subject: SLG default, SLG max_size in {3,4,6,10}, recursive default, recursive max_size in {4,8,15,30} x overflow depth in {20,50,100} x cache on/off. Every solve runs in a child process (sharded harness) under a work budget (50000 steps recursive, 6000 SLG) installed in BOTH engines' cfg(chalk_verif) counters (solve_goal entries + fixed-point rounds; ensure_root_answer iterations) and a 240 s per-call watchdog that aborts the process (the parent reports the case in flight). Non-trivial = instance with a cycle or an outcome other than unique; distinct = distinct request lines. SIZE-LIMIT lines (harness/src/ops/trunc.rs, run once after the fp cases, spread over the shards): 6000 (thorough 200000) generated values - a type, a generic argument, a substitution, a Vec of types, a where clause, a domain goal; depth 1-5, constants with arbitrary types - and a limit in 0..40: the REAL chalk_solve::solve::truncate::needs_truncation on a fresh InferenceTable (type inference variables created, unbound) is asked for max_size = 0,1,2,.. to recover visitor.max_size exactly; the line (ok <max_size> <needs>) must equal the stateful Lean model Truncate.visitValue; independently the largest outermost type of the SERIALISED term is measured by a plain walk (classifier truncate_vs_node_count), and the scan checks monotonicity in the limit (truncate_not_monotone)",
        'technique': "Lean 4 theorems about an executable model of the recursive solver's fixed-point/caching framework (bounding mechanisms: depth, loop exit, explicit work bound) + exact differential correspondence of outcome, work counter and cache with the real RecursiveSolver + deterministic work budgets on both real engines in child processes",
        'claim': "PARTIAL by nature (a theorem cannot exhibit a hang of the real schedulers). Proved for the model, all instances: reached_fixed_point_ambig_stops (an ambiguous answer ends the loop of solve_new_subgoal in the same round, whatever fuel is left), fixedPoint_terminates (on the value domain noSolution < unique < ambig a MONOTONE iteration satisfies reached_fixed_point within 3 rounds, 2 from the initial values; fixedPoint_three_rounds_tight), termination_needs_monotone (a non-monotone iteration oscillates for ever: this is F18's negative cycle), work_bounded / call_work_bounded (explicit closed bound workBound(rounds, A, S, depth) on solve_goal entries + loop rounds of one call for every instance, state, oracle and outcome: the stack depth bound of Stack::push makes the nesting finite, each alternative solves each sub-goal at most twice), workBound_attained (the exponential shape is real without the cache: 30, 62, 126 steps for chains of 3, 4, 5 vs 11, 14, 17 with it = F20), acyclic_call_terminates (the property's sentence for ACYCLIC instances of any size: every call without work budget on a solver with any history - answers, interruptions, panics - cache on or off, returns a value when the goal's rank fits under the overflow depth; no assert of the framework fires, every loop runs one round). The hypothesis 'finite height' is what fails for the real substitution-carrying Unique values (F12, remark in Props/C09.lean). OBSERVED on the real code: every solve of every generated subject under every drawn limit returned within the work budget or ended in the permitted recursive 'overflow depth reached' panic, except the known findings. An overflow panic is accepted because on a fresh solver the stack holds exactly the goals of the current search path, so Stack::push panics iff the search is that deep; it is cross-checked by re-running with 8x the depth (must overflow again or finish). SIZE LIMIT (Props/C09trunc.lean, exact stateful model of TySizeVisitor, all terms): visitTy_invariant (from any state with size <= max_size a visit adds the type's node count to size, records it in max_size, keeps depth, and resets size to 0 exactly at depth 0), visit_eq_spec (run from TySizeVisitor::new the visitor ends with max_size = the node count of the LARGEST outermost type of the value: maximum, not sum), needsTruncation_iff / _iff_exists, needsTruncation_mono (monotone in the limit), needsTruncation_args_closed and needsTruncation_subterm_closed (a value under the limit has only type arguments under the limit), tyNodes_pos (limit 0 rejects every type), tyNodes_app (1 + sum over type arguments; lifetimes and constants count 0), const_never_needs_truncation / tyNodes_array (QUIRK mirrored from the code: the type of a constant is not visited).",
        'note': "Findings: F12 (recursive solver, coinductive goal with an unknown: answer grows for ever, native stack overflow) reproduced on the unchanged tree (budget / abort in the child process), REPAIRED in /repo (commit d4bc291: max_size test on the iteration's answer), regression input in corpus/C09. OPEN: F18 recursive_negative_cycle_diverges (lead's finding: cycle through negation never reaches a fixed point; SLG panics 'negative cycle was detected' = F18-slg), F20 recursive_nocache_exponential_reprove (cache disabled: work doubles per level of a growing goal, 2^(max_size+1)), F24 slg_work_budget_exceeded (SLG enumeration exponential in the number of overlapping copies of an impl on an unbounded answer set), and in C10: F23 slg_runaway_after_history. Budgets: 50000 steps recursive, 6000 (much heavier) steps SLG, 240 s per call as last resort. NOW THEOREMS for ground instances (Props/C05fp.lean, Props/C05mixed.lean, registered here too): on every finite ground instance of one polarity, or mixing polarities without a mixed cycle - any cycle structure - solve_root_goal RETURNS: no assert of the framework fires, the stack does not overflow for overflowDepth >= the number of goals, and TWO rounds of the loop of solve_new_subgoal suffice (both bounds tight). NOT YET THEOREMS (differential only): instances with unknowns (the value domain is then not of finite height: F12, F33), mixed cycles, anything about the SLG engine's termination (F32 shows it does not hold). Trusted: Lean kernel, model fidelity (differential, exact incl. work counter), the hooks' counters, harness.",
        'correspondence': 'FixedPoint.{solveRootGoal, solveGoal, solveNewSubgoal, solveIteration, solveFromClauses, fulfillSolve} + hook tick (lean/ChalkModel/FixedPoint.lean) vs chalk_recursive::RecursiveSolver::solve_limited on instances read off program_clauses_that_could_match / InferenceTable (outcome kind, work counter, cache entries); Truncate.{visitValue, needsTruncation} (lean/ChalkModel/Truncate.lean) vs chalk_solve::solve::truncate::needs_truncation on an InferenceTable without bound variables (ty-size / garg-size / args-size / tys-size / wc-size / goal-size lines)',
        'explanation': "bounding mechanisms proved on an exact model; the real engines' termination observed through deterministic work counters in child processes",
    },
    'C10': {
        'extra_props': ['C10fp', 'C05mixed', 'C05strat'],
        'level': 'proof',
        'rule': "MODEL lines: abstract instances are READ OFF THE REAL CODE (for every goal reachable from the root goals the harness asks chalk for the clauses solve_from_clauses would try - custom clauses, program_clauses_that_could_match, program_clauses_for_env, could_match filter - instantiates each against the goal with the real InferenceTable as Fulfill::new_with_clause does and canonicalizes the conditions as Fulfill::prove does; programs outside the abstraction of FixedPoint.lean are refused and counted) for three families: ground dependency graphs of <= 12 structs over an inductive and a #[coinductive] trait (chains with/without base case, diamonds, one cycle with/without base case entered through a tail, nested SCCs, two SCCs sharing nodes, random graphs; all-inductive / all-coinductive / mixed kinds; several impls per type), goals with unknowns (the F10 family: blanket impls `impl<X> Qi for X where X: Qj` + per trait no or >= 2 facts), and ProgGen programs with closed atomic goals whose goal closure is finite (<= 48 goals). One request line = one SCRIPT of calls on ONE real RecursiveSolver (cache on or off, overflow depth): per call the outcome kind (unique/none/ambig/panic:<site>), the hook's work counter and the hook-dumped cache must equal the model's, exactly. C10 scripts: histories of 1-7 plain solves of root goals (repetitions included) with the cache on and the same history with the cache off. ORACLE (real code, SLG, recursive, recursive without cache; no model line): corpus/C10 first (F10, F13, F14, F17 inputs), then generated subjects (as C09 without growing impls), goal pool of <= 5: the fresh-solver answer of every goal, then ALL permutations of <= 4 goals (5 in the thorough tier), every goal twice, and 12 (40) random sequences of length 2-6 with repetitions, each posed to ONE solver instance; every answer must equal (==) the fresh solver's; recursive cache-on vs cache-off fresh answers must be equal. One failing history per solver and program is reported. Non-trivial = instance with a cycle or an outcome other than unique",
        'technique': "Lean 4 theorems about an executable model of the recursive solver's fixed-point/caching framework (invariant over all call histories: cache soundness w.r.t. the instance's equations) + exact differential correspondence (outcome, work counter, cache contents) + exhaustive small histories on both real solvers",
        'claim': "(Props/C05strat.lean: mixed_history_correct_of_no_mixed_cycle - history independence for every ground instance without a mixed cycle, no level function assumed.) RECURSIVE framework, proof: cache_transparent_partial - for every acyclic instance (Ranked: any size, inductive/coinductive goals, goals with unknowns), every configuration with the F3/F7 repairs, every two histories of ARBITRARY calls (plain, interrupted by any oracle, panicking at any work step) on solvers with or without cache, two plain solves of the same goal that return give the same value (answer_is_semantic: the value the instance's equations determine); cache_transparent_acyclic: when the goal's rank fits under the overflow depth the solve after any history RETURNS and returns the fresh solver's value (unconditional). The full statement is refuted on the code as found (legacy_cache_transparent_refuted = F10, by decide on the 4-clause witness; f10_repaired) and is STILL refuted on the repaired code (cache_transparent_refuted, cache_on_off_refuted = F13 mixed cycles). The model agrees exactly with the real solver on every script incl. the F10 and F13 witnesses (pre-repair code checked against Cfg.legacy, repaired code against Cfg.current). SLG: differential only (translation validation against a fresh solver run).",
        'note': "Findings: F10 reproduced on the unchanged tree, REPAIRED (commit 4106fc3), regression input in corpus/C10. OPEN: F13 recursive_mixed_cycle_cached (NEW: the error value of a mixed inductive/coinductive cycle is entry-point dependent but cached), F14 slg_coinductive_cycle_table_reuse (lead's), F17 slg_answer_order_depends_on_history (NEW: SLG aggregate depends on answer order, which depends on earlier queries; both answers sound), F22 recursive_ambig_precision_depends_on_history (NEW, benign: the precision of an ambiguous answer depends on the entry point of a cycle; reported only when both answers admit solutions and one is ambiguous), F23 slg_runaway_after_history (NEW: a goal answered in 88 steps by a fresh SLG solver does not return after another goal of the same coinductive family was solved on the same forest). NOW THEOREMS (Props/C10fp.lean, Props/C05mixed.lean; ground instances, any cycle structure, no mixed cycle): history_independent_cyclic, cache_on_off_agree_cyclic (every answer after any history of plain calls, cache on or off, is the fixed-point answer), mixed_history_correct / mixed_answers_agree (stratified instances mixing polarities without a mixed cycle); f13_not_stratified shows the refuted mixed-cycle instance lies outside. NOT YET THEOREMS (differential only): goals with unknowns, equality of panics (with a cache a deep goal can be answered where a fresh solver overflows; the theorem speaks of calls that return), tables_keyed_by_goal for SLG. Trusted: Lean kernel, model fidelity (differential), instance extraction in fp.rs, harness.",
        'correspondence': 'FixedPoint.runHistory / solveRootGoal with the persistent cache (lean/ChalkModel/FixedPoint.lean) vs one chalk_recursive::RecursiveSolver answering a history (outcome kind, work counter, Cache entries through the cfg(chalk_verif) accessor)',
    },
    'C11': {
        'extra_props': ['C11fp', 'C11C12mixed'],
        'level': 'proof',
        'rule': "MODEL lines: abstract instances are READ OFF THE REAL CODE (for every goal reachable from the root goals the harness asks chalk for the clauses solve_from_clauses would try - custom clauses, program_clauses_that_could_match, program_clauses_for_env, could_match filter - instantiates each against the goal with the real InferenceTable as Fulfill::new_with_clause does and canonicalizes the conditions as Fulfill::prove does; programs outside the abstraction of FixedPoint.lean are refused and counted) for three families: ground dependency graphs of <= 12 structs over an inductive and a #[coinductive] trait (chains with/without base case, diamonds, one cycle with/without base case entered through a tail, nested SCCs, two SCCs sharing nodes, random graphs; all-inductive / all-coinductive / mixed kinds; several impls per type), goals with unknowns (the F10 family: blanket impls `impl<X> Qi for X where X: Qj` + per trait no or >= 2 facts), and ProgGen programs with closed atomic goals whose goal closure is finite (<= 48 goals). One request line = one SCRIPT of calls on ONE real RecursiveSolver (cache on or off, overflow depth): per call the outcome kind (unique/none/ambig/panic:<site>), the hook's work counter and the hook-dumped cache must equal the model's, exactly. C11 scripts: for a root goal with n callback calls in a clean run, first call = solve_limited with the callback false from its k-th call on, k = 0..n+1 (capped at 12; set VERIF_FP_NONMONOTONE for 'false at the k-th call only' in the model lines too), or always false; then a second limited solve (callback false at its 2nd call), a plain solve of the same goal and of another goal; cache on and off. ORACLE (real code, SLG, recursive, recursive without cache): corpus/C11 first (F3, F16 inputs), generated subjects as C10; per goal every schedule - false ONLY at call k and false FROM call k on for k = 0..n+1 (capped 16 / 60), always, never - on a fresh solver: the limited answer must be the full answer or Ambig; then a second limited solve, solve(goal), solve(other goal) on the same instance must equal the fresh answers. A later difference that the same history WITHOUT interruption also shows is attributed to the C10 finding it reproduces. Non-trivial as C10",
        'technique': 'Lean 4 theorems about the executable model with the should_continue oracle at the head of solve_iteration + exact differential correspondence + exhaustive interruption schedules on both real solvers',
        'claim': "RECURSIVE framework, proof (acyclic instances, repaired code, every history, every oracle): interrupt_weaker_partial (an interrupted call that returns gives the fresh solver's answer or ambig), interrupt_then_fresh_partial (after any history of interrupted or panicking calls an uninterrupted solve returns the fresh solver's answer). Refutations by decide: legacy_interrupt_then_fresh_refuted (F3), legacy_unwrap_panics (F16), and interrupt_then_fresh_refuted on the REPAIRED code for all instances (through F13, not through interruption). SLG: differential only.",
        'note': "Findings: F3 reproduced on the unchanged tree, REPAIRED (commit 9fd4e00); F16 (NEW: unwrap of NoSolution in the last pass of Fulfill::solve under a callback that says stop once and then go on) reproduced (cache off on the unchanged tree; always after the F3 repair), REPAIRED (commit 241c13c); F21 (NEW, C01-type: the ambiguity shortcut of reached_fixed_point kept Ambig(Definite) guidance computed before the fixed point - wrong definite guidance even without interruption, turned into a wrong Unique by an interrupted solve) reproduced by the thorough run, REPAIRED (commit 4d0be45: early exit only for Ambig(Unknown)); regression inputs in corpus/C11. C10's open findings F13, F14, F17 are also reported here when a history exercises them. NOW THEOREMS (Props/C11fp.lean; ground instances of one polarity, any cycle structure, any should_continue oracle, cache on or off): interrupted_is_safe_approximation (the answer is the fixed-point answer or Ambig, Ambig only when the run was interrupted, the cache stays correct - nothing is written while `interrupted` is set), history_with_interruptions_correct (any history of calls with arbitrary oracles and budgets: every later uninterrupted call is exact). NOT YET THEOREMS: instances with unknowns or mixed cycles; makeSolution_interrupt for SLG. The model's last-pass test `constrained_subst().is_some()` is `v = unique` (exact when every ambig is Ambig(Unknown)); the model lines therefore use monotone oracles by default (0 disagreements were also observed with non-monotone ones).",
        'correspondence': 'FixedPoint.runCall with Call.oracle / Call.dflt (should_continue test of solve_iteration, interrupted flag) vs RecursiveSolver::solve_limited with a scripted callback',
    },
    'C12': {
        'extra_props': ['C12fp', 'C11C12mixed'],
        'level': 'proof',
        'rule': "MODEL lines: abstract instances are READ OFF THE REAL CODE (for every goal reachable from the root goals the harness asks chalk for the clauses solve_from_clauses would try - custom clauses, program_clauses_that_could_match, program_clauses_for_env, could_match filter - instantiates each against the goal with the real InferenceTable as Fulfill::new_with_clause does and canonicalizes the conditions as Fulfill::prove does; programs outside the abstraction of FixedPoint.lean are refused and counted) for three families: ground dependency graphs of <= 12 structs over an inductive and a #[coinductive] trait (chains with/without base case, diamonds, one cycle with/without base case entered through a tail, nested SCCs, two SCCs sharing nodes, random graphs; all-inductive / all-coinductive / mixed kinds; several impls per type), goals with unknowns (the F10 family: blanket impls `impl<X> Qi for X where X: Qj` + per trait no or >= 2 facts), and ProgGen programs with closed atomic goals whose goal closure is finite (<= 48 goals). One request line = one SCRIPT of calls on ONE real RecursiveSolver (cache on or off, overflow depth): per call the outcome kind (unique/none/ambig/panic:<site>), the hook's work counter and the hook-dumped cache must equal the model's, exactly. C12 scripts: for a root goal with w work steps in a clean run, first call panics at work step b for b = 0..min(w,40) (the hook's budget = an injected panic between any two database callbacks that see different contexts), optionally a second panicking call, then plain solves of the goal and two more goals; cache on and off. ORACLE (real code; SLG, recursive; recursive without cache in the thorough tier): a RustIrDatabase wrapper (all methods delegated to the lowered Program, incl. interner and unification_database; program_clauses_for_env re-enters the wrapper) counts every callback; corpus/C12 first (F7, F19 inputs), generated subjects as C10; per goal N = callbacks of a clean solve (quick: N <= 150, thorough: <= 2000): for EVERY n = 1..N a fresh solver, the n-th callback panics (catch_unwind), in 1/4 of the cases a second injected panic during a later solve, then the SAME instance answers the goal and two further goals: answers must equal the fresh solver's, a panic is a failure. Non-trivial as C10",
        'technique': 'Lean 4 theorems about the executable model with a panic transition that leaves stack and search graph as they are + exact differential correspondence (budget panics) + exhaustive crash-point enumeration on both real solvers',
        'claim': "RECURSIVE framework, proof: root_ignores_leftovers (repaired code, ALL instances: solve_root_goal behaves as from an empty stack and search graph whatever a panic left), usable_after_panic_partial + cache_sound_after_panics (acyclic instances: after any history of calls panicking at any work step the cache holds only semantic values and a solve returns the fresh solver's answer), legacy_panic_before_push_partial (code as found: usable exactly when the panic precedes the first push). Refutations by decide: legacy_recursive_usable_after_panic_refuted (F7), usable_after_panic_refuted on the REPAIRED code for all instances (through F13). SLG: differential only - and it FAILS: F19.",
        'note': "Findings: F7 (recursive half) reproduced on the unchanged tree, REPAIRED (commit c6d16f6), regression input in corpus/C12. OPEN: F19 slg_strand_lost_after_panic (the SLG half of DESIGN F7, now CONFIRMED by the crash-point enumeration: a strand held in a local of ensure_root_answer is dropped by the unwinding, later solves answer No solution), plus C10's F13/F14/F17 when a history exercises them. NOW THEOREMS (Props/C12fp.lean; ground instances of one polarity, any cycle structure, cache on or off): panic_leaves_cache_correct (for EVERY budget a call returns the fixed-point answer or ends in the budget panic - the model's stand-in for a panic between two database callbacks - and in both cases leaves only correct cache entries), history_with_panics_correct (any history of calls each with an arbitrary budget: the next call is exact). NOT YET THEOREMS: instances with unknowns or mixed cycles; the SLG strand-ownership state machine (no_strand_lost) is not modelled (F19 lives there). Crash points are database callbacks; panics raised inside chalk itself are not injected. Trusted: Lean kernel, model fidelity, the counting wrapper, harness.",
        'correspondence': "FixedPoint.runCall with Call.budget (panic at a work step; no unwinding cleanup) followed by further calls vs one RecursiveSolver under the hook's work budget; real solvers under a counting/panicking RustIrDatabase wrapper vs fresh solvers",
    },
}
