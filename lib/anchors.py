#!/usr/bin/env python3
"""
lib/anchors.py — source anchors (DESIGN §4.2, §12.8).

For every property: the Rust source items that its Lean model mirrors (exact models) or that produce
the answers its certified checker judges (solver-level properties).  Each anchor is a file, or named
items of a file (`fn`, `impl`, `enum`, `struct`, `trait` found by name and cut out by a brace
matcher), normalised (comments and white space removed) and hashed with SHA-256.

`anchors.json` (committed) holds the digests of the tree the proofs and the correspondence were
last validated against.  `./check` recomputes them from /repo's CURRENT working tree on every run:

  * no drift  -> evidence says so (`anchor_drift: []`), nothing else changes;
  * drift     -> NOT a verdict (a harmless rewrite drifts too).  The changed items are listed in the
                 evidence and the run escalates: the correspondence / certified-checker pass is
                 repeated under additional seeds (ESCALATION_SEEDS), so that code which is no longer
                 the code the model was validated against is explored several times as widely
                 before the run may exit 0.  A violation found by an escalation pass is reported
                 with its own replay exactly like one found by the main pass.

    python3 lib/anchors.py record        rewrite anchors.json from /repo's current tree
    python3 lib/anchors.py diff [Cxx]    print drifted anchors
"""
import sys, os, re, json, hashlib

ROOT = os.path.dirname(os.path.dirname(os.path.abspath(__file__)))
REPO = os.environ.get("VERIF_REPO_DIR", "/repo")
FILE = os.path.join(ROOT, "anchors.json")
ESCALATION_SEEDS = 3

# module -> [(path, [item names] or None for the whole file)]
MODULES = {
    "Syntax": [("chalk-ir/src/lib.rs", ["TyKind", "LifetimeData", "ConstData", "ConstValue", "GenericArgData",
                                          "WhereClause", "DomainGoal", "GoalData", "ProgramClauseImplication",
                                          "Variance", "UniverseIndex", "BoundVar", "DebruijnIndex"])],
    "Fold": [("chalk-ir/src/fold.rs", None), ("chalk-ir/src/fold/binder_impls.rs", None),
             ("chalk-ir/src/fold/boring_impls.rs", None)],
    "Shift": [("chalk-ir/src/fold/shift.rs", None),
              ("chalk-ir/src/lib.rs", ["shifted_in", "shifted_in_from", "shifted_out", "shifted_out_to", "within",
                                       "bound_within"])],
    "Subst": [("chalk-ir/src/fold/subst.rs", None),
              ("chalk-ir/src/lib.rs", ["substitute", "identity_substitution", "fuse_binders", "SubstFolder",
                                       "is_identity_subst"])],
    "Flags": [("chalk-ir/src/lib.rs", ["compute_flags", "TypeFlags"])],
    "CouldMatch": [("chalk-ir/src/could_match.rs", None), ("chalk-ir/src/zip.rs", None),
                   ("chalk-integration/src/program.rs", ["impls_for_trait"])],
    "Infer": [("chalk-solve/src/infer.rs", None), ("chalk-solve/src/infer/var.rs", None)],
    "Unify": [("chalk-solve/src/infer/unify.rs", None), ("chalk-ir/src/zip.rs", None),
              ("chalk-ir/src/lib.rs", ["xform", "invert"])],
    "Canon": [("chalk-solve/src/infer/canonicalize.rs", None), ("chalk-solve/src/infer/instantiate.rs", None)],
    "UCanon": [("chalk-solve/src/infer/ucanonicalize.rs", None), ("chalk-ir/src/lib.rs", ["UniverseMap"])],
    "Invert": [("chalk-solve/src/infer/invert.rs", None)],
    "Aggregate": [("chalk-engine/src/slg/aggregate.rs", None), ("chalk-engine/src/slg.rs", None)],
    "Combine": [("chalk-solve/src/solve.rs", None), ("chalk-recursive/src/combine.rs", None)],
    "AnswerStream": [("chalk-engine/src/table.rs", None), ("chalk-engine/src/forest.rs", None),
                     ("chalk-engine/src/solve.rs", None),
                     ("chalk-engine/src/logic.rs", ["root_answer", "any_future_answer"])],
    "FixedPoint": [("chalk-recursive/src/fixed_point.rs", None), ("chalk-recursive/src/fixed_point/stack.rs", None),
                   ("chalk-recursive/src/fixed_point/search_graph.rs", None),
                   ("chalk-recursive/src/fixed_point/cache.rs", None), ("chalk-recursive/src/recursive.rs", None),
                   ("chalk-recursive/src/solve.rs", None)],
    "Truncate": [("chalk-solve/src/solve/truncate.rs", None)],
    # the traversal TySizeVisitor rides on (which sub-terms super_visit_with reaches)
    "Visit": [("chalk-ir/src/visit.rs", None), ("chalk-ir/src/visit/boring_impls.rs", None),
              ("chalk-ir/src/visit/binder_impls.rs", None),
              ("chalk-ir/src/lib.rs", ["DynTy", "FnSubst", "AliasTy", "ProjectionTy", "OpaqueTy", "TraitRef", "AliasEq",
                                       "LifetimeOutlives", "TypeOutlives"])],
    "InPlace": [("chalk-ir/src/fold/in_place.rs", None)],
    "Coherence": [("chalk-solve/src/coherence.rs", None), ("chalk-solve/src/coherence/solve.rs", None)],
    "Orphan": [("chalk-solve/src/coherence/orphan.rs", None),
               ("chalk-solve/src/clauses/program_clauses.rs", None), ("chalk-solve/src/clauses.rs", ["match_ty"])],
    "Builtin": [("chalk-solve/src/clauses/builtin_traits.rs", None)] +
               [("chalk-solve/src/clauses/builtin_traits/%s.rs" % f, None)
                for f in ("sized", "copy", "clone", "tuple")],
    "Lowering": [("chalk-solve/src/clauses/program_clauses.rs", None), ("chalk-solve/src/clauses.rs", None),
                 ("chalk-solve/src/clauses/env_elaborator.rs", None), ("chalk-solve/src/clauses/builder.rs", None),
                 ("chalk-solve/src/clauses/super_traits.rs", None), ("chalk-solve/src/clauses/dyn_ty.rs", None),
                 ("chalk-solve/src/clauses/generalize.rs", None),
                 ("chalk-integration/src/program.rs", None), ("chalk-solve/src/goal_builder.rs", None)],
    "Wf": [("chalk-solve/src/wf.rs", None)],
    "Resolve": [("chalk-integration/src/lowering.rs", None), ("chalk-integration/src/lowering/env.rs", None),
                ("chalk-integration/src/lowering/program_lowerer.rs", None)],
    "Display": [("chalk-solve/src/display.rs", None)] +
               [("chalk-solve/src/display/%s.rs" % f, None)
                for f in ("items", "ty", "bounds", "identifiers", "state", "render_trait", "utils")],
    "Logging": [("chalk-solve/src/logging_db.rs", None), ("chalk-solve/src/logging_db/id_collector.rs", None)],
    # the two search procedures whose answers the certified checkers judge
    "SLG": [("chalk-engine/src/logic.rs", None), ("chalk-engine/src/forest.rs", None),
            ("chalk-engine/src/table.rs", None), ("chalk-engine/src/tables.rs", None),
            ("chalk-engine/src/strand.rs", None), ("chalk-engine/src/stack.rs", None),
            ("chalk-engine/src/simplify.rs", None), ("chalk-engine/src/derived.rs", None),
            ("chalk-engine/src/normalize_deep.rs", None), ("chalk-engine/src/slg/resolvent.rs", None),
            ("chalk-engine/src/slg/aggregate.rs", None), ("chalk-engine/src/slg.rs", None),
            ("chalk-engine/src/solve.rs", None), ("chalk-engine/src/lib.rs", None)],
    "Recursive": [("chalk-recursive/src/fulfill.rs", None), ("chalk-recursive/src/recursive.rs", None),
                  ("chalk-recursive/src/solve.rs", None), ("chalk-recursive/src/combine.rs", None),
                  ("chalk-recursive/src/fixed_point.rs", None), ("chalk-recursive/src/fixed_point/stack.rs", None),
                  ("chalk-recursive/src/fixed_point/search_graph.rs", None),
                  ("chalk-recursive/src/fixed_point/cache.rs", None), ("chalk-recursive/src/lib.rs", None)],
    # everything in chalk-ir/src/lib.rs (Canonical/UCanonical helpers such as `is_trivial_substitution`,
    # `Substitution`, `Binders`, ... are used by both engines)
    "IrLib": [("chalk-ir/src/lib.rs", None)],
    "Parser": [("chalk-parse/src/parser.lalrpop", None), ("chalk-parse/src/ast.rs", None),
               ("chalk-parse/src/lib.rs", None)],
}
SOLVERS = ["SLG", "Recursive", "Lowering", "Infer", "Unify", "Canon", "UCanon", "Invert", "Truncate", "Combine",
           "CouldMatch", "Subst", "Fold", "IrLib"]
PROPS = {
    "C01": SOLVERS + ["Aggregate"], "C02": SOLVERS + ["FixedPoint"], "C03": SOLVERS + ["AnswerStream"],
    "C04": SOLVERS, "C05": SOLVERS + ["FixedPoint"], "C06": SOLVERS, "C07": SOLVERS,
    "C08": SOLVERS + ["Builtin"], "C09": SOLVERS + ["FixedPoint", "Visit"], "C10": SOLVERS + ["FixedPoint", "Aggregate"],
    "C11": SOLVERS + ["FixedPoint", "Aggregate"], "C12": SOLVERS + ["FixedPoint"],
    "C13": SOLVERS + ["Aggregate"], "C14": ["Infer", "Unify", "Fold", "Subst", "Syntax"],
    "C15": ["Infer", "Unify", "Fold", "Syntax"], "C16": ["Infer", "Canon", "UCanon", "Invert", "Fold", "Syntax"],
    "C17": ["Aggregate", "Combine", "Syntax"], "C18": ["CouldMatch", "Unify", "Syntax"],
    "C19": ["Coherence"] + SOLVERS, "C20": ["Orphan"] + SOLVERS, "C21": ["Wf"] + SOLVERS,
    "C22": ["Display", "Resolve", "Parser"], "C23": ["Logging", "Display", "Resolve", "Parser"] + SOLVERS,
    "C24": ["Resolve", "Parser"], "C25": ["Fold", "Shift", "Subst", "Syntax"], "C26": ["Flags", "Syntax"],
    "C27": ["InPlace"], "C28": SOLVERS + ["Syntax"], "C29": ["Unify", "Infer", "Syntax"],
}


def normalise(src):
    """strip // and /* */ comments (string literals respected) and all white space"""
    out, i, n = [], 0, len(src)
    while i < n:
        c = src[i]
        if c == '"':
            j = i + 1
            while j < n and src[j] != '"':
                j += 2 if src[j] == "\\" else 1
            out.append(src[i:j + 1]); i = j + 1
        elif src.startswith("//", i):
            j = src.find("\n", i)
            i = n if j < 0 else j
        elif src.startswith("/*", i):
            depth, j = 1, i + 2
            while j < n and depth:
                if src.startswith("/*", j): depth += 1; j += 2
                elif src.startswith("*/", j): depth -= 1; j += 2
                else: j += 1
            i = j
        elif c.isspace():
            i += 1
        else:
            out.append(c); i += 1
    return "".join(out)


def items_named(src, name):
    """every item `fn|enum|struct|trait|impl.. <name>` with its brace-matched body, in file order"""
    res = []
    for m in re.finditer(r"\b(?:fn|enum|struct|trait|union|type)\s+%s\b|\bimpl\b[^{;]*\b%s\b[^{;]*" % (re.escape(name), re.escape(name)), src):
        j = m.end()
        # up to the opening brace of the item (or a `;` for a declaration without body)
        while j < len(src) and src[j] not in "{;":
            j += 1
        if j >= len(src) or src[j] == ";":
            res.append(src[m.start():j + 1]); continue
        depth, k = 0, j
        while k < len(src):
            if src[k] == "{": depth += 1
            elif src[k] == "}":
                depth -= 1
                if depth == 0: break
            k += 1
        res.append(src[m.start():k + 1])
    return res


def digest_of(path, names):
    p = os.path.join(REPO, path)
    if not os.path.exists(p):
        return {"%s" % path: "missing"}
    src = open(p, encoding="utf-8", errors="replace").read()
    if names is None:
        return {path: hashlib.sha256(normalise(src).encode()).hexdigest()}
    out = {}
    for nm in names:
        its = items_named(src, nm)
        out["%s::%s" % (path, nm)] = ("missing" if not its else
                                       hashlib.sha256("\x00".join(normalise(t) for t in its).encode()).hexdigest())
    return out


def current(prop):
    out = {}
    for mod in PROPS[prop]:
        for path, names in MODULES[mod]:
            for k, v in digest_of(path, names).items():
                out[k] = v
    return out


def recorded():
    try:
        return json.load(open(FILE))
    except Exception:
        return {"digests": {}}


def drift(prop):
    """(list of drifted anchor names, number of anchors)"""
    rec = recorded().get("digests", {})
    cur = current(prop)
    return sorted(k for k, v in cur.items() if rec.get(k) != v), len(cur)


def record():
    import subprocess
    d = {}
    for prop in sorted(PROPS):
        d.update(current(prop))
    head = subprocess.run(["git", "-C", REPO, "rev-parse", "HEAD"], text=True, stdout=subprocess.PIPE).stdout.strip()
    dirty = subprocess.run(["git", "-C", REPO, "status", "--porcelain", "--untracked-files=no"], text=True,
                           stdout=subprocess.PIPE).stdout.strip()
    json.dump({"repo_commit": head, "repo_dirty": bool(dirty), "digests": dict(sorted(d.items()))},
              open(FILE, "w"), indent=1)
    open(FILE, "a").write("\n")
    print("recorded %d anchors at %s%s" % (len(d), head[:10], " (DIRTY TREE)" if dirty else ""))
    missing = [k for k, v in d.items() if v == "missing"]
    if missing: print("missing:", missing)


if __name__ == "__main__":
    if len(sys.argv) > 1 and sys.argv[1] == "record":
        record()
    elif len(sys.argv) > 1 and sys.argv[1] == "diff":
        for prop in (sys.argv[2:] or sorted(PROPS)):
            dr, n = drift(prop)
            print(prop, "%d/%d drifted" % (len(dr), n), *dr)
    else:
        print(__doc__)
