#!/usr/bin/env python3
"""
lib/try_mutant.py <name> <patch.diff> <Cxx> [<Cyy> ...]

Runs the quick checks of the given properties against a scratch worktree of /repo with the patch
applied — without touching /repo itself: the harness is copied and its path dependencies are
pointed at the scratch tree.  Prints each check's output; exit status 0 iff at least one of the
checks reported a VIOLATION (i.e. the seeded change was detected).
Scratch data lives under /tmp/mutcheck/<name> and is removed afterwards (pass --keep to keep it).
"""
import sys, os, subprocess, shutil
args = [a for a in sys.argv[1:] if a != "--keep"]
keep = "--keep" in sys.argv
name, patch, props = args[0], os.path.abspath(args[1]), args[2:]
ROOT = os.path.dirname(os.path.dirname(os.path.abspath(__file__)))
base = f"/tmp/mutcheck/{name}"
shutil.rmtree(base, ignore_errors=True)
os.makedirs(base)
wt = f"{base}/repo"
def sh(cmd, **kw):
    return subprocess.run(cmd, shell=True, text=True, stdout=subprocess.PIPE, stderr=subprocess.STDOUT, **kw)
r = sh(f"git -C /repo worktree add --detach {wt} HEAD -q && git -C {wt} apply {patch}")
if r.returncode != 0:
    print("could not apply patch:", r.stdout); sh(f"git -C /repo worktree remove --force {wt}"); sys.exit(2)
h = f"{base}/harness"
shutil.copytree(os.path.join(ROOT, "harness"), h, ignore=shutil.ignore_patterns("target"))
ct = open(f"{h}/Cargo.toml").read().replace('path = "/repo/', f'path = "{wt}/')
open(f"{h}/Cargo.toml", "w").write(ct)
# the harness reads the repository's own test files for its corpus: point those at the scratch tree too
for dp, _, fns in os.walk(f"{h}/src"):
    for fn in fns:
        p = os.path.join(dp, fn)
        s = open(p).read()
        if '"/repo/' in s:
            open(p, "w").write(s.replace('"/repo/', f'"{wt}/'))
detected = False
env = dict(os.environ, VERIF_HARNESS_DIR=h, VERIF_OUT_DIR=base, CARGO_TARGET_DIR=f"{base}/target")
for prop in props:
    r = subprocess.run([os.path.join(ROOT, "check"), prop], cwd=ROOT, env=env, text=True, stdout=subprocess.PIPE, stderr=subprocess.STDOUT)
    print(f"--- {prop} (exit {r.returncode})")
    print("\n".join(l[:400] for l in r.stdout.strip().split("\n")[-8:]))
    if "VIOLATION" in r.stdout:
        detected = True
if not keep:
    sh(f"git -C /repo worktree remove --force {wt}")
    shutil.rmtree(base, ignore_errors=True)
print("DETECTED" if detected else "MISSED")
sys.exit(0 if detected else 1)
