#!/usr/bin/env python3
"""Give every known finding a globally unique id, keyed by classifier (what the checks match on)."""
import json, os
ROOT = os.path.dirname(os.path.dirname(os.path.abspath(__file__)))
p = os.path.join(ROOT, "known_findings.json")
d = json.load(open(p))
BY_CLASSIFIER = {
    "recursive_mixed_cycle_cached": "F24",
    "recursive_unwrap_after_interrupt": "F25",
    "slg_answer_order_depends_on_history": "F26",
    "recursive_nocache_exponential_reprove": "F27",
    "recursive_ambig_precision_depends_on_history": "F28",
    "slg_coinductive_cycle_table_reuse": "F14",
    "no_solution_but_goal_holds@slg-shared": "F14",
    "slg_negative_cycle_panic": "F18b",
    "recursive_negative_cycle_diverges": "F18",
    "slg_runaway_after_history": "F23",
    "log_item_order_changes_answer": "F2b",
    "slg_work_budget_exceeded": "F29",
    "slg_runaway_after_panic": "F30",
}
for f in d["findings"]:
    if f["classifier"] in BY_CLASSIFIER:
        f["id"] = BY_CLASSIFIER[f["classifier"]]
seen = {}
for f in d["findings"]:
    key = f["id"]
    seen.setdefault(key, set()).add(f["classifier"])
clash = {k: v for k, v in seen.items() if len(v) > 1}
json.dump(d, open(p, "w"), indent=1)
print("clashes:", clash)
