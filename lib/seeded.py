#!/usr/bin/env python3
"""
lib/seeded.py — bookkeeping for the seeded changes under /verif/seeded/<id>/.

Each directory holds a change to rust-lang/chalk that breaks ONE property while the code still
compiles and the pinned test suite still passes, produced by a developer (sub-agent) who was given
only the text of the property and a scratch worktree:

    patch.diff   the source change (git apply at the base commit in meta.json)
    demo/        a demonstration (files with their paths relative to the repository root, and
                 demo/run.sh: exit 0 = property holds, non-zero = broken)
    notes.md     the author's description (what, why the suite misses it, what it needs to manifest)
    meta.json    property, checks that were run against it and what they reported

Sub-commands
    add <id> <outdir> <property>       copy a deliverable (patch.diff, demo/, notes.md) into seeded/<id>
    confirm <id>                       in a scratch worktree outside /repo and /verif: run the demo
                                       without the patch (must pass) and with it (must fail)
    run <id> <Cxx> [<Cyy> ...]         apply the patch to /repo's working tree, run ./check for the given
                                       properties, restore the working tree (git checkout -- .), record
                                       in meta.json which checks printed VIOLATION
    table                              print the detection table (markdown) from all meta.json files

Nothing is ever committed in /repo; scratch trees live in /tmp/seedchk and are removed afterwards.
"""
import sys, os, json, shutil, subprocess, time

ROOT = os.path.dirname(os.path.dirname(os.path.abspath(__file__)))
SEEDED = os.path.join(ROOT, "seeded")


def sh(cmd, **kw):
    return subprocess.run(cmd, shell=True, text=True, stdout=subprocess.PIPE, stderr=subprocess.STDOUT, **kw)


def meta_path(i):
    return os.path.join(SEEDED, i, "meta.json")


def load(i):
    return json.load(open(meta_path(i)))


def save(i, m):
    json.dump(m, open(meta_path(i), "w"), indent=1)
    open(meta_path(i), "a").write("\n")


def add(i, outdir, prop):
    d = os.path.join(SEEDED, i)
    os.makedirs(d, exist_ok=True)
    shutil.copy(os.path.join(outdir, "patch.diff"), d)
    if os.path.exists(os.path.join(outdir, "notes.md")):
        shutil.copy(os.path.join(outdir, "notes.md"), d)
    if os.path.isdir(os.path.join(d, "demo")):
        shutil.rmtree(os.path.join(d, "demo"))
    shutil.copytree(os.path.join(outdir, "demo"), os.path.join(d, "demo"), ignore=shutil.ignore_patterns("target", "*.log"))
    base = sh("git -C /repo rev-parse HEAD").stdout.strip()
    files = [l[6:] for l in open(os.path.join(d, "patch.diff")) if l.startswith("+++ b/")]
    title = ""
    if os.path.exists(os.path.join(d, "notes.md")):
        title = open(os.path.join(d, "notes.md")).readline().lstrip("# ").strip()
    m = {"id": i, "property": prop, "title": title, "base_commit": base, "files_changed": [f.strip() for f in files],
         "produced_by": "sub-agent given only the property text and a scratch worktree (no access to /verif)",
         "demo_confirmed": None, "checks": {}}
    if os.path.exists(meta_path(i)):
        old = load(i)
        m["demo_confirmed"] = old.get("demo_confirmed")
        m["checks"] = old.get("checks", {})
    save(i, m)
    print("added", d)


def confirm(i):
    d = os.path.join(SEEDED, i)
    base = f"/tmp/seedchk/{i}"
    sh("git -C /repo worktree prune")
    shutil.rmtree(base, ignore_errors=True)
    os.makedirs(base)
    wt = f"{base}/repo"
    r = sh(f"git -C /repo worktree add --detach {wt} HEAD -q")
    if r.returncode != 0:
        print(r.stdout); sys.exit(2)
    try:
        # demo files in (run.sh stays under demo/)
        for dp, _, fns in os.walk(os.path.join(d, "demo")):
            for fn in fns:
                src = os.path.join(dp, fn)
                rel = os.path.relpath(src, os.path.join(d, "demo"))
                if rel == "run.sh":
                    dst = os.path.join(wt, "demo", "run.sh")
                else:
                    dst = os.path.join(wt, rel)
                os.makedirs(os.path.dirname(dst), exist_ok=True)
                shutil.copy(src, dst)
        env = dict(os.environ, CARGO_TARGET_DIR=f"{base}/target", CARGO_NET_OFFLINE="true")
        t0 = time.time()
        r0 = subprocess.run("sh demo/run.sh", shell=True, cwd=wt, env=env, text=True, stdout=subprocess.PIPE, stderr=subprocess.STDOUT)
        a = sh(f"git -C {wt} apply {os.path.join(d, 'patch.diff')}")
        if a.returncode != 0:
            print("patch does not apply:", a.stdout); sys.exit(2)
        r1 = subprocess.run("sh demo/run.sh", shell=True, cwd=wt, env=env, text=True, stdout=subprocess.PIPE, stderr=subprocess.STDOUT)
        m = load(i)
        m["demo_confirmed"] = {
            "without_patch_exit": r0.returncode, "with_patch_exit": r1.returncode,
            "ok": r0.returncode == 0 and r1.returncode != 0,
            "with_patch_tail": r1.stdout.strip().split("\n")[-6:],
            "seconds": round(time.time() - t0),
        }
        save(i, m)
        print(i, "demo without patch: exit", r0.returncode, "| with patch: exit", r1.returncode, "|", "CONFIRMED" if m["demo_confirmed"]["ok"] else "NOT CONFIRMED")
        if not m["demo_confirmed"]["ok"]:
            print(r0.stdout[-1500:]); print("-----"); print(r1.stdout[-1500:])
    finally:
        sh(f"git -C /repo worktree remove --force {wt}")
        shutil.rmtree(base, ignore_errors=True)
        sh("git -C /repo worktree prune")


def run(i, props):
    d = os.path.join(SEEDED, i)
    st = sh("git -C /repo status --porcelain").stdout.strip()
    if st:
        print("/repo working tree is not clean, refusing:", st); sys.exit(2)
    a = sh(f"git -C /repo apply {os.path.join(d, 'patch.diff')}")
    if a.returncode != 0:
        print("patch does not apply:", a.stdout); sys.exit(2)
    m = load(i)
    try:
        for p in props:
            t0 = time.time()
            # evidence/, replays/ and work/ of this run go to a scratch directory: the committed evidence
            # describes the unchanged tree only
            outdir = f"/tmp/seedrun/{i}"
            shutil.rmtree(outdir, ignore_errors=True)
            os.makedirs(outdir)
            r = subprocess.run([os.path.join(ROOT, "check"), p], cwd=ROOT, text=True, stdout=subprocess.PIPE, stderr=subprocess.STDOUT,
                               env=dict(os.environ, VERIF_OUT_DIR=outdir))
            vio = [l.strip() for l in r.stdout.split("\n") if l.startswith("VIOLATION")]
            # keep the first replay next to the seeded change (trimmed)
            for l in vio[:1]:
                rp = os.path.join(outdir, l.split("replay=")[1].split()[0])
                if os.path.exists(rp):
                    try:
                        obj = json.load(open(rp))
                        obj.pop("more", None)
                        for k in list(obj.keys()):
                            if isinstance(obj[k], str) and len(obj[k]) > 4000:
                                obj[k] = obj[k][:4000] + " ...[trimmed]"
                        json.dump(obj, open(os.path.join(d, f"detected-by-{p}.json"), "w"), indent=1)
                    except Exception as e:
                        print("could not copy replay:", e)
            shutil.rmtree(outdir, ignore_errors=True)
            m["checks"][p] = {"tier": "quick", "against": "/repo working tree with the patch applied", "exit": r.returncode,
                              "detected": bool(vio), "violation_lines": vio[:6], "seconds": round(time.time() - t0)}
            print(f"{i} {p}: exit {r.returncode}", "DETECTED" if vio else "MISSED", vio[:3])
    finally:
        sh("git -C /repo checkout -- .")
        st = sh("git -C /repo status --porcelain").stdout.strip()
        if st:
            print("WARNING: /repo not clean after restore:", st)
        save(i, m)


def table():
    rows = []
    for i in sorted(os.listdir(SEEDED)):
        if not os.path.exists(meta_path(i)):
            continue
        m = load(i)
        det = [p for p, c in m["checks"].items() if c.get("detected")]
        mis = [p for p, c in m["checks"].items() if not c.get("detected")]
        dc = m.get("demo_confirmed") or {}
        rows.append(f"| {i} | {m['property']} | {m['title'][:90]} | {'yes' if dc.get('ok') else 'no'} | {', '.join(det) or '-'} | {', '.join(mis) or '-'} |")
    print("| id | property | change | demo confirmed | detected by | run but silent |")
    print("|---|---|---|---|---|---|")
    print("\n".join(rows))


if __name__ == "__main__":
    c = sys.argv[1]
    if c == "add":
        add(sys.argv[2], sys.argv[3], sys.argv[4])
    elif c == "confirm":
        confirm(sys.argv[2])
    elif c == "run":
        run(sys.argv[2], sys.argv[3:])
    elif c == "table":
        table()
    else:
        print(__doc__); sys.exit(2)
