#!/usr/bin/env python3
"""Regenerates /verif/MANIFEST.json from lib/props.py (claimed checks) and properties.jsonl."""
import json, os, sys
ROOT = os.path.dirname(os.path.dirname(os.path.abspath(__file__)))
sys.path.insert(0, os.path.join(ROOT, "lib"))
import props as P

ids = [json.loads(l)["id"] for l in open(os.path.join(ROOT, "properties.jsonl"))]
checks, na = [], []
for pid in ids:
    c = P.PROPS.get(pid)
    if c is None or c.get("unclaimed"):
        na.append({"property_id": pid, "reason": (c or {}).get("unclaimed", "check not built yet in this round (planned: DESIGN.md section 6); no claim is made")})
        continue
    checks.append({
        "property_id": pid,
        "quick_cmd": f"./check {pid} --tier quick",
        "thorough_cmd": f"./check {pid} --tier thorough",
        "evidence_file": f"evidence/{pid}.json",
        "replay_cmd_template": f"./check {pid} --replay {{path}}",
        "engine": "lean-model+harness",
        "level_claimed": {"category": c["level"], "text": c["claim"], "design_ref": f"DESIGN.md section 6 / {pid}"},
        "level_note": c["note"],
        "technique": c["technique"],
    })
m = {
    "version": 1,
    "setup_cmd": "./setup.sh",
    "hooks": {
        "guard": "chalk_verif",
        "enable": "RUSTFLAGS=--cfg chalk_verif through harness/.cargo/config.toml (the harness has path dependencies on /repo's crates)",
        "baseline_off_cmd": "cd /repo && cargo test --workspace --no-fail-fast --offline",
        "source_commits": P.HOOK_COMMITS,
        "add_only": True,
    },
    "engines": [
        {"name": "lean-model", "path": "lean", "serves_properties": [c["property_id"] for c in checks],
         "kind_free_text": "Lean 4 lake project ChalkModel: executable models, theorems (Props/Cxx.lean), compiled line-protocol driver"},
        {"name": "harness", "path": "harness", "serves_properties": [c["property_id"] for c in checks],
         "kind_free_text": "Rust crate with path deps on /repo's crates: generators, wire serialiser, drives the real functions, evaluates the properties on the implementation"},
    ],
    "checks": checks,
    "not_applicable": na,
    "notes": "Technique: machine-checked proof in Lean 4 about hand-written executable models, tied to /repo by a correspondence (differential) check on every run. See DESIGN.md.",
}
json.dump(m, open(os.path.join(ROOT, "MANIFEST.json"), "w"), indent=1)
print(f"{len(checks)} checks, {len(na)} not claimed")
