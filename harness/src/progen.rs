//! Generator of program skeletons and goals for the solver-level properties (DESIGN Appendix C),
//! rendered to `.chalk` text.  The Lean side never sees this AST: programs are parsed and lowered
//! by chalk and the lowered `Program` is what gets serialised (see `horn.rs`).
use crate::rng::Rng;

#[derive(Clone, Debug, PartialEq)]
pub enum TyT {
    /// impl / item parameter
    Param(usize),
    Struct(usize, Vec<TyT>),
    Scalar(usize),
    /// goal variable bound by `exists`/`forall` (name index)
    GoalVar(usize),
}

pub const SCALAR_NAMES: &[&str] = &["u32", "i32", "bool"];

#[derive(Clone, Debug)]
pub struct TraitT {
    pub nparams: usize,
    pub coinductive: bool,
}

#[derive(Clone, Debug)]
pub struct WcT {
    pub ty: TyT,
    pub tr: usize,
    pub args: Vec<TyT>,
}

#[derive(Clone, Debug)]
pub struct ImplT {
    pub nparams: usize,
    pub tr: usize,
    pub args: Vec<TyT>,
    pub self_ty: TyT,
    pub wcs: Vec<WcT>,
}

#[derive(Clone, Debug)]
pub struct ProgT {
    pub structs: Vec<usize>, // arities
    pub traits: Vec<TraitT>,
    pub impls: Vec<ImplT>,
}

#[derive(Clone, Debug)]
pub enum GoalT {
    Atom(WcT),
    And(Vec<GoalT>),
    Exists(Vec<usize>, Box<GoalT>),
    Forall(Vec<usize>, Box<GoalT>),
    If(Vec<WcT>, Box<GoalT>),
    Not(Box<GoalT>),
    Eq(TyT, TyT),
}

pub fn ty_text(t: &TyT) -> String {
    match t {
        TyT::Param(i) => format!("P{}", i),
        TyT::GoalVar(i) => format!("X{}", i),
        TyT::Scalar(i) => SCALAR_NAMES[*i % SCALAR_NAMES.len()].to_string(),
        TyT::Struct(i, args) => {
            if args.is_empty() {
                format!("S{}", i)
            } else {
                format!("S{}<{}>", i, args.iter().map(ty_text).collect::<Vec<_>>().join(", "))
            }
        }
    }
}

pub fn wc_text(w: &WcT) -> String {
    let args = if w.args.is_empty() { String::new() } else { format!("<{}>", w.args.iter().map(ty_text).collect::<Vec<_>>().join(", ")) };
    format!("{}: T{}{}", ty_text(&w.ty), w.tr, args)
}

impl ProgT {
    pub fn render_items(&self) -> Vec<String> {
        let mut items = vec![];
        for (i, a) in self.structs.iter().enumerate() {
            let ps: Vec<String> = (0..*a).map(|j| format!("P{}", j)).collect();
            items.push(format!("struct S{}{} {{}}", i, if *a > 0 { format!("<{}>", ps.join(", ")) } else { String::new() }));
        }
        for (i, t) in self.traits.iter().enumerate() {
            let ps: Vec<String> = (0..t.nparams).map(|j| format!("P{}", j)).collect();
            items.push(format!(
                "{}trait T{}{} {{}}",
                if t.coinductive { "#[coinductive] " } else { "" },
                i,
                if t.nparams > 0 { format!("<{}>", ps.join(", ")) } else { String::new() }
            ));
        }
        for im in &self.impls {
            let ps: Vec<String> = (0..im.nparams).map(|j| format!("P{}", j)).collect();
            let targs = if im.args.is_empty() { String::new() } else { format!("<{}>", im.args.iter().map(ty_text).collect::<Vec<_>>().join(", ")) };
            let wcs = if im.wcs.is_empty() { String::new() } else { format!(" where {}", im.wcs.iter().map(wc_text).collect::<Vec<_>>().join(", ")) };
            items.push(format!(
                "impl{} T{}{} for {}{} {{}}",
                if im.nparams > 0 { format!("<{}>", ps.join(", ")) } else { String::new() },
                im.tr,
                targs,
                ty_text(&im.self_ty),
                wcs
            ));
        }
        items
    }
    pub fn render(&self) -> String {
        self.render_items().join("\n")
    }
}

pub fn goal_text(g: &GoalT) -> String {
    match g {
        GoalT::Atom(w) => wc_text(w),
        GoalT::And(gs) => gs.iter().map(goal_text).collect::<Vec<_>>().join(", "),
        GoalT::Exists(vs, g) => format!("exists<{}> {{ {} }}", vs.iter().map(|v| format!("X{}", v)).collect::<Vec<_>>().join(", "), goal_text(g)),
        GoalT::Forall(vs, g) => format!("forall<{}> {{ {} }}", vs.iter().map(|v| format!("X{}", v)).collect::<Vec<_>>().join(", "), goal_text(g)),
        GoalT::If(hs, g) => format!("if ({}) {{ {} }}", hs.iter().map(wc_text).collect::<Vec<_>>().join("; "), goal_text(g)),
        GoalT::Not(g) => format!("not {{ {} }}", goal_text(g)),
        GoalT::Eq(a, b) => format!("{} = {}", ty_text(a), ty_text(b)),
    }
}

#[derive(Clone)]
pub struct ProgCfg {
    pub max_structs: usize,
    pub max_traits: usize,
    pub max_trait_params: usize,
    pub max_impls: usize,
    pub coinductive: bool,
    pub growing: bool,
}

impl Default for ProgCfg {
    fn default() -> Self {
        ProgCfg { max_structs: 4, max_traits: 3, max_trait_params: 1, max_impls: 7, coinductive: false, growing: true }
    }
}

pub struct ProgGen<'a> {
    pub rng: &'a mut Rng,
    pub cfg: ProgCfg,
}

impl<'a> ProgGen<'a> {
    /// a type over `nparams` parameters (or, when `vars` is non-empty, those goal variables)
    pub fn ty(&mut self, p: &ProgT, nparams: usize, vars: &[usize], depth: usize) -> TyT {
        let leaf = depth == 0 || self.rng.chance(2, 5);
        if leaf {
            let mut opts: Vec<TyT> = vec![];
            for (i, a) in p.structs.iter().enumerate() {
                if *a == 0 {
                    opts.push(TyT::Struct(i, vec![]));
                    opts.push(TyT::Struct(i, vec![]));
                }
            }
            opts.push(TyT::Scalar(self.rng.usize_below(SCALAR_NAMES.len())));
            for j in 0..nparams {
                opts.push(TyT::Param(j));
                opts.push(TyT::Param(j));
            }
            for v in vars {
                opts.push(TyT::GoalVar(*v));
                opts.push(TyT::GoalVar(*v));
            }
            return opts[self.rng.usize_below(opts.len())].clone();
        }
        let i = self.rng.usize_below(p.structs.len());
        let a = p.structs[i];
        TyT::Struct(i, (0..a).map(|_| self.ty(p, nparams, vars, depth - 1)).collect())
    }

    fn wc(&mut self, p: &ProgT, nparams: usize, vars: &[usize], depth: usize) -> WcT {
        let tr = self.rng.usize_below(p.traits.len());
        let args = (0..p.traits[tr].nparams).map(|_| self.ty(p, nparams, vars, depth)).collect();
        WcT { ty: self.ty(p, nparams, vars, depth), tr, args }
    }

    pub fn program(&mut self) -> ProgT {
        let ns = 2 + self.rng.usize_below(self.cfg.max_structs - 1);
        let nt = 1 + self.rng.usize_below(self.cfg.max_traits);
        let mut p = ProgT {
            structs: (0..ns).map(|i| if i < 2 { i % 2 * 0 } else { self.rng.usize_below(3) }).collect(),
            traits: (0..nt)
                .map(|_| TraitT {
                    nparams: self.rng.usize_below(self.cfg.max_trait_params + 1),
                    coinductive: self.cfg.coinductive && self.rng.chance(1, 2),
                })
                .collect(),
            impls: vec![],
        };
        // make sure there is at least one unary struct most of the time
        if !p.structs.iter().any(|a| *a == 1) && self.rng.chance(4, 5) {
            p.structs.push(1);
        }
        let ni = 2 + self.rng.usize_below(self.cfg.max_impls - 1);
        for _ in 0..ni {
            let tr = self.rng.usize_below(nt);
            let shape = self.rng.weighted(&[6, 8, 2, 2, if self.cfg.growing { 2 } else { 0 }, 2]);
            let unary: Vec<usize> = p.structs.iter().enumerate().filter(|(_, a)| **a == 1).map(|(i, _)| i).collect();
            let binary: Vec<usize> = p.structs.iter().enumerate().filter(|(_, a)| **a == 2).map(|(i, _)| i).collect();
            let im = match shape {
                // base: concrete self type, no parameters
                0 => {
                    let self_ty = self.ty(&p, 0, &[], 2);
                    let args = (0..p.traits[tr].nparams).map(|_| self.ty(&p, 0, &[], 1)).collect();
                    let wcs = if self.rng.chance(1, 4) { vec![self.wc(&p, 0, &[], 1)] } else { vec![] };
                    ImplT { nparams: 0, tr, args, self_ty, wcs }
                }
                // structural: impl<P> T for S<P> where P: T'
                1 if !unary.is_empty() => {
                    let s = *self.rng.pick(&unary);
                    let args = (0..p.traits[tr].nparams).map(|_| self.ty(&p, 1, &[], 1)).collect();
                    let mut wcs = vec![];
                    if self.rng.chance(4, 5) {
                        let tr2 = if self.rng.chance(2, 3) { tr } else { self.rng.usize_below(nt) };
                        let a2 = (0..p.traits[tr2].nparams).map(|_| self.ty(&p, 1, &[], 1)).collect();
                        wcs.push(WcT { ty: TyT::Param(0), tr: tr2, args: a2 });
                    }
                    ImplT { nparams: 1, tr, args, self_ty: TyT::Struct(s, vec![TyT::Param(0)]), wcs }
                }
                // blanket: impl<P> T for P where P: T'
                2 => {
                    let tr2 = self.rng.usize_below(nt);
                    let a2 = (0..p.traits[tr2].nparams).map(|_| self.ty(&p, 1, &[], 1)).collect();
                    let args = (0..p.traits[tr].nparams).map(|_| self.ty(&p, 1, &[], 1)).collect();
                    ImplT { nparams: 1, tr, args, self_ty: TyT::Param(0), wcs: vec![WcT { ty: TyT::Param(0), tr: tr2, args: a2 }] }
                }
                // repeated parameter: impl<P> T for S2<P, P>
                3 if !binary.is_empty() => {
                    let s = *self.rng.pick(&binary);
                    let second = if self.rng.chance(2, 3) { TyT::Param(0) } else { self.ty(&p, 1, &[], 1) };
                    let args = (0..p.traits[tr].nparams).map(|_| self.ty(&p, 1, &[], 1)).collect();
                    let wcs = if self.rng.chance(1, 2) { vec![self.wc(&p, 1, &[], 1)] } else { vec![] };
                    ImplT { nparams: 1, tr, args, self_ty: TyT::Struct(s, vec![TyT::Param(0), second]), wcs }
                }
                // growing: impl<P> T for P where S<P>: T   /   polymorphic recursion
                4 if !unary.is_empty() => {
                    let s = *self.rng.pick(&unary);
                    let args: Vec<TyT> = (0..p.traits[tr].nparams).map(|_| self.ty(&p, 1, &[], 1)).collect();
                    let (self_ty, wty) = if self.rng.chance(1, 2) {
                        (TyT::Param(0), TyT::Struct(s, vec![TyT::Param(0)]))
                    } else {
                        (TyT::Struct(s, vec![TyT::Param(0)]), TyT::Struct(s, vec![TyT::Struct(s, vec![TyT::Param(0)])]))
                    };
                    ImplT { nparams: 1, tr, args: args.clone(), self_ty, wcs: vec![WcT { ty: wty, tr, args }] }
                }
                // concrete cycle edge: impl T for A where B: T
                _ => {
                    let self_ty = self.ty(&p, 0, &[], 1);
                    let args: Vec<TyT> = (0..p.traits[tr].nparams).map(|_| self.ty(&p, 0, &[], 1)).collect();
                    let w = WcT { ty: self.ty(&p, 0, &[], 1), tr: self.rng.usize_below(nt), args: vec![] };
                    let w = WcT { args: (0..p.traits[w.tr].nparams).map(|_| self.ty(&p, 0, &[], 1)).collect(), ..w };
                    ImplT { nparams: 0, tr, args, self_ty, wcs: vec![w] }
                }
            };
            // every impl parameter must occur in the header (otherwise chalk rejects / fragment F0 excludes)
            let hdr = format!("{} {}", ty_text(&im.self_ty), im.args.iter().map(ty_text).collect::<Vec<_>>().join(" "));
            if (0..im.nparams).all(|j| hdr.contains(&format!("P{}", j))) {
                p.impls.push(im);
            }
        }
        p
    }

    /// a closed goal (no unknowns): atoms over concrete types, conjunction, forall/if, not
    pub fn ground_goal(&mut self, p: &ProgT, depth: usize) -> GoalT {
        match self.rng.weighted(&[10, 3, 3, 3, 1]) {
            0 => GoalT::Atom(self.wc(p, 0, &[], depth)),
            1 => GoalT::And((0..2 + self.rng.usize_below(2)).map(|_| GoalT::Atom(self.wc(p, 0, &[], depth))).collect()),
            2 => {
                // forall<X> { if (X: T) { S<X>: T' } }
                let hyps = (0..1 + self.rng.usize_below(2))
                    .map(|_| {
                        let tr = self.rng.usize_below(p.traits.len());
                        let args = (0..p.traits[tr].nparams).map(|_| self.ty(p, 0, &[0], 1)).collect();
                        WcT { ty: TyT::GoalVar(0), tr, args }
                    })
                    .collect();
                let body = self.wc(p, 0, &[0], depth);
                if self.rng.chance(4, 5) {
                    GoalT::Forall(vec![0], Box::new(GoalT::If(hyps, Box::new(GoalT::Atom(body)))))
                } else {
                    GoalT::Forall(vec![0], Box::new(GoalT::Atom(body)))
                }
            }
            3 => GoalT::Not(Box::new(GoalT::Atom(self.wc(p, 0, &[], depth)))),
            _ => GoalT::And(vec![GoalT::Atom(self.wc(p, 0, &[], depth)), GoalT::Not(Box::new(GoalT::Atom(self.wc(p, 0, &[], depth))))]),
        }
    }

    /// replace impl parameters: by goal variables (`to_var`) or by concrete types
    fn subst_params(&mut self, p: &ProgT, t: &TyT, map: &[TyT]) -> TyT {
        match t {
            TyT::Param(i) => map[*i].clone(),
            TyT::Struct(s, args) => TyT::Struct(*s, args.iter().map(|a| self.subst_params(p, a, map)).collect()),
            x => x.clone(),
        }
    }

    /// a goal with unknowns shaped after an impl header (so that it usually has solutions):
    /// parameters become unknowns or concrete types, subterms may be replaced by unknowns
    pub fn exists_goal_from_impl(&mut self, p: &ProgT) -> GoalT {
        if p.impls.is_empty() {
            return self.exists_goal(p, 2);
        }
        let im = p.impls[self.rng.usize_below(p.impls.len())].clone();
        let nv = 1 + self.rng.usize_below(2);
        let vars: Vec<usize> = (0..nv).collect();
        let map: Vec<TyT> = (0..im.nparams.max(1))
            .map(|_| if self.rng.chance(2, 3) { TyT::GoalVar(self.rng.usize_below(nv)) } else { self.ty(p, 0, &[], 1) })
            .collect();
        let mut self_ty = self.subst_params(p, &im.self_ty, &map);
        let args: Vec<TyT> = im.args.iter().map(|a| self.subst_params(p, a, &map)).collect();
        // generalise: whole self type or one argument of it becomes an unknown
        match self.rng.weighted(&[3, 2, 4]) {
            0 => self_ty = TyT::GoalVar(0),
            1 => {
                if let TyT::Struct(s, a) = &self_ty {
                    if !a.is_empty() {
                        let mut a2 = a.clone();
                        let k = self.rng.usize_below(a2.len());
                        a2[k] = TyT::GoalVar(self.rng.usize_below(nv));
                        self_ty = TyT::Struct(*s, a2);
                    }
                }
            }
            _ => {}
        }
        let atom = GoalT::Atom(WcT { ty: self_ty, tr: im.tr, args });
        let body = if self.rng.chance(1, 4) { GoalT::And(vec![atom, GoalT::Atom(self.wc(p, 0, &vars, 1))]) } else { atom };
        GoalT::Exists(vars, Box::new(body))
    }

    /// a goal with unknowns: exists over 1-2 variables
    pub fn exists_goal(&mut self, p: &ProgT, depth: usize) -> GoalT {
        let nv = 1 + self.rng.usize_below(2);
        let vars: Vec<usize> = (0..nv).collect();
        let body = match self.rng.weighted(&[8, 3, 2]) {
            0 => GoalT::Atom(self.wc(p, 0, &vars, depth)),
            1 => GoalT::And(vec![GoalT::Atom(self.wc(p, 0, &vars, depth)), GoalT::Atom(self.wc(p, 0, &vars, depth))]),
            _ => GoalT::And(vec![GoalT::Atom(self.wc(p, 0, &vars, depth)), GoalT::Eq(TyT::GoalVar(0), self.ty(p, 0, &vars[1..], 1))]),
        };
        GoalT::Exists(vars, Box::new(body))
    }
}

/// A dense dependency-graph family over ground atoms (where fixed-point/caching bugs live): nodes
/// `N0..Nk` (structs), one trait `G` (inductive or `#[coinductive]`), each node with 0-2 impls
/// ("alternatives") whose where-clauses are 0-3 other nodes in random order; nodes without impl are
/// unprovable ("poison"), impls without conditions are base cases.  Returns (program text, node count).
pub fn graph_program(rng: &mut Rng, coinductive: bool) -> (String, usize) {
    let n = 3 + rng.usize_below(4);
    let mut s = String::new();
    for i in 0..n {
        s.push_str(&format!("struct N{} {{}}\n", i));
    }
    s.push_str(&format!("{}trait G {{}}\n", if coinductive { "#[coinductive] " } else { "" }));
    for i in 0..n {
        let nalt = rng.weighted(&[2, 6, 2]);
        for _ in 0..nalt {
            let nc = rng.weighted(&[2, 4, 4, 2]);
            let mut conds: Vec<usize> = (0..nc).map(|_| rng.usize_below(n)).collect();
            conds.dedup();
            if conds.is_empty() {
                s.push_str(&format!("impl G for N{} {{}}\n", i));
            } else {
                let w: Vec<String> = conds.iter().map(|c| format!("N{}: G", c)).collect();
                s.push_str(&format!("impl G for N{} where {} {{}}\n", i, w.join(", ")));
            }
        }
    }
    (s, n)
}

/// closed goals over a graph program: single nodes, conjunctions, `not`
pub fn graph_goal(rng: &mut Rng, n: usize) -> String {
    let a = rng.usize_below(n);
    let b = rng.usize_below(n);
    match rng.weighted(&[6, 2, 2, 1]) {
        0 => format!("N{}: G", a),
        1 => format!("N{}: G, N{}: G", a, b),
        2 => format!("N{}: G, not {{ N{}: G }}", a, b),
        _ => format!("not {{ N{}: G }}", a),
    }
}

/// Structural fingerprint of a graph-family program as seen from a goal: "acyclic" when no cycle is
/// reachable from the goal's nodes, "simple" when every reachable cyclic component is one simple
/// cycle (each of its nodes has exactly one successor inside it), "nested" when some reachable
/// component has a node with two or more distinct successors inside it (interlocking cycles).
/// Used only to key known findings by the shape of input they need.
pub fn graph_shape(program_text: &str, goal_text: &str) -> &'static str {
    fn nodes_of(s: &str) -> Vec<usize> {
        // every `N<k>: G`
        let b = s.as_bytes();
        let mut v = vec![];
        let mut i = 0;
        while i < b.len() {
            if b[i] == b'N' && (i == 0 || !b[i - 1].is_ascii_alphanumeric()) {
                let mut j = i + 1;
                while j < b.len() && b[j].is_ascii_digit() {
                    j += 1;
                }
                if j > i + 1 && s[j..].trim_start().starts_with(':') {
                    v.push(s[i + 1..j].parse::<usize>().unwrap());
                }
                i = j;
            } else {
                i += 1;
            }
        }
        v
    }
    let mut succ: std::collections::BTreeMap<usize, std::collections::BTreeSet<usize>> = Default::default();
    for line in program_text.split(|c| c == '\n' || c == '|') {
        let line = line.trim();
        if let Some(rest) = line.strip_prefix("impl G for N") {
            let head: usize = match rest.split(|c: char| !c.is_ascii_digit()).next().and_then(|d| d.parse().ok()) {
                Some(h) => h,
                None => continue,
            };
            let body = rest.split_once("where").map(|(_, b)| b).unwrap_or("");
            succ.entry(head).or_default().extend(nodes_of(body));
        }
    }
    // reachable set
    let mut reach: std::collections::BTreeSet<usize> = Default::default();
    let mut todo = nodes_of(goal_text);
    while let Some(x) = todo.pop() {
        if reach.insert(x) {
            if let Some(s) = succ.get(&x) {
                todo.extend(s.iter().cloned());
            }
        }
    }
    let reaches = |a: usize, b: usize| -> bool {
        // is there a non-empty path a -> b
        let mut seen: std::collections::BTreeSet<usize> = Default::default();
        let mut todo: Vec<usize> = succ.get(&a).map(|s| s.iter().cloned().collect()).unwrap_or_default();
        while let Some(x) = todo.pop() {
            if x == b {
                return true;
            }
            if seen.insert(x) {
                if let Some(s) = succ.get(&x) {
                    todo.extend(s.iter().cloned());
                }
            }
        }
        false
    };
    let mut shape = "acyclic";
    for &a in &reach {
        if !reaches(a, a) {
            continue;
        }
        if shape == "acyclic" {
            shape = "simple";
        }
        // successors of a inside a's component
        let inside = succ.get(&a).map(|s| s.iter().filter(|&&b| b == a || (reaches(a, b) && reaches(b, a))).count()).unwrap_or(0);
        if inside >= 2 {
            shape = "nested";
        }
    }
    shape
}

/// Programs built around the motif that stresses *provisional* results (C05: "a result that relied
/// on a cyclic assumption that later turned out false is never reported or reused"): a cycle head H,
/// a chain P1 -> .. -> Pk -> H whose members are computed while H is still open, consumers Q of
/// those members that do not reach H otherwise, and a condition of H that decides H only after
/// the members and consumers were visited (a node without impl, or a fact).  Node numbers are a
/// random permutation and the order of every condition list is random.  Returns the program text,
/// the number of nodes and a sequence of goals (head first, then consumers and members, then
/// conjunctions with a negated head) meant to be posed to one solver instance in order.
pub fn provisional_program(rng: &mut Rng, coinductive: bool) -> (String, usize, Vec<String>) {
    let k = 1 + rng.usize_below(3); // chain length
    let m = 1 + rng.usize_below(3); // consumers
    let n = 1 + k + m + 2; // H, P1..Pk, Q1..Qm, F (no impl), T (fact)
    // random numbering
    let mut perm: Vec<usize> = (0..n).collect();
    for i in (1..n).rev() {
        let j = rng.usize_below(i + 1);
        perm.swap(i, j);
    }
    let h = perm[0];
    let p: Vec<usize> = (0..k).map(|i| perm[1 + i]).collect();
    let q: Vec<usize> = (0..m).map(|i| perm[1 + k + i]).collect();
    let f = perm[1 + k + m];
    let t = perm[2 + k + m];
    let shuffle = |rng: &mut Rng, v: &mut Vec<usize>| {
        for i in (1..v.len()).rev() {
            let j = rng.usize_below(i + 1);
            v.swap(i, j);
        }
    };
    let mut impls: Vec<(usize, Vec<usize>)> = vec![];
    // head: first member of the chain, some consumers, and the deciding condition
    let mut hc = vec![p[0]];
    for &qi in &q {
        if rng.chance(2, 3) {
            hc.push(qi);
        }
    }
    let h_fails = rng.chance(2, 3);
    hc.push(if h_fails { f } else { t });
    shuffle(rng, &mut hc);
    impls.push((h, hc));
    if !coinductive || rng.chance(1, 4) {
        // a second way to prove the head (inductive cycles: the base case found after the cycle)
        if rng.chance(1, 2) {
            impls.push((h, vec![t]));
        }
    }
    for i in 0..k {
        let mut c = vec![if i + 1 < k { p[i + 1] } else { h }];
        if rng.chance(1, 3) {
            c.push(t);
        }
        if rng.chance(1, 5) {
            c.push(p[rng.usize_below(k)]);
        }
        c.dedup();
        shuffle(rng, &mut c);
        impls.push((p[i], c));
    }
    for j in 0..m {
        let mut c = vec![p[rng.usize_below(k)]];
        if rng.chance(1, 3) {
            c.push(t);
        }
        if j > 0 && rng.chance(1, 3) {
            c.push(q[rng.usize_below(j)]);
        }
        shuffle(rng, &mut c);
        impls.push((q[j], c));
    }
    impls.push((t, vec![]));
    shuffle_impls(rng, &mut impls);
    let mut s = String::new();
    for i in 0..n {
        s.push_str(&format!("struct N{} {{}}\n", i));
    }
    s.push_str(&format!("{}trait G {{}}\n", if coinductive { "#[coinductive] " } else { "" }));
    for (head, conds) in &impls {
        if conds.is_empty() {
            s.push_str(&format!("impl G for N{} {{}}\n", head));
        } else {
            let w: Vec<String> = conds.iter().map(|c| format!("N{}: G", c)).collect();
            s.push_str(&format!("impl G for N{} where {} {{}}\n", head, w.join(", ")));
        }
    }
    let mut goals = vec![format!("N{}: G", h)];
    let mut rest: Vec<usize> = q.iter().chain(p.iter()).cloned().collect();
    shuffle(rng, &mut rest);
    for x in &rest {
        goals.push(format!("N{}: G", x));
    }
    let x = rest[rng.usize_below(rest.len())];
    goals.push(format!("N{}: G, not {{ N{}: G }}", x, h));
    goals.push(format!("not {{ N{}: G }}, N{}: G", h, x));
    goals.push(format!("N{}: G", h));
    (s, n, goals)
}

fn shuffle_impls(rng: &mut Rng, v: &mut Vec<(usize, Vec<usize>)>) {
    for i in (1..v.len()).rev() {
        let j = rng.usize_below(i + 1);
        v.swap(i, j);
    }
}

/// Programs of blanket impls over marker traits (`impl<T> P for T where T: Q, T: R`) and a few
/// concrete impls (`impl P for X`): positive cycles that run through several tables with a shared
/// unknown, several overlapping cycles, clause order random.  Returns the text, the existential
/// goals (`exists<T> { T: P }`, one per trait) and the closed goals (`X: P`).
pub fn blanket_program(rng: &mut Rng) -> (String, Vec<String>, Vec<String>) {
    let nt = 3 + rng.usize_below(2);
    let ns = 1 + rng.usize_below(2);
    let mut s = String::new();
    for i in 0..nt {
        s.push_str(&format!("#[marker] trait M{} {{}}\n", i));
    }
    for j in 0..ns {
        s.push_str(&format!("struct X{} {{}}\n", j));
    }
    let mut impls: Vec<String> = vec![];
    for i in 0..nt {
        let k = 1 + rng.weighted(&[5, 4, 1]);
        for _ in 0..k {
            if rng.chance(1, 4) {
                impls.push(format!("impl M{} for X{} {{}}", i, rng.usize_below(ns)));
            } else {
                let nb = 1 + rng.weighted(&[5, 4, 1]);
                let mut bs: Vec<usize> = (0..nb).map(|_| rng.usize_below(nt)).collect();
                bs.dedup();
                if bs.iter().all(|b| *b == i) && rng.chance(2, 3) {
                    bs = vec![(i + 1) % nt];
                }
                let w: Vec<String> = bs.iter().map(|b| format!("T: M{}", b)).collect();
                impls.push(format!("impl<T> M{} for T where {} {{}}", i, w.join(", ")));
            }
        }
    }
    // at least one base case
    if !impls.iter().any(|l| !l.starts_with("impl<T>")) {
        impls.push(format!("impl M{} for X0 {{}}", rng.usize_below(nt)));
    }
    for i in (1..impls.len()).rev() {
        let j = rng.usize_below(i + 1);
        impls.swap(i, j);
    }
    for l in &impls {
        s.push_str(l);
        s.push('\n');
    }
    let ex: Vec<String> = (0..nt).map(|i| format!("exists<T> {{ T: M{} }}", i)).collect();
    let mut gr = vec![];
    for j in 0..ns {
        for i in 0..nt {
            gr.push(format!("X{}: M{}", j, i));
        }
    }
    (s, ex, gr)
}

/// Impls with long where-clause lists mixing closed conditions (`A: M1`), conditions that pin an
/// impl parameter (a trait with one impl) and conditions that leave it open (a trait with several
/// impls): the order of the where-clauses decides the order in which the recursive solver's
/// `Fulfill` sees informative, uninformative and ambiguous obligations.  One item per line.
pub fn wc_rich_items(rng: &mut Rng) -> (Vec<String>, Vec<String>) {
    let nm = 3 + rng.usize_below(2);
    let mut items: Vec<String> = vec!["struct A {}".into(), "struct B {}".into(), "struct S<T> {}".into(), "trait Foo {}".into()];
    for i in 0..nm {
        items.push(format!("trait M{} {{}}", i));
        // impls of Mi: for A, for B, or both; rarely none
        match rng.weighted(&[4, 3, 4, 1]) {
            0 => items.push(format!("impl M{} for A {{}}", i)),
            1 => items.push(format!("impl M{} for B {{}}", i)),
            2 => {
                items.push(format!("impl M{} for A {{}}", i));
                items.push(format!("impl M{} for B {{}}", i));
            }
            _ => {}
        }
    }
    let nimpl = 1 + rng.usize_below(2);
    for _ in 0..nimpl {
        let k = 3 + rng.usize_below(2);
        let mut wcs: Vec<String> = vec![];
        for _ in 0..k {
            let m = rng.usize_below(nm);
            let w = match rng.weighted(&[6, 2, 2]) {
                0 => format!("T: M{}", m),
                1 => format!("A: M{}", m),
                _ => format!("B: M{}", m),
            };
            if !wcs.contains(&w) {
                wcs.push(w);
            }
        }
        items.push(format!("impl<T> Foo for S<T> where {} {{}}", wcs.join(", ")));
    }
    let goals = vec!["exists<X> { S<X>: Foo }".to_string(), "S<A>: Foo".to_string(), "S<B>: Foo".to_string()];
    (items, goals)
}

/// Overlapping impls of a marker trait: tables with several answers, some of which are instances of
/// others (`V<P0>`, `V<A>`, `V<B>`, `W<A>` ..), declaration order random; a second trait defined
/// through the first.  Returns the program text and a pool of goals with one unknown.
pub fn overlap_program(rng: &mut Rng) -> (String, Vec<String>) {
    let pool = ["V<P0>", "V<A>", "V<B>", "W<A>", "W<P0>", "A", "B", "V<V<P0>>", "V<W<P0>>", "W<B>", "P<P0, P0>", "P<A, B>", "P<P0, B>", "P<V<P0>, P0>"];
    let k = 3 + rng.usize_below(5);
    let mut text = String::from("struct A {}\nstruct B {}\nstruct V<T> {}\nstruct W<T> {}\nstruct P<T, U> {}\n#[marker] trait M {}\n#[marker] trait N {}\n");
    for _ in 0..k {
        let h = pool[rng.usize_below(pool.len())];
        let b = if h.contains("P0") { "<P0>" } else { "" };
        let wc = if h.contains("P0") && rng.chance(1, 5) { " where P0: M" } else { "" };
        text.push_str(&format!("impl{} M for {}{} {{}}\n", b, h, wc));
    }
    if rng.chance(1, 2) {
        text.push_str("impl<P0> N for P0 where P0: M {}\n");
    } else {
        text.push_str("impl<P0> N for V<P0> where V<P0>: M {}\n");
    }
    let mut goals: Vec<String> = vec![
        "exists<T> { T: M }".into(),
        "exists<T> { V<T>: M }".into(),
        "exists<T> { T: N }".into(),
        "exists<T> { W<T>: M }".into(),
        "exists<T, U> { P<T, U>: M }".into(),
        "exists<T> { P<T, T>: M }".into(),
    ];
    for a in (1..goals.len()).rev() {
        let b = rng.usize_below(a + 1);
        goals.swap(a, b);
    }
    (text, goals)
}

/// `graph_shape` for programs of structs and auto traits: the nodes are the struct names `S<k>`, an edge
/// goes from a struct to every struct named in its field types, the start nodes are the structs named
/// in the goal.  (Type arguments are ignored: the shape is only a key for known findings.)
pub fn auto_shape(program_text: &str, goal_text: &str) -> &'static str {
    fn names(s: &str) -> Vec<usize> {
        let b = s.as_bytes();
        let mut v = vec![];
        let mut i = 0;
        while i < b.len() {
            if b[i] == b'S' && (i == 0 || !b[i - 1].is_ascii_alphanumeric()) {
                let mut j = i + 1;
                while j < b.len() && b[j].is_ascii_digit() {
                    j += 1;
                }
                if j > i + 1 {
                    v.push(s[i + 1..j].parse::<usize>().unwrap());
                }
                i = j;
            } else {
                i += 1;
            }
        }
        v
    }
    // rewrite as a graph-family program and reuse graph_shape
    let mut g = String::new();
    for line in program_text.split(|c| c == '\n' || c == '|') {
        let line = line.trim();
        if let Some(rest) = line.strip_prefix("struct S") {
            let head: usize = match rest.split(|c: char| !c.is_ascii_digit()).next().and_then(|d| d.parse().ok()) {
                Some(h) => h,
                None => continue,
            };
            let body = rest.split_once('{').map(|(_, b)| b).unwrap_or("");
            let conds: Vec<String> = names(body).iter().map(|c| format!("N{}: G", c)).collect();
            if conds.is_empty() {
                g.push_str(&format!("impl G for N{} {{}}\n", head));
            } else {
                g.push_str(&format!("impl G for N{} where {} {{}}\n", head, conds.join(", ")));
            }
        }
    }
    let goal: Vec<String> = names(goal_text).iter().map(|c| format!("N{}: G", c)).collect();
    graph_shape(&g, &goal.join(", "))
}
