//! Wire encodings of canonical substitutions and solutions; a first-order matcher on wire terms
//! used as an independent oracle for "is an instance of".
use crate::wire::*;
use chalk_integration::interner::ChalkIr;
use chalk_ir::*;
use chalk_solve::{Guidance, Solution};
use std::collections::BTreeMap;

pub fn enc_binders(b: &CanonicalVarKinds<ChalkIr>) -> Sexp {
    list(b.iter(I).map(|wk| list(vec![enc_varkind(&wk.kind), nat(wk.skip_kind().counter)])).collect())
}
pub fn dec_binders(s: &Sexp) -> Option<CanonicalVarKinds<ChalkIr>> {
    let v: Option<Vec<_>> = s
        .as_list()?
        .iter()
        .map(|b| {
            let xs = b.as_list()?;
            if xs.len() != 2 {
                return None;
            }
            Some(WithKind::new(dec_varkind(&xs[0])?, UniverseIndex { counter: xs[1].as_nat()? }))
        })
        .collect();
    Some(CanonicalVarKinds::from_iter(I, v?))
}
pub fn enc_canon_subst(c: &Canonical<Substitution<ChalkIr>>) -> Sexp {
    tagged("canon", vec![enc_binders(&c.binders), enc_subst(&c.value)])
}
pub fn dec_canon_subst(s: &Sexp) -> Option<Canonical<Substitution<ChalkIr>>> {
    match s.tagged()? {
        ("canon", [b, v]) => Some(Canonical { binders: dec_binders(b)?, value: dec_subst(v)? }),
        _ => None,
    }
}
pub fn enc_constraint(c: &InEnvironment<Constraint<ChalkIr>>) -> Sexp {
    match &c.goal {
        Constraint::LifetimeOutlives(a, b) => tagged("c-lt", vec![enc_lifetime(a), enc_lifetime(b)]),
        Constraint::TypeOutlives(t, l) => tagged("c-ty", vec![enc_ty(t), enc_lifetime(l)]),
    }
}
pub fn dec_constraint(s: &Sexp) -> Option<InEnvironment<Constraint<ChalkIr>>> {
    let goal = match s.tagged()? {
        ("c-lt", [a, b]) => Constraint::LifetimeOutlives(dec_lifetime(a)?, dec_lifetime(b)?),
        ("c-ty", [t, l]) => Constraint::TypeOutlives(dec_ty(t)?, dec_lifetime(l)?),
        _ => return None,
    };
    Some(InEnvironment::new(&Environment::new(I), goal))
}
pub fn enc_guidance(g: &Guidance<ChalkIr>) -> Sexp {
    match g {
        Guidance::Definite(c) => tagged("definite", vec![enc_canon_subst(c)]),
        Guidance::Suggested(c) => tagged("suggested", vec![enc_canon_subst(c)]),
        Guidance::Unknown => atom("unknown"),
    }
}
pub fn dec_guidance(s: &Sexp) -> Option<Guidance<ChalkIr>> {
    if s.as_atom() == Some("unknown") {
        return Some(Guidance::Unknown);
    }
    match s.tagged()? {
        ("definite", [c]) => Some(Guidance::Definite(dec_canon_subst(c)?)),
        ("suggested", [c]) => Some(Guidance::Suggested(dec_canon_subst(c)?)),
        _ => None,
    }
}
/// environments of constraints are dropped (they are empty in everything the harness builds;
/// for solver outputs the caller checks that)
pub fn enc_solution(s: &Solution<ChalkIr>) -> Sexp {
    match s {
        Solution::Unique(c) => tagged(
            "unique",
            vec![
                enc_binders(&c.binders),
                enc_subst(&c.value.subst),
                list(c.value.constraints.iter(I).map(enc_constraint).collect()),
            ],
        ),
        Solution::Ambig(g) => tagged("ambig", vec![enc_guidance(g)]),
    }
}
pub fn dec_solution(s: &Sexp) -> Option<Solution<ChalkIr>> {
    match s.tagged()? {
        ("unique", [b, v, cs]) => {
            let cs: Option<Vec<_>> = cs.as_list()?.iter().map(dec_constraint).collect();
            Some(Solution::Unique(Canonical {
                binders: dec_binders(b)?,
                value: ConstrainedSubst { subst: dec_subst(v)?, constraints: Constraints::from_iter(I, cs?) },
            }))
        }
        ("ambig", [g]) => Some(Solution::Ambig(dec_guidance(g)?)),
        _ => None,
    }
}

// ---------------------------------------------------------------- matcher

fn var_key(s: &Sexp, depth: usize) -> Option<(char, usize)> {
    let (t, xs) = s.tagged()?;
    match (t, xs) {
        ("bound", [d, i]) if d.as_nat()? == depth => Some(('t', i.as_nat()?)),
        ("lbound", [d, i]) if d.as_nat()? == depth => Some(('l', i.as_nat()?)),
        ("const", [_, v]) => match v.tagged()? {
            ("cbound", [d, i]) if d.as_nat()? == depth => Some(('c', i.as_nat()?)),
            _ => None,
        },
        _ => None,
    }
}

/// one-way matching: is `target` = `pattern[θ]` for a consistent assignment θ of the pattern's
/// variables `^depth.i`?  (Targets under binders are compared literally below the binder; sound for
/// the terms the aggregation layer produces, which never descend into binders.)
pub fn match_pattern(pattern: &Sexp, target: &Sexp, depth: usize, theta: &mut BTreeMap<(char, usize), Sexp>) -> bool {
    if let Some(k) = var_key(pattern, depth) {
        // kind must agree: a type variable matches a type, etc.
        let ok_kind = match k.0 {
            't' => is_ty(target),
            'l' => !is_ty(target) && !matches!(target.tagged(), Some(("const", _))),
            _ => matches!(target.tagged(), Some(("const", _))),
        };
        if !ok_kind {
            return false;
        }
        return match theta.get(&k) {
            Some(prev) => prev == target,
            None => {
                theta.insert(k, target.clone());
                true
            }
        };
    }
    match (pattern, target) {
        (Sexp::Atom(a), Sexp::Atom(b)) => a == b,
        (Sexp::List(xs), Sexp::List(ys)) => {
            if xs.len() != ys.len() {
                return false;
            }
            let d = match xs.first().and_then(|x| x.as_atom()) {
                Some("fn") | Some("dyn") | Some("qwc") => depth + 1,
                _ => depth,
            };
            xs.iter().zip(ys.iter()).all(|(x, y)| match_pattern(x, y, d, theta))
        }
        _ => false,
    }
}

pub fn instance_of(pattern: &Sexp, target: &Sexp) -> bool {
    match_pattern(pattern, target, 0, &mut BTreeMap::new())
}

/// variables `^0.i` of a term, with multiplicity
pub fn vars_of(s: &Sexp, depth: usize, out: &mut Vec<(char, usize)>) {
    if let Some(k) = var_key(s, depth) {
        out.push(k);
        return;
    }
    if let Sexp::List(xs) = s {
        let d = match xs.first().and_then(|x| x.as_atom()) {
            Some("fn") | Some("dyn") | Some("qwc") => depth + 1,
            _ => depth,
        };
        for x in xs {
            vars_of(x, d, out);
        }
    }
}
pub fn is_linear(s: &Sexp) -> bool {
    let mut v = vec![];
    vars_of(s, 0, &mut v);
    let n = v.len();
    v.sort();
    v.dedup();
    v.len() == n
}

/// The type annotation of every constant replaced by one fixed atom: corresponding constants of two
/// answers to one query have the same type by typing (the Rust code never compares them either), so
/// the "is an instance of" oracle must not tell terms apart by them.
pub fn erase_const_types(s: &Sexp) -> Sexp {
    match s {
        Sexp::Atom(_) => s.clone(),
        Sexp::List(xs) => {
            if let Some(("const", [_, v])) = s.tagged() {
                return tagged("const", vec![atom("_"), erase_const_types(v)]);
            }
            Sexp::List(xs.iter().map(erase_const_types).collect())
        }
    }
}
