//! Deterministic PRNG: every random choice of a case derives from (seed, property, case index).
#[derive(Clone)]
pub struct Rng(pub u64);

pub fn splitmix64(x: &mut u64) -> u64 {
    *x = x.wrapping_add(0x9E3779B97F4A7C15);
    let mut z = *x;
    z = (z ^ (z >> 30)).wrapping_mul(0xBF58476D1CE4E5B9);
    z = (z ^ (z >> 27)).wrapping_mul(0x94D049BB133111EB);
    z ^ (z >> 31)
}

impl Rng {
    pub fn for_case(seed: u64, prop: &str, stream: u64, index: u64) -> Rng {
        let mut s = seed ^ 0xC0FFEE;
        for b in prop.bytes() {
            s = s.wrapping_mul(0x100000001B3) ^ (b as u64);
        }
        let mut st = s ^ stream.wrapping_mul(0xD6E8FEB86659FD93) ^ index.wrapping_mul(0xA24BAED4963EE407);
        splitmix64(&mut st);
        Rng(st)
    }
    pub fn next(&mut self) -> u64 {
        splitmix64(&mut self.0)
    }
    /// uniform in 0..n (n > 0)
    pub fn below(&mut self, n: u64) -> u64 {
        self.next() % n
    }
    pub fn usize_below(&mut self, n: usize) -> usize {
        (self.next() % (n as u64)) as usize
    }
    pub fn chance(&mut self, num: u64, den: u64) -> bool {
        self.below(den) < num
    }
    pub fn pick<'a, T>(&mut self, xs: &'a [T]) -> &'a T {
        &xs[self.usize_below(xs.len())]
    }
    /// weighted choice: returns index
    pub fn weighted(&mut self, ws: &[u32]) -> usize {
        let total: u64 = ws.iter().map(|w| *w as u64).sum();
        let mut r = self.below(total);
        for (i, w) in ws.iter().enumerate() {
            if r < *w as u64 {
                return i;
            }
            r -= *w as u64;
        }
        ws.len() - 1
    }
}
