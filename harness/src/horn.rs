//! Translation of chalk's *lowered* `Program` and `Goal` (fragment F0: structs, traits, impls with
//! `Implemented` where-clauses; goals from trait predicates, `=`, `forall`, `if`, `not`, conjunction)
//! into the Horn wire format of `lean/ChalkModel/OpsSem.lean`.  Anything outside the fragment
//! yields `None` (counted by the caller as out-of-fragment, never silently dropped).
use crate::wire::*;
use chalk_integration::interner::ChalkIr;
use chalk_integration::program::Program;
use chalk_ir::*;
use chalk_solve::rust_ir::{ImplType, Polarity};

/// environment of a term translation: what each bound variable at each binder level stands for
#[derive(Clone)]
pub enum Bind {
    /// clause variables `(var i)` (impl parameters)
    Vars,
    /// explicit terms (fresh constants for `forall`, or caller-supplied)
    Terms(Vec<Sexp>),
}

pub fn app(name: &str, args: Vec<Sexp>) -> Sexp {
    let mut v = vec![atom("app"), atom(name)];
    v.extend(args);
    Sexp::List(v)
}

pub fn tm_of_ty(t: &Ty<ChalkIr>, env: &[Bind]) -> Option<Sexp> {
    Some(match t.kind(I) {
        TyKind::Adt(id, s) => app(&format!("adt{}", id.0.index), tms_of_subst(s, env)?),
        TyKind::Scalar(sc) => app(&format!("scalar{}", scalar_code(*sc)), vec![]),
        TyKind::Tuple(n, s) => app(&format!("tuple{}", n), tms_of_subst(s, env)?),
        TyKind::Slice(t) => app("slice", vec![tm_of_ty(t, env)?]),
        TyKind::Raw(m, t) => app(if *m == Mutability::Mut { "rawmut" } else { "rawconst" }, vec![tm_of_ty(t, env)?]),
        TyKind::Str => app("str", vec![]),
        TyKind::Never => app("never", vec![]),
        TyKind::Placeholder(p) => app(&format!("!{}_{}", p.ui.counter, p.idx), vec![]),
        TyKind::BoundVar(bv) => {
            let d = bv.debruijn.depth() as usize;
            match env.get(env.len().checked_sub(1 + d)?)? {
                Bind::Vars => tagged("var", vec![nat(bv.index)]),
                Bind::Terms(ts) => ts.get(bv.index)?.clone(),
            }
        }
        _ => return None,
    })
}

pub fn tms_of_subst(s: &Substitution<ChalkIr>, env: &[Bind]) -> Option<Vec<Sexp>> {
    s.iter(I)
        .map(|a| match a.data(I) {
            GenericArgData::Ty(t) => tm_of_ty(t, env),
            _ => None,
        })
        .collect()
}

pub fn atom_of_trait_ref(tr: &TraitRef<ChalkIr>, env: &[Bind]) -> Option<Sexp> {
    let mut v = vec![atom("atom"), atom(&format!("tr{}", tr.trait_id.0.index))];
    v.extend(tms_of_subst(&tr.substitution, env)?);
    Some(Sexp::List(v))
}

pub fn atom_of_wc(q: &QuantifiedWhereClause<ChalkIr>, env: &[Bind]) -> Option<Sexp> {
    if q.binders.len(I) != 0 {
        return None;
    }
    let mut env2 = env.to_vec();
    env2.push(Bind::Terms(vec![]));
    match q.skip_binders() {
        WhereClause::Implemented(tr) => atom_of_trait_ref(tr, &env2),
        _ => None,
    }
}

/// `(program (clauses) (coinductive predicates))`; None when some item is outside F0
pub fn program_to_horn(p: &Program) -> Option<Sexp> {
    let mut clauses = vec![];
    for (_, d) in &p.impl_data {
        if d.polarity != Polarity::Positive || d.impl_type != ImplType::Local {
            return None;
        }
        if !d.associated_ty_value_ids.is_empty() {
            return None;
        }
        if d.binders.binders.iter(I).any(|k| !matches!(k, VariableKind::Ty(TyVariableKind::General))) {
            return None;
        }
        let b = d.binders.skip_binders();
        let env = [Bind::Vars];
        let head = atom_of_trait_ref(&b.trait_ref, &env)?;
        let body: Option<Vec<Sexp>> = b.where_clauses.iter().map(|w| atom_of_wc(w, &env)).collect();
        clauses.push(tagged("clause", vec![head, list(body?)]));
    }
    let mut co = vec![];
    for (id, t) in &p.trait_data {
        let f = &t.flags;
        // (`#[marker]` only switches the overlap check off, chalk-solve/src/coherence/solve.rs: the
        // clauses of a marker trait's impls are those of an ordinary trait)
        if f.auto || f.fundamental || t.well_known.is_some() || !t.associated_ty_ids.is_empty() {
            return None;
        }
        if !t.binders.skip_binders().where_clauses.is_empty() {
            return None;
        }
        if f.coinductive {
            co.push(atom(&format!("tr{}", id.0.index)));
        }
    }
    for (_, a) in &p.adt_data {
        if !a.binders.skip_binders().where_clauses.is_empty() {
            return None;
        }
    }
    if !p.custom_clauses.is_empty() || !p.opaque_ty_data.is_empty() || !p.associated_ty_data.is_empty() {
        return None;
    }
    Some(tagged("program", vec![list(clauses), list(co)]))
}

/// closed goal → Horn goal; `forall` variables become fresh opaque constants `!fN`
pub fn goal_to_horn(g: &Goal<ChalkIr>, env: &mut Vec<Bind>, fresh: &mut usize) -> Option<Sexp> {
    Some(match g.data(I) {
        GoalData::Quantified(QuantifierKind::ForAll, b) => {
            let ts: Vec<Sexp> = b
                .binders
                .iter(I)
                .map(|k| match k {
                    VariableKind::Ty(TyVariableKind::General) => {
                        *fresh += 1;
                        Some(app(&format!("!f{}", *fresh), vec![]))
                    }
                    _ => None,
                })
                .collect::<Option<_>>()?;
            env.push(Bind::Terms(ts));
            let r = goal_to_horn(b.skip_binders(), env, fresh);
            env.pop();
            r?
        }
        GoalData::Quantified(QuantifierKind::Exists, _) => return None,
        GoalData::Implies(clauses, sub) => {
            let mut hyps = vec![];
            for c in clauses.iter(I) {
                let d = c.data(I);
                if d.0.binders.len(I) != 0 {
                    return None;
                }
                let imp = d.0.skip_binders();
                if !imp.conditions.is_empty(I) || !imp.constraints.is_empty(I) {
                    return None;
                }
                env.push(Bind::Terms(vec![]));
                let a = match &imp.consequence {
                    DomainGoal::FromEnv(FromEnv::Trait(tr)) => atom_of_trait_ref(tr, env),
                    DomainGoal::Holds(WhereClause::Implemented(tr)) => atom_of_trait_ref(tr, env),
                    _ => None,
                };
                env.pop();
                hyps.push(a?);
            }
            tagged("implies", vec![list(hyps), goal_to_horn(sub, env, fresh)?])
        }
        GoalData::All(gs) => {
            let mut acc = atom("tt");
            let v: Vec<Sexp> = gs.iter(I).map(|x| goal_to_horn(x, env, fresh)).collect::<Option<_>>()?;
            for x in v.into_iter().rev() {
                acc = if acc == atom("tt") { x } else { tagged("and", vec![x, acc]) };
            }
            acc
        }
        GoalData::Not(sub) => tagged("not", vec![goal_to_horn(sub, env, fresh)?]),
        GoalData::EqGoal(e) => match (e.a.data(I), e.b.data(I)) {
            (GenericArgData::Ty(a), GenericArgData::Ty(b)) => tagged("eq", vec![tm_of_ty(a, env)?, tm_of_ty(b, env)?]),
            _ => return None,
        },
        GoalData::DomainGoal(dg) => atom_of_domain_goal(dg, env)?,
        _ => return None,
    })
}

/// The peeled, canonical query (`into_peeled_goal`): environment clauses become hypotheses,
/// canonical existential variables `^0.k` become `(var k)`, placeholders opaque constants.
/// Returns (goal, number of query variables).
pub fn peeled_to_horn(q: &UCanonical<InEnvironment<Goal<ChalkIr>>>) -> Option<(Sexp, usize)> {
    let binders = &q.canonical.binders;
    if binders.iter(I).any(|b| !matches!(b.kind, VariableKind::Ty(TyVariableKind::General))) {
        return None;
    }
    let n = binders.len(I);
    let v = &q.canonical.value;
    let mut env = vec![Bind::Vars];
    let mut hyps = vec![];
    for c in v.environment.clauses.iter(I) {
        let d = c.data(I);
        if d.0.binders.len(I) != 0 {
            return None;
        }
        let imp = d.0.skip_binders();
        if !imp.conditions.is_empty(I) || !imp.constraints.is_empty(I) {
            return None;
        }
        env.push(Bind::Terms(vec![]));
        let a = match &imp.consequence {
            DomainGoal::FromEnv(FromEnv::Trait(tr)) => atom_of_trait_ref(tr, &env),
            DomainGoal::Holds(WhereClause::Implemented(tr)) => atom_of_trait_ref(tr, &env),
            _ => None,
        };
        env.pop();
        hyps.push(a?);
    }
    let g = goal_to_horn(&v.goal, &mut env, &mut 0)?;
    let g = if hyps.is_empty() { g } else { tagged("implies", vec![list(hyps), g]) };
    Some((g, n))
}

/// `(name arity)` list of the program's type constructors, plus two scalars and an opaque constant
pub fn signature(p: &Program) -> Sexp {
    let mut v = vec![];
    for (id, d) in &p.adt_data {
        v.push(list(vec![atom(&format!("adt{}", id.0.index)), nat(d.binders.len(I))]));
    }
    v.push(list(vec![atom(&format!("scalar{}", scalar_code(Scalar::Uint(UintTy::U32)))), nat(0)]));
    v.push(list(vec![atom("!c0"), nat(0)]));
    list(v)
}

/// a solver answer as the wire `Answer` of Contract.lean; None = outside the fragment
pub fn answer_to_horn(r: &Option<chalk_solve::Solution<ChalkIr>>) -> Option<Sexp> {
    use chalk_solve::{Guidance, Solution};
    let subst = |s: &Substitution<ChalkIr>| -> Option<Sexp> { Some(list(tms_of_subst(s, &[Bind::Vars])?)) };
    Some(match r {
        None => atom("none"),
        Some(Solution::Unique(c)) => {
            if !c.value.constraints.is_empty(I) {
                return None;
            }
            tagged("unique", vec![subst(&c.value.subst)?])
        }
        Some(Solution::Ambig(Guidance::Definite(c))) => tagged("definite", vec![subst(&c.value)?]),
        Some(Solution::Ambig(_)) => atom("ambig"),
    })
}

/// C05: the program *data* for `AutoTraits.lean` (`autoProgram`): ADTs with their field types,
/// explicit positive impls as clauses, (auto trait, constructor) pairs with an explicit or negative
/// impl, auto and coinductive trait names.  None when outside the fragment.
pub fn program_to_auto_data(p: &Program) -> Option<Sexp> {
    let mut adts = vec![];
    for (id, d) in &p.adt_data {
        if d.flags.phantom_data || !d.binders.skip_binders().where_clauses.is_empty() {
            return None;
        }
        if d.binders.binders.iter(I).any(|k| !matches!(k, VariableKind::Ty(TyVariableKind::General))) {
            return None;
        }
        let env = [Bind::Vars];
        let mut fields = vec![];
        for v in &d.binders.skip_binders().variants {
            for f in &v.fields {
                fields.push(tm_of_ty(f, &env)?);
            }
        }
        adts.push(list(vec![atom(&format!("adt{}", id.0.index)), nat(d.binders.len(I)), list(fields)]));
    }
    let mut autos = vec![];
    let mut cos = vec![];
    for (id, t) in &p.trait_data {
        let f = &t.flags;
        if f.marker || f.fundamental || t.well_known.is_some() || !t.associated_ty_ids.is_empty() {
            return None;
        }
        if !t.binders.skip_binders().where_clauses.is_empty() {
            return None;
        }
        if f.auto {
            autos.push(atom(&format!("tr{}", id.0.index)));
        } else if f.coinductive {
            cos.push(atom(&format!("tr{}", id.0.index)));
        }
    }
    let mut impls = vec![];
    let mut provided = vec![];
    for (_, d) in &p.impl_data {
        if d.impl_type != ImplType::Local || !d.associated_ty_value_ids.is_empty() {
            return None;
        }
        if d.binders.binders.iter(I).any(|k| !matches!(k, VariableKind::Ty(TyVariableKind::General))) {
            return None;
        }
        let b = d.binders.skip_binders();
        let tr_name = format!("tr{}", b.trait_ref.trait_id.0.index);
        let is_auto = p.trait_data[&b.trait_ref.trait_id].flags.auto;
        if is_auto {
            match b.trait_ref.self_type_parameter(I).kind(I) {
                TyKind::Adt(id, _) => provided.push(list(vec![atom(&tr_name), atom(&format!("adt{}", id.0.index))])),
                TyKind::Scalar(sc) => provided.push(list(vec![atom(&tr_name), atom(&format!("scalar{}", scalar_code(*sc)))])),
                _ => return None,
            }
        }
        if d.polarity == Polarity::Positive {
            let env = [Bind::Vars];
            let head = atom_of_trait_ref(&b.trait_ref, &env)?;
            let body: Option<Vec<Sexp>> = b.where_clauses.iter().map(|w| atom_of_wc(w, &env)).collect();
            impls.push(tagged("clause", vec![head, list(body?)]));
        }
    }
    if !p.custom_clauses.is_empty() || !p.opaque_ty_data.is_empty() || !p.associated_ty_data.is_empty() {
        return None;
    }
    let leaves = list(vec![atom(&format!("scalar{}", scalar_code(Scalar::Uint(UintTy::U32)))), atom(&format!("scalar{}", scalar_code(Scalar::Bool)))]);
    Some(tagged("auto-data", vec![list(adts), leaves, list(vec![]), list(impls), list(provided), list(autos), list(cos)]))
}

/// C06 (fragment F1): impl clauses plus the environment clauses of every trait (see Props/C06.lean):
/// `tr(x̄) :- env:tr(x̄)` and `env:w(x̄) :- env:tr(x̄)` for each `Implemented` where-clause of the trait.
pub fn program_to_horn_env(p: &Program) -> Option<Sexp> {
    let mut clauses = vec![];
    for (_, d) in &p.impl_data {
        if d.polarity != Polarity::Positive || d.impl_type != ImplType::Local || !d.associated_ty_value_ids.is_empty() {
            return None;
        }
        if d.binders.binders.iter(I).any(|k| !matches!(k, VariableKind::Ty(TyVariableKind::General))) {
            return None;
        }
        let b = d.binders.skip_binders();
        let env = [Bind::Vars];
        let head = atom_of_trait_ref(&b.trait_ref, &env)?;
        let body: Option<Vec<Sexp>> = b.where_clauses.iter().map(|w| atom_of_wc(w, &env)).collect();
        clauses.push(tagged("clause", vec![head, list(body?)]));
    }
    let envify = |a: &Sexp| -> Sexp {
        match a {
            Sexp::List(xs) => {
                let mut v = xs.clone();
                v[1] = atom(&format!("env:{}", xs[1].as_atom().unwrap()));
                Sexp::List(v)
            }
            x => x.clone(),
        }
    };
    for (id, t) in &p.trait_data {
        let f = &t.flags;
        if f.auto || f.marker || f.fundamental || f.coinductive || t.well_known.is_some() || !t.associated_ty_ids.is_empty() {
            return None;
        }
        if t.binders.binders.iter(I).any(|k| !matches!(k, VariableKind::Ty(TyVariableKind::General))) {
            return None;
        }
        let n = t.binders.len(I);
        let mut head = vec![atom("atom"), atom(&format!("tr{}", id.0.index))];
        head.extend((0..n).map(|i| tagged("var", vec![nat(i)])));
        let head = Sexp::List(head);
        clauses.push(tagged("clause", vec![head.clone(), list(vec![envify(&head)])]));
        let env = [Bind::Vars];
        for w in &t.binders.skip_binders().where_clauses {
            let wa = atom_of_wc(w, &env)?;
            clauses.push(tagged("clause", vec![envify(&wa), list(vec![envify(&head)])]));
        }
    }
    for (_, a) in &p.adt_data {
        if !a.binders.skip_binders().where_clauses.is_empty() {
            return None;
        }
    }
    if !p.custom_clauses.is_empty() || !p.opaque_ty_data.is_empty() || !p.associated_ty_data.is_empty() {
        return None;
    }
    Some(tagged("program", vec![list(clauses), list(vec![])]))
}

/// rename hypothesis atoms `trN` under `implies` to `env:trN`
pub fn env_hyps(g: &Sexp) -> Sexp {
    match g.tagged() {
        Some(("implies", [hs, sub])) => {
            let hs2: Vec<Sexp> = hs
                .as_list()
                .unwrap()
                .iter()
                .map(|a| match a {
                    Sexp::List(xs) => {
                        let mut v = xs.clone();
                        v[1] = atom(&format!("env:{}", xs[1].as_atom().unwrap()));
                        Sexp::List(v)
                    }
                    x => x.clone(),
                })
                .collect();
            tagged("implies", vec![list(hs2), env_hyps(sub)])
        }
        Some(("and", [a, b])) => tagged("and", vec![env_hyps(a), env_hyps(b)]),
        Some(("not", [a])) => tagged("not", vec![env_hyps(a)]),
        _ => g.clone(),
    }
}

/// C07 (fragment F2): traits with (non-generic) associated types, impls giving their values.
///   tr(x̄)              :- impl where-clauses                       (Implemented-From-Impl)
///   norm:A(x̄, value)   :- impl where-clauses                       (Normalize-From-Impl)
///   aeq:A(x̄, u)        :- norm:A(x̄, u)                             (AliasEq-Normalize)
///   aeq:A(x̄, assocty:A(x̄))                                          (AliasEq-Placeholder)
/// Values must not mention projections (counted out of fragment otherwise).
pub fn program_to_horn_assoc(p: &Program) -> Option<Sexp> {
    let mut clauses = vec![];
    for (_, d) in &p.impl_data {
        if d.polarity != Polarity::Positive || d.impl_type != ImplType::Local {
            return { if std::env::var("VERIF_DEBUG").is_ok() { eprintln!("assoc-fragment exit 1"); } None };
        }
        if d.binders.binders.iter(I).any(|k| !matches!(k, VariableKind::Ty(TyVariableKind::General))) {
            return { if std::env::var("VERIF_DEBUG").is_ok() { eprintln!("assoc-fragment exit 2"); } None };
        }
        let b = d.binders.skip_binders();
        let env = [Bind::Vars];
        let head = atom_of_trait_ref(&b.trait_ref, &env)?;
        let body: Vec<Sexp> = b.where_clauses.iter().map(|w| atom_of_wc(w, &env)).collect::<Option<_>>()?;
        clauses.push(tagged("clause", vec![head, list(body.clone())]));
        for vid in &d.associated_ty_value_ids {
            let v = &p.associated_ty_values[vid];
            // the value's binders are the associated type's own parameters (none here) followed by
            // the impl's parameters
            if v.value.binders.len(I) != d.binders.len(I) {
                return { if std::env::var("VERIF_DEBUG").is_ok() { eprintln!("assoc-fragment exit 3"); } None };
            }
            let value = tm_of_ty(&v.value.skip_binders().ty, &env)?;
            let mut h = vec![atom("atom"), atom(&format!("norm:{}", v.associated_ty_id.0.index))];
            h.extend(tms_of_subst(&b.trait_ref.substitution, &env)?);
            h.push(value);
            clauses.push(tagged("clause", vec![Sexp::List(h), list(body.clone())]));
        }
    }
    for (id, t) in &p.trait_data {
        let f = &t.flags;
        if f.auto || f.marker || f.fundamental || f.coinductive || t.well_known.is_some() {
            return { if std::env::var("VERIF_DEBUG").is_ok() { eprintln!("assoc-fragment exit 4"); } None };
        }
        if !t.binders.skip_binders().where_clauses.is_empty() {
            return { if std::env::var("VERIF_DEBUG").is_ok() { eprintln!("assoc-fragment exit 5"); } None };
        }
        if t.binders.binders.iter(I).any(|k| !matches!(k, VariableKind::Ty(TyVariableKind::General))) {
            return { if std::env::var("VERIF_DEBUG").is_ok() { eprintln!("assoc-fragment exit 6"); } None };
        }
        let n = t.binders.len(I);
        for aid in &t.associated_ty_ids {
            let a = &p.associated_ty_data[aid];
            // no GAT parameters, no bounds / where-clauses on the associated type
            if a.binders.len(I) != n || !a.binders.skip_binders().bounds.is_empty() || !a.binders.skip_binders().where_clauses.is_empty() {
                return { if std::env::var("VERIF_DEBUG").is_ok() { eprintln!("assoc-fragment exit 7"); } None };
            }
            let vars: Vec<Sexp> = (0..n).map(|i| tagged("var", vec![nat(i)])).collect();
            let u = tagged("var", vec![nat(n)]);
            let mk = |pred: &str, last: Sexp| {
                let mut h = vec![atom("atom"), atom(&format!("{}:{}", pred, aid.0.index))];
                h.extend(vars.clone());
                h.push(last);
                Sexp::List(h)
            };
            clauses.push(tagged("clause", vec![mk("aeq", u.clone()), list(vec![mk("norm", u.clone())])]));
            clauses.push(tagged("clause", vec![mk("aeq", app(&format!("assocty:{}", aid.0.index), vars.clone())), list(vec![])]));
        }
        let _ = id;
    }
    for (_, a) in &p.adt_data {
        if !a.binders.skip_binders().where_clauses.is_empty() {
            return { if std::env::var("VERIF_DEBUG").is_ok() { eprintln!("assoc-fragment exit 8"); } None };
        }
    }
    if !p.custom_clauses.is_empty() || !p.opaque_ty_data.is_empty() {
        return { if std::env::var("VERIF_DEBUG").is_ok() { eprintln!("assoc-fragment exit 9"); } None };
    }
    Some(tagged("program", vec![list(clauses), list(vec![])]))
}

/// Normalize / AliasEq domain goals as atoms (used by `goal_to_horn` through this hook)
pub fn atom_of_domain_goal(dg: &DomainGoal<ChalkIr>, env: &[Bind]) -> Option<Sexp> {
    let proj = |alias: &AliasTy<ChalkIr>, ty: &Ty<ChalkIr>, pred: &str| -> Option<Sexp> {
        match alias {
            AliasTy::Projection(p) => {
                let mut h = vec![atom("atom"), atom(&format!("{}:{}", pred, p.associated_ty_id.0.index))];
                h.extend(tms_of_subst(&p.substitution, env)?);
                h.push(tm_of_ty(ty, env)?);
                Some(Sexp::List(h))
            }
            _ => None,
        }
    };
    match dg {
        DomainGoal::Holds(WhereClause::Implemented(tr)) => atom_of_trait_ref(tr, env),
        DomainGoal::Normalize(n) => proj(&n.alias, &n.ty, "norm"),
        DomainGoal::Holds(WhereClause::AliasEq(ae)) => proj(&ae.alias, &ae.ty, "aeq"),
        _ => None,
    }
}

/// C21: impl clauses, `wf(S(x̄)) :- struct where-clauses, wf(x_i)..` (hereditary), `wf(scalar)`, and the implications the
/// property promises for an ACCEPTED program:
///   trait Tr<P̄> where W :   wf(Self), wf(P_i).., Tr(Self, P̄)  ⇒  W
///   struct S<x̄> { f }   :   wf(S(x̄))                          ⇒  wf(f)
/// Returns (program, implications).
pub fn program_to_horn_wf(p: &Program) -> Option<(Sexp, Sexp)> {
    let mut clauses = vec![];
    let mut imps = vec![];
    let var = |i: usize| tagged("var", vec![nat(i)]);
    let wf = |t: Sexp| Sexp::List(vec![atom("atom"), atom("wf"), t]);
    for (_, d) in &p.impl_data {
        if d.polarity != Polarity::Positive || d.impl_type != ImplType::Local || !d.associated_ty_value_ids.is_empty() {
            return None;
        }
        if d.binders.binders.iter(I).any(|k| !matches!(k, VariableKind::Ty(TyVariableKind::General))) {
            return None;
        }
        let b = d.binders.skip_binders();
        let env = [Bind::Vars];
        let head = atom_of_trait_ref(&b.trait_ref, &env)?;
        let body: Option<Vec<Sexp>> = b.where_clauses.iter().map(|w| atom_of_wc(w, &env)).collect();
        clauses.push(tagged("clause", vec![head, list(body?)]));
    }
    for (id, t) in &p.trait_data {
        let f = &t.flags;
        if f.auto || f.marker || f.fundamental || f.coinductive || t.well_known.is_some() || !t.associated_ty_ids.is_empty() {
            return None;
        }
        if t.binders.binders.iter(I).any(|k| !matches!(k, VariableKind::Ty(TyVariableKind::General))) {
            return None;
        }
        let n = t.binders.len(I);
        let mut head = vec![atom("atom"), atom(&format!("tr{}", id.0.index))];
        head.extend((0..n).map(var));
        let mut prem: Vec<Sexp> = (0..n).map(|i| wf(var(i))).collect();
        prem.push(Sexp::List(head));
        let env = [Bind::Vars];
        for w in &t.binders.skip_binders().where_clauses {
            imps.push(list(vec![nat(n), list(prem.clone()), atom_of_wc(w, &env)?]));
        }
    }
    for (id, a) in &p.adt_data {
        if a.binders.binders.iter(I).any(|k| !matches!(k, VariableKind::Ty(TyVariableKind::General))) {
            return None;
        }
        let n = a.binders.len(I);
        let env = [Bind::Vars];
        let me = app(&format!("adt{}", id.0.index), (0..n).map(var).collect());
        // hereditary well-formedness: the struct's where-clauses hold and every argument is well-formed
        let mut body: Vec<Sexp> = a.binders.skip_binders().where_clauses.iter().map(|w| atom_of_wc(w, &env)).collect::<Option<_>>()?;
        body.extend((0..n).map(|i| wf(var(i))));
        clauses.push(tagged("clause", vec![wf(me.clone()), list(body)]));
        for v in &a.binders.skip_binders().variants {
            for f in &v.fields {
                imps.push(list(vec![nat(n), list(vec![wf(me.clone())]), wf(tm_of_ty(f, &env)?)]));
            }
        }
    }
    for c in [scalar_code(Scalar::Uint(UintTy::U32)), scalar_code(Scalar::Bool), scalar_code(Scalar::Int(IntTy::I32))] {
        clauses.push(tagged("clause", vec![wf(app(&format!("scalar{}", c), vec![])), list(vec![])]));
    }
    clauses.push(tagged("clause", vec![wf(app("!c0", vec![])), list(vec![])]));
    if !p.custom_clauses.is_empty() || !p.opaque_ty_data.is_empty() || !p.associated_ty_data.is_empty() {
        return None;
    }
    Some((tagged("program", vec![list(clauses), list(vec![])]), list(imps)))
}

/// Can a cycle of goals mix coinductive and inductive traits?  Decided conservatively on the TRAIT
/// dependency graph (an edge from the trait of an impl to every trait in the impl's where-clauses):
/// true when some strongly connected component holds a coinductive (or auto) and an ordinary trait.
/// The properties that speak of "the program's logical meaning" exclude such programs ("no mixed
/// cycles": chalk answers them with an error value that has no fixed-point reading, F24).
pub fn has_mixed_trait_cycle(p: &Program) -> bool {
    use std::collections::{BTreeMap, BTreeSet};
    let mut succ: BTreeMap<u32, BTreeSet<u32>> = BTreeMap::new();
    for (_, d) in &p.impl_data {
        let b = d.binders.skip_binders();
        let from = b.trait_ref.trait_id.0.index;
        for w in &b.where_clauses {
            if let WhereClause::Implemented(t) = w.skip_binders() {
                succ.entry(from).or_default().insert(t.trait_id.0.index);
            }
        }
    }
    for c in &p.custom_clauses {
        // custom clauses: every trait in the conditions is a successor of the consequence's trait
        let _ = c;
    }
    let reaches = |a: u32, b: u32| -> bool {
        let mut seen = BTreeSet::new();
        let mut todo: Vec<u32> = succ.get(&a).map(|s| s.iter().cloned().collect()).unwrap_or_default();
        while let Some(x) = todo.pop() {
            if x == b {
                return true;
            }
            if seen.insert(x) {
                if let Some(s) = succ.get(&x) {
                    todo.extend(s.iter().cloned());
                }
            }
        }
        false
    };
    let co: Vec<u32> = p.trait_data.iter().filter(|(_, t)| t.flags.coinductive || t.flags.auto).map(|(id, _)| id.0.index).collect();
    let ind: Vec<u32> = p.trait_data.iter().filter(|(_, t)| !(t.flags.coinductive || t.flags.auto)).map(|(id, _)| id.0.index).collect();
    co.iter().any(|&a| ind.iter().any(|&b| reaches(a, b) && reaches(b, a)))
}
