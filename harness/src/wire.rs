//! S-expression wire format shared with lean/ChalkModel/Wire.lean.
//! chalk-ir values are serialised by walking `TyKind` etc. structurally (never `Debug` output).
use chalk_integration::interner::{ChalkFnAbi, ChalkIr, RawId};
use chalk_ir::*;

#[derive(Clone, Debug, PartialEq, Eq, Hash, PartialOrd, Ord)]
pub enum Sexp {
    Atom(String),
    List(Vec<Sexp>),
}

pub fn atom(s: &str) -> Sexp {
    Sexp::Atom(s.to_string())
}
pub fn nat(n: usize) -> Sexp {
    Sexp::Atom(n.to_string())
}
pub fn list(xs: Vec<Sexp>) -> Sexp {
    Sexp::List(xs)
}
pub fn tagged(tag: &str, mut xs: Vec<Sexp>) -> Sexp {
    let mut v = vec![atom(tag)];
    v.append(&mut xs);
    Sexp::List(v)
}

impl std::fmt::Display for Sexp {
    fn fmt(&self, f: &mut std::fmt::Formatter<'_>) -> std::fmt::Result {
        match self {
            Sexp::Atom(s) => write!(f, "{}", s),
            Sexp::List(xs) => {
                write!(f, "(")?;
                for (i, x) in xs.iter().enumerate() {
                    if i > 0 {
                        write!(f, " ")?;
                    }
                    write!(f, "{}", x)?;
                }
                write!(f, ")")
            }
        }
    }
}

pub fn parse(s: &str) -> Option<Sexp> {
    let mut toks: Vec<String> = vec![];
    let mut cur = String::new();
    for c in s.chars() {
        if c == '(' || c == ')' {
            if !cur.is_empty() {
                toks.push(std::mem::take(&mut cur));
            }
            toks.push(c.to_string());
        } else if c.is_whitespace() {
            if !cur.is_empty() {
                toks.push(std::mem::take(&mut cur));
            }
        } else {
            cur.push(c);
        }
    }
    if !cur.is_empty() {
        toks.push(cur);
    }
    let mut pos = 0;
    let r = parse_toks(&toks, &mut pos)?;
    if pos == toks.len() {
        Some(r)
    } else {
        None
    }
}

fn parse_toks(toks: &[String], pos: &mut usize) -> Option<Sexp> {
    let t = toks.get(*pos)?;
    *pos += 1;
    if t == "(" {
        let mut xs = vec![];
        loop {
            let t2 = toks.get(*pos)?;
            if t2 == ")" {
                *pos += 1;
                return Some(Sexp::List(xs));
            }
            xs.push(parse_toks(toks, pos)?);
        }
    } else if t == ")" {
        None
    } else {
        Some(Sexp::Atom(t.clone()))
    }
}

impl Sexp {
    pub fn as_nat(&self) -> Option<usize> {
        match self {
            Sexp::Atom(s) => s.parse().ok(),
            _ => None,
        }
    }
    pub fn as_atom(&self) -> Option<&str> {
        match self {
            Sexp::Atom(s) => Some(s),
            _ => None,
        }
    }
    pub fn as_list(&self) -> Option<&[Sexp]> {
        match self {
            Sexp::List(xs) => Some(xs),
            _ => None,
        }
    }
    /// (tag a b c) -> Some(("tag", [a,b,c]))
    pub fn tagged(&self) -> Option<(&str, &[Sexp])> {
        let xs = self.as_list()?;
        let t = xs.first()?.as_atom()?;
        Some((t, &xs[1..]))
    }
    pub fn size(&self) -> usize {
        match self {
            Sexp::Atom(_) => 1,
            Sexp::List(xs) => 1 + xs.iter().map(|x| x.size()).sum::<usize>(),
        }
    }
}

pub const I: ChalkIr = ChalkIr;

pub fn raw(i: usize) -> RawId {
    RawId { index: i as u32 }
}

// ---------------------------------------------------------------- scalars, sigs

pub fn scalar_code(s: Scalar) -> usize {
    match s {
        Scalar::Bool => 0,
        Scalar::Char => 1,
        Scalar::Int(i) => {
            10 + match i {
                IntTy::Isize => 0,
                IntTy::I8 => 1,
                IntTy::I16 => 2,
                IntTy::I32 => 3,
                IntTy::I64 => 4,
                IntTy::I128 => 5,
            }
        }
        Scalar::Uint(i) => {
            20 + match i {
                UintTy::Usize => 0,
                UintTy::U8 => 1,
                UintTy::U16 => 2,
                UintTy::U32 => 3,
                UintTy::U64 => 4,
                UintTy::U128 => 5,
            }
        }
        Scalar::Float(f) => {
            30 + match f {
                FloatTy::F16 => 0,
                FloatTy::F32 => 1,
                FloatTy::F64 => 2,
                FloatTy::F128 => 3,
            }
        }
    }
}

pub const SCALAR_CODES: [usize; 18] = [0, 1, 10, 11, 12, 13, 14, 15, 20, 21, 22, 23, 24, 25, 30, 31, 32, 33];

pub fn scalar_of_code(c: usize) -> Option<Scalar> {
    Some(match c {
        0 => Scalar::Bool,
        1 => Scalar::Char,
        10 => Scalar::Int(IntTy::Isize),
        11 => Scalar::Int(IntTy::I8),
        12 => Scalar::Int(IntTy::I16),
        13 => Scalar::Int(IntTy::I32),
        14 => Scalar::Int(IntTy::I64),
        15 => Scalar::Int(IntTy::I128),
        20 => Scalar::Uint(UintTy::Usize),
        21 => Scalar::Uint(UintTy::U8),
        22 => Scalar::Uint(UintTy::U16),
        23 => Scalar::Uint(UintTy::U32),
        24 => Scalar::Uint(UintTy::U64),
        25 => Scalar::Uint(UintTy::U128),
        30 => Scalar::Float(FloatTy::F16),
        31 => Scalar::Float(FloatTy::F32),
        32 => Scalar::Float(FloatTy::F64),
        33 => Scalar::Float(FloatTy::F128),
        _ => return None,
    })
}

pub fn sig_code(sig: &FnSig<ChalkIr>) -> usize {
    let abi = match sig.abi {
        ChalkFnAbi::Rust => 0,
        ChalkFnAbi::C => 1,
    };
    let safety = match sig.safety {
        Safety::Safe => 0,
        Safety::Unsafe => 1,
    };
    abi * 4 + safety * 2 + (sig.variadic as usize)
}

pub fn sig_of_code(c: usize) -> FnSig<ChalkIr> {
    FnSig {
        abi: if (c / 4) % 2 == 1 { ChalkFnAbi::C } else { ChalkFnAbi::Rust },
        safety: if (c / 2) % 2 == 1 { Safety::Unsafe } else { Safety::Safe },
        variadic: c % 2 == 1,
    }
}

// ---------------------------------------------------------------- encoders

fn mut_bit(m: Mutability) -> Sexp {
    match m {
        Mutability::Mut => atom("1"),
        Mutability::Not => atom("0"),
    }
}

pub fn enc_tykind_var(k: TyVariableKind) -> Sexp {
    match k {
        TyVariableKind::General => atom("g"),
        TyVariableKind::Integer => atom("i"),
        TyVariableKind::Float => atom("f"),
    }
}

pub fn enc_varkind(k: &VariableKind<ChalkIr>) -> Sexp {
    match k {
        VariableKind::Ty(tk) => tagged("kty", vec![enc_tykind_var(*tk)]),
        VariableKind::Lifetime => atom("klt"),
        VariableKind::Const(ty) => match ty.kind(I) {
            TyKind::Scalar(s) => tagged("kconst", vec![nat(scalar_code(*s))]),
            _ => tagged("kconst", vec![nat(0)]), // non-scalar const types have code 0 (as `Ty.scalarCode`)
        },
    }
}

pub fn enc_kinds(ks: &VariableKinds<ChalkIr>) -> Sexp {
    list(ks.iter(I).map(enc_varkind).collect())
}

pub fn enc_lifetime(l: &Lifetime<ChalkIr>) -> Sexp {
    match l.data(I) {
        LifetimeData::BoundVar(bv) => tagged("lbound", vec![nat(bv.debruijn.depth() as usize), nat(bv.index)]),
        LifetimeData::InferenceVar(v) => tagged("linfer", vec![nat(v.index() as usize)]),
        LifetimeData::Placeholder(p) => tagged("lph", vec![nat(p.ui.counter), nat(p.idx)]),
        LifetimeData::Static => atom("static"),
        LifetimeData::Erased => atom("erased"),
        LifetimeData::Error => atom("lerror"),
        LifetimeData::Phantom(..) => unreachable!(),
    }
}

pub fn enc_const(c: &Const<ChalkIr>) -> Sexp {
    let d = c.data(I);
    let v = match &d.value {
        ConstValue::BoundVar(bv) => tagged("cbound", vec![nat(bv.debruijn.depth() as usize), nat(bv.index)]),
        ConstValue::InferenceVar(v) => tagged("cinfer", vec![nat(v.index() as usize)]),
        ConstValue::Placeholder(p) => tagged("cph", vec![nat(p.ui.counter), nat(p.idx)]),
        ConstValue::Concrete(k) => tagged("cval", vec![nat(k.interned as usize)]),
    };
    tagged("const", vec![enc_ty(&d.ty), v])
}

pub fn enc_garg(a: &GenericArg<ChalkIr>) -> Sexp {
    match a.data(I) {
        GenericArgData::Ty(t) => tagged("ty", vec![enc_ty(t)]),
        GenericArgData::Lifetime(l) => tagged("lt", vec![enc_lifetime(l)]),
        GenericArgData::Const(c) => tagged("ct", vec![enc_const(c)]),
    }
}

pub fn enc_args(s: &[GenericArg<ChalkIr>]) -> Sexp {
    list(s.iter().map(enc_garg).collect())
}

pub fn enc_subst(s: &Substitution<ChalkIr>) -> Sexp {
    enc_args(s.as_slice(I))
}

pub fn enc_wc(w: &WhereClause<ChalkIr>) -> Sexp {
    match w {
        WhereClause::Implemented(tr) => {
            tagged("impl", vec![nat(tr.trait_id.0.index as usize), enc_subst(&tr.substitution)])
        }
        WhereClause::AliasEq(ae) => match &ae.alias {
            AliasTy::Projection(p) => tagged(
                "aeq-proj",
                vec![nat(p.associated_ty_id.0.index as usize), enc_subst(&p.substitution), enc_ty(&ae.ty)],
            ),
            AliasTy::Opaque(o) => tagged(
                "aeq-opaque",
                vec![nat(o.opaque_ty_id.0.index as usize), enc_subst(&o.substitution), enc_ty(&ae.ty)],
            ),
        },
        WhereClause::LifetimeOutlives(lo) => tagged("lt-outlives", vec![enc_lifetime(&lo.a), enc_lifetime(&lo.b)]),
        WhereClause::TypeOutlives(to) => tagged("ty-outlives", vec![enc_ty(&to.ty), enc_lifetime(&to.lifetime)]),
    }
}

pub fn enc_qwc(q: &QuantifiedWhereClause<ChalkIr>) -> Sexp {
    tagged("qwc", vec![enc_kinds(&q.binders), enc_wc(q.skip_binders())])
}

pub fn enc_ty(t: &Ty<ChalkIr>) -> Sexp {
    match t.kind(I) {
        TyKind::Adt(id, s) => tagged("adt", vec![nat(id.0.index as usize), enc_subst(s)]),
        TyKind::AssociatedType(id, s) => tagged("assoc", vec![nat(id.0.index as usize), enc_subst(s)]),
        TyKind::Scalar(s) => tagged("scalar", vec![nat(scalar_code(*s))]),
        TyKind::Tuple(n, s) => tagged("tuple", vec![nat(*n), enc_subst(s)]),
        TyKind::Array(t, c) => tagged("array", vec![enc_ty(t), enc_const(c)]),
        TyKind::Slice(t) => tagged("slice", vec![enc_ty(t)]),
        TyKind::Raw(m, t) => tagged("raw", vec![mut_bit(*m), enc_ty(t)]),
        TyKind::Ref(m, l, t) => tagged("ref", vec![mut_bit(*m), enc_lifetime(l), enc_ty(t)]),
        TyKind::OpaqueType(id, s) => tagged("opaque-ty", vec![nat(id.0.index as usize), enc_subst(s)]),
        TyKind::FnDef(id, s) => tagged("fndef", vec![nat(id.0.index as usize), enc_subst(s)]),
        TyKind::Str => atom("str"),
        TyKind::Never => atom("never"),
        TyKind::Closure(id, s) => tagged("closure", vec![nat(id.0.index as usize), enc_subst(s)]),
        TyKind::Coroutine(id, s) => tagged("coroutine", vec![nat(id.0.index as usize), enc_subst(s)]),
        TyKind::CoroutineWitness(id, s) => tagged("witness", vec![nat(id.0.index as usize), enc_subst(s)]),
        TyKind::Foreign(id) => tagged("foreign", vec![nat(id.0.index as usize)]),
        TyKind::Error => atom("error"),
        TyKind::Placeholder(p) => tagged("ph", vec![nat(p.ui.counter), nat(p.idx)]),
        TyKind::Dyn(d) => tagged(
            "dyn",
            vec![
                enc_kinds(&d.bounds.binders),
                list(d.bounds.skip_binders().iter(I).map(enc_qwc).collect()),
                enc_lifetime(&d.lifetime),
            ],
        ),
        TyKind::Alias(AliasTy::Projection(p)) => {
            tagged("proj", vec![nat(p.associated_ty_id.0.index as usize), enc_subst(&p.substitution)])
        }
        TyKind::Alias(AliasTy::Opaque(o)) => {
            tagged("opaque", vec![nat(o.opaque_ty_id.0.index as usize), enc_subst(&o.substitution)])
        }
        TyKind::Function(f) => {
            tagged("fn", vec![nat(f.num_binders), nat(sig_code(&f.sig)), enc_subst(&f.substitution.0)])
        }
        TyKind::BoundVar(bv) => tagged("bound", vec![nat(bv.debruijn.depth() as usize), nat(bv.index)]),
        TyKind::InferenceVar(v, k) => tagged("infer", vec![nat(v.index() as usize), enc_tykind_var(*k)]),
    }
}

// ---------------------------------------------------------------- decoders

pub fn dec_tykind_var(s: &Sexp) -> Option<TyVariableKind> {
    Some(match s.as_atom()? {
        "g" => TyVariableKind::General,
        "i" => TyVariableKind::Integer,
        "f" => TyVariableKind::Float,
        _ => return None,
    })
}

pub fn dec_varkind(s: &Sexp) -> Option<VariableKind<ChalkIr>> {
    if let Some("klt") = s.as_atom() {
        return Some(VariableKind::Lifetime);
    }
    let (t, xs) = s.tagged()?;
    match (t, xs) {
        ("kty", [k]) => Some(VariableKind::Ty(dec_tykind_var(k)?)),
        ("kconst", [c]) => Some(VariableKind::Const(TyKind::Scalar(scalar_of_code(c.as_nat()?)?).intern(I))),
        _ => None,
    }
}

pub fn dec_kinds(s: &Sexp) -> Option<VariableKinds<ChalkIr>> {
    let ks: Option<Vec<_>> = s.as_list()?.iter().map(dec_varkind).collect();
    Some(VariableKinds::from_iter(I, ks?))
}

fn bv(d: &Sexp, i: &Sexp) -> Option<BoundVar> {
    Some(BoundVar::new(DebruijnIndex::new(d.as_nat()? as u32), i.as_nat()?))
}
fn ph(u: &Sexp, i: &Sexp) -> Option<PlaceholderIndex> {
    Some(PlaceholderIndex { ui: UniverseIndex { counter: u.as_nat()? }, idx: i.as_nat()? })
}
fn dec_mut(s: &Sexp) -> Option<Mutability> {
    match s.as_atom()? {
        "1" => Some(Mutability::Mut),
        "0" => Some(Mutability::Not),
        _ => None,
    }
}

pub fn dec_lifetime(s: &Sexp) -> Option<Lifetime<ChalkIr>> {
    if let Some(a) = s.as_atom() {
        return Some(
            match a {
                "static" => LifetimeData::Static,
                "erased" => LifetimeData::Erased,
                "lerror" => LifetimeData::Error,
                _ => return None,
            }
            .intern(I),
        );
    }
    let (t, xs) = s.tagged()?;
    Some(
        match (t, xs) {
            ("lbound", [d, i]) => LifetimeData::BoundVar(bv(d, i)?),
            ("linfer", [v]) => LifetimeData::InferenceVar(InferenceVar::from(v.as_nat()? as u32)),
            ("lph", [u, i]) => LifetimeData::Placeholder(ph(u, i)?),
            _ => return None,
        }
        .intern(I),
    )
}

pub fn dec_const(s: &Sexp) -> Option<Const<ChalkIr>> {
    let (t, xs) = s.tagged()?;
    if t != "const" || xs.len() != 2 {
        return None;
    }
    let ty = dec_ty(&xs[0])?;
    let (vt, vx) = xs[1].tagged()?;
    let value = match (vt, vx) {
        ("cbound", [d, i]) => ConstValue::BoundVar(bv(d, i)?),
        ("cinfer", [v]) => ConstValue::InferenceVar(InferenceVar::from(v.as_nat()? as u32)),
        ("cph", [u, i]) => ConstValue::Placeholder(ph(u, i)?),
        ("cval", [k]) => ConstValue::Concrete(ConcreteConst { interned: k.as_nat()? as u32 }),
        _ => return None,
    };
    Some(ConstData { ty, value }.intern(I))
}

pub fn dec_garg(s: &Sexp) -> Option<GenericArg<ChalkIr>> {
    let (t, xs) = s.tagged()?;
    Some(
        match (t, xs) {
            ("ty", [x]) => GenericArgData::Ty(dec_ty(x)?),
            ("lt", [x]) => GenericArgData::Lifetime(dec_lifetime(x)?),
            ("ct", [x]) => GenericArgData::Const(dec_const(x)?),
            _ => return None,
        }
        .intern(I),
    )
}

pub fn dec_args(s: &Sexp) -> Option<Vec<GenericArg<ChalkIr>>> {
    s.as_list()?.iter().map(dec_garg).collect()
}

pub fn dec_subst(s: &Sexp) -> Option<Substitution<ChalkIr>> {
    Some(Substitution::from_iter(I, dec_args(s)?))
}

pub fn dec_wc(s: &Sexp) -> Option<WhereClause<ChalkIr>> {
    let (t, xs) = s.tagged()?;
    Some(match (t, xs) {
        ("impl", [tr, a]) => {
            WhereClause::Implemented(TraitRef { trait_id: TraitId(raw(tr.as_nat()?)), substitution: dec_subst(a)? })
        }
        ("aeq-proj", [id, a, ty]) => WhereClause::AliasEq(AliasEq {
            alias: AliasTy::Projection(ProjectionTy {
                associated_ty_id: AssocTypeId(raw(id.as_nat()?)),
                substitution: dec_subst(a)?,
            }),
            ty: dec_ty(ty)?,
        }),
        ("aeq-opaque", [id, a, ty]) => WhereClause::AliasEq(AliasEq {
            alias: AliasTy::Opaque(OpaqueTy { opaque_ty_id: OpaqueTyId(raw(id.as_nat()?)), substitution: dec_subst(a)? }),
            ty: dec_ty(ty)?,
        }),
        ("lt-outlives", [a, b]) => {
            WhereClause::LifetimeOutlives(LifetimeOutlives { a: dec_lifetime(a)?, b: dec_lifetime(b)? })
        }
        ("ty-outlives", [t, l]) => WhereClause::TypeOutlives(TypeOutlives { ty: dec_ty(t)?, lifetime: dec_lifetime(l)? }),
        _ => return None,
    })
}

pub fn dec_qwc(s: &Sexp) -> Option<QuantifiedWhereClause<ChalkIr>> {
    let (t, xs) = s.tagged()?;
    match (t, xs) {
        ("qwc", [ks, wc]) => Some(Binders::new(dec_kinds(ks)?, dec_wc(wc)?)),
        _ => None,
    }
}

pub fn dec_ty(s: &Sexp) -> Option<Ty<ChalkIr>> {
    if let Some(a) = s.as_atom() {
        return Some(
            match a {
                "str" => TyKind::Str,
                "never" => TyKind::Never,
                "error" => TyKind::Error,
                _ => return None,
            }
            .intern(I),
        );
    }
    let (t, xs) = s.tagged()?;
    Some(
        match (t, xs) {
            ("adt", [id, a]) => TyKind::Adt(AdtId(raw(id.as_nat()?)), dec_subst(a)?),
            ("assoc", [id, a]) => TyKind::AssociatedType(AssocTypeId(raw(id.as_nat()?)), dec_subst(a)?),
            ("scalar", [c]) => TyKind::Scalar(scalar_of_code(c.as_nat()?)?),
            ("tuple", [n, a]) => TyKind::Tuple(n.as_nat()?, dec_subst(a)?),
            ("array", [t, c]) => TyKind::Array(dec_ty(t)?, dec_const(c)?),
            ("slice", [t]) => TyKind::Slice(dec_ty(t)?),
            ("raw", [m, t]) => TyKind::Raw(dec_mut(m)?, dec_ty(t)?),
            ("ref", [m, l, t]) => TyKind::Ref(dec_mut(m)?, dec_lifetime(l)?, dec_ty(t)?),
            ("opaque-ty", [id, a]) => TyKind::OpaqueType(OpaqueTyId(raw(id.as_nat()?)), dec_subst(a)?),
            ("fndef", [id, a]) => TyKind::FnDef(FnDefId(raw(id.as_nat()?)), dec_subst(a)?),
            ("closure", [id, a]) => TyKind::Closure(ClosureId(raw(id.as_nat()?)), dec_subst(a)?),
            ("coroutine", [id, a]) => TyKind::Coroutine(CoroutineId(raw(id.as_nat()?)), dec_subst(a)?),
            ("witness", [id, a]) => TyKind::CoroutineWitness(CoroutineId(raw(id.as_nat()?)), dec_subst(a)?),
            ("foreign", [id]) => TyKind::Foreign(ForeignDefId(raw(id.as_nat()?))),
            ("ph", [u, i]) => TyKind::Placeholder(ph(u, i)?),
            ("dyn", [ks, qs, l]) => {
                let qwcs: Option<Vec<_>> = qs.as_list()?.iter().map(dec_qwc).collect();
                TyKind::Dyn(DynTy {
                    bounds: Binders::new(dec_kinds(ks)?, QuantifiedWhereClauses::from_iter(I, qwcs?)),
                    lifetime: dec_lifetime(l)?,
                })
            }
            ("proj", [id, a]) => TyKind::Alias(AliasTy::Projection(ProjectionTy {
                associated_ty_id: AssocTypeId(raw(id.as_nat()?)),
                substitution: dec_subst(a)?,
            })),
            ("opaque", [id, a]) => TyKind::Alias(AliasTy::Opaque(OpaqueTy {
                opaque_ty_id: OpaqueTyId(raw(id.as_nat()?)),
                substitution: dec_subst(a)?,
            })),
            ("fn", [nb, sig, a]) => TyKind::Function(FnPointer {
                num_binders: nb.as_nat()?,
                sig: sig_of_code(sig.as_nat()?),
                substitution: FnSubst(dec_subst(a)?),
            }),
            ("bound", [d, i]) => TyKind::BoundVar(bv(d, i)?),
            ("infer", [v, k]) => TyKind::InferenceVar(InferenceVar::from(v.as_nat()? as u32), dec_tykind_var(k)?),
            _ => return None,
        }
        .intern(I),
    )
}

// ---------------------------------------------------------------- responses

pub fn ok(x: Sexp) -> Sexp {
    tagged("ok", vec![x])
}
pub fn err_no_solution() -> Sexp {
    tagged("err", vec![atom("no-solution")])
}
pub fn panic_resp(site: &str) -> Sexp {
    let clean: String = site.chars().map(|c| if c.is_whitespace() || c == '(' || c == ')' { '-' } else { c }).collect();
    tagged("panic", vec![atom(&clean)])
}

/// Map a panic payload to a site symbol: known messages are mapped to the model's site names,
/// unknown ones are kept verbatim (first 60 chars) so that a new panic site shows as a diff.
pub fn panic_site(payload: &(dyn std::any::Any + Send)) -> String {
    let msg = if let Some(s) = payload.downcast_ref::<&str>() {
        s.to_string()
    } else if let Some(s) = payload.downcast_ref::<String>() {
        s.clone()
    } else {
        "non-string-payload".to_string()
    };
    if msg.contains("mismatched kinds in substitution") {
        "mismatched kinds in substitution".into()
    } else if msg.contains("index out of bounds") {
        "index out of bounds".into()
    } else {
        msg.chars().take(60).collect()
    }
}

pub fn catch<T>(f: impl FnOnce() -> T + std::panic::UnwindSafe) -> Result<T, String> {
    std::panic::catch_unwind(f).map_err(|p| panic_site(&*p))
}

// ---------------------------------------------------------------- variances, domain goals, udb

pub fn enc_variance(v: Variance) -> Sexp {
    atom(match v {
        Variance::Covariant => "co",
        Variance::Invariant => "inv",
        Variance::Contravariant => "contra",
    })
}
pub fn dec_variance(s: &Sexp) -> Option<Variance> {
    Some(match s.as_atom()? {
        "co" => Variance::Covariant,
        "inv" => Variance::Invariant,
        "contra" => Variance::Contravariant,
        _ => return None,
    })
}

/// A `UnificationDatabase` given by two tables (adt id -> variances, fn def id -> variances);
/// ids beyond the tables have the empty list.
#[derive(Debug, Clone, Default)]
pub struct TableDb {
    pub adts: Vec<Vec<Variance>>,
    pub fns: Vec<Vec<Variance>>,
}
impl UnificationDatabase<ChalkIr> for TableDb {
    fn fn_def_variance(&self, id: FnDefId<ChalkIr>) -> Variances<ChalkIr> {
        Variances::from_iter(I, self.fns.get(id.0.index as usize).cloned().unwrap_or_default())
    }
    fn adt_variance(&self, id: AdtId<ChalkIr>) -> Variances<ChalkIr> {
        Variances::from_iter(I, self.adts.get(id.0.index as usize).cloned().unwrap_or_default())
    }
}
pub fn enc_udb(db: &TableDb) -> Sexp {
    let t = |tab: &Vec<Vec<Variance>>| list(tab.iter().map(|vs| list(vs.iter().map(|v| enc_variance(*v)).collect())).collect());
    tagged("udb", vec![t(&db.adts), t(&db.fns)])
}
pub fn dec_udb(s: &Sexp) -> Option<TableDb> {
    let (t, xs) = s.tagged()?;
    if t != "udb" || xs.len() != 2 {
        return None;
    }
    let tab = |x: &Sexp| -> Option<Vec<Vec<Variance>>> {
        x.as_list()?.iter().map(|vs| vs.as_list()?.iter().map(dec_variance).collect()).collect()
    };
    Some(TableDb { adts: tab(&xs[0])?, fns: tab(&xs[1])? })
}

fn enc_alias(a: &AliasTy<ChalkIr>) -> Sexp {
    match a {
        AliasTy::Projection(p) => tagged("proj", vec![nat(p.associated_ty_id.0.index as usize), enc_subst(&p.substitution)]),
        AliasTy::Opaque(o) => tagged("opaque", vec![nat(o.opaque_ty_id.0.index as usize), enc_subst(&o.substitution)]),
    }
}
fn dec_alias(s: &Sexp) -> Option<AliasTy<ChalkIr>> {
    let (t, xs) = s.tagged()?;
    Some(match (t, xs) {
        ("proj", [id, a]) => AliasTy::Projection(ProjectionTy { associated_ty_id: AssocTypeId(raw(id.as_nat()?)), substitution: dec_subst(a)? }),
        ("opaque", [id, a]) => AliasTy::Opaque(OpaqueTy { opaque_ty_id: OpaqueTyId(raw(id.as_nat()?)), substitution: dec_subst(a)? }),
        _ => return None,
    })
}
fn tref(tr: &Sexp, a: &Sexp) -> Option<TraitRef<ChalkIr>> {
    Some(TraitRef { trait_id: TraitId(raw(tr.as_nat()?)), substitution: dec_subst(a)? })
}
fn enc_tref(tag: &str, tr: &TraitRef<ChalkIr>) -> Sexp {
    tagged(tag, vec![nat(tr.trait_id.0.index as usize), enc_subst(&tr.substitution)])
}

pub fn enc_domain_goal(g: &DomainGoal<ChalkIr>) -> Sexp {
    match g {
        DomainGoal::Holds(w) => tagged("holds", vec![enc_wc(w)]),
        DomainGoal::WellFormed(WellFormed::Trait(tr)) => enc_tref("wf-trait", tr),
        DomainGoal::WellFormed(WellFormed::Ty(t)) => tagged("wf-ty", vec![enc_ty(t)]),
        DomainGoal::FromEnv(FromEnv::Trait(tr)) => enc_tref("from-env-trait", tr),
        DomainGoal::FromEnv(FromEnv::Ty(t)) => tagged("from-env-ty", vec![enc_ty(t)]),
        DomainGoal::Normalize(n) => tagged("normalize", vec![enc_alias(&n.alias), enc_ty(&n.ty)]),
        DomainGoal::IsLocal(t) => tagged("is-local", vec![enc_ty(t)]),
        DomainGoal::IsUpstream(t) => tagged("is-upstream", vec![enc_ty(t)]),
        DomainGoal::IsFullyVisible(t) => tagged("is-fully-visible", vec![enc_ty(t)]),
        DomainGoal::LocalImplAllowed(tr) => enc_tref("local-impl-allowed", tr),
        DomainGoal::Compatible => atom("compatible"),
        DomainGoal::DownstreamType(t) => tagged("downstream-type", vec![enc_ty(t)]),
        DomainGoal::Reveal => atom("reveal"),
        DomainGoal::ObjectSafe(id) => tagged("object-safe", vec![nat(id.0.index as usize)]),
    }
}

pub fn dec_domain_goal(s: &Sexp) -> Option<DomainGoal<ChalkIr>> {
    if let Some(a) = s.as_atom() {
        return match a {
            "compatible" => Some(DomainGoal::Compatible),
            "reveal" => Some(DomainGoal::Reveal),
            _ => None,
        };
    }
    let (t, xs) = s.tagged()?;
    Some(match (t, xs) {
        ("holds", [w]) => DomainGoal::Holds(dec_wc(w)?),
        ("wf-trait", [tr, a]) => DomainGoal::WellFormed(WellFormed::Trait(tref(tr, a)?)),
        ("wf-ty", [t]) => DomainGoal::WellFormed(WellFormed::Ty(dec_ty(t)?)),
        ("from-env-trait", [tr, a]) => DomainGoal::FromEnv(FromEnv::Trait(tref(tr, a)?)),
        ("from-env-ty", [t]) => DomainGoal::FromEnv(FromEnv::Ty(dec_ty(t)?)),
        ("normalize", [al, t]) => DomainGoal::Normalize(Normalize { alias: dec_alias(al)?, ty: dec_ty(t)? }),
        ("is-local", [t]) => DomainGoal::IsLocal(dec_ty(t)?),
        ("is-upstream", [t]) => DomainGoal::IsUpstream(dec_ty(t)?),
        ("is-fully-visible", [t]) => DomainGoal::IsFullyVisible(dec_ty(t)?),
        ("local-impl-allowed", [tr, a]) => DomainGoal::LocalImplAllowed(tref(tr, a)?),
        ("downstream-type", [t]) => DomainGoal::DownstreamType(dec_ty(t)?),
        ("object-safe", [id]) => DomainGoal::ObjectSafe(TraitId(raw(id.as_nat()?))),
        _ => return None,
    })
}

pub const TY_HEADS: &[&str] = &[
    "adt", "assoc", "scalar", "tuple", "array", "slice", "raw", "ref", "opaque-ty", "fndef", "str", "never", "closure",
    "coroutine", "witness", "foreign", "error", "ph", "dyn", "proj", "opaque", "fn", "bound", "infer",
];

pub fn is_ty(s: &Sexp) -> bool {
    match s {
        Sexp::Atom(a) => matches!(a.as_str(), "str" | "never" | "error"),
        Sexp::List(xs) => match xs.first().and_then(|x| x.as_atom()) {
            Some(h) => TY_HEADS.contains(&h) && !(xs.len() == 2 && h == "ty"),
            None => false,
        },
    }
}

/// Rebuild `s`, offering every *type* node (top-down) to `f`; `Some(r)` replaces the node.
/// Positions that hold an alias (`proj`/`opaque` directly under `normalize`) are not offered.
pub fn map_types(s: &Sexp, f: &mut dyn FnMut(&Sexp) -> Option<Sexp>) -> Sexp {
    if is_ty(s) {
        if let Some(r) = f(s) {
            return r;
        }
    }
    match s {
        Sexp::Atom(_) => s.clone(),
        Sexp::List(xs) => {
            let is_norm = xs.first().and_then(|x| x.as_atom()) == Some("normalize");
            if xs.first().and_then(|x| x.as_atom()) == Some("const") {
                // the type of a constant is not a position of its own
                return s.clone();
            }
            Sexp::List(
                xs.iter()
                    .enumerate()
                    .map(|(i, x)| {
                        if is_norm && i == 1 {
                            // alias position: descend into its arguments only
                            match x {
                                Sexp::List(ys) => Sexp::List(ys.iter().map(|y| map_types(y, f)).collect()),
                                _ => x.clone(),
                            }
                        } else {
                            map_types(x, f)
                        }
                    })
                    .collect(),
            )
        }
    }
}
