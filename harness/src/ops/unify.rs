//! C14 / C15 / C29: the real `InferenceTable::relate` vs `lean/ChalkModel/Unify.lean`.
//!
//! A request carries a script that builds the table (universes, variables, a history of relates)
//! and the relate under test:
//!   (relate <udb> (script (new-universe) (new-var ui) (relate v a b) ...) <variance> <a> <b>)
//! The answer lists which history steps succeeded, the returned goals and the observable table
//! state (`probe`: for every variable its root and either its universe or its deep-resolved value,
//! plus the maximal universe).
//!
//! Oracles evaluated on the implementation itself (independent of the model):
//!  C15  after a failed relate every observation equals the one taken before; relating (a,b) and
//!       (b,a) (inv/inv, co/contra) on two clones of the table agree on success.
//!  C14  on success (no goals returned) the two types are equal after deep resolution; on failure
//!       neither a naive Robinson unifier (with a universe check on the solved form) nor a
//!       brute-force search over closed types of depth <= 2 finds a unifier.
//!  C29  for same-shape pairs with lifetimes the returned outlives goals (together with the lifetime
//!       variables the unifier bound instead) are equivalent to the constraints dictated by the
//!       variance of every lifetime position, computed here from the variance rules alone.
use crate::rng::Rng;
use crate::wire::*;
use crate::{Ctx, Out};
use chalk_integration::interner::ChalkIr;
use chalk_ir::*;
use chalk_solve::infer::InferenceTable;
use std::collections::{BTreeMap, BTreeSet};
use std::panic::AssertUnwindSafe;

type Table = InferenceTable<ChalkIr>;

// ------------------------------------------------------------------ running the real code

fn norm_site(site: String) -> String {
    let known = [
        "unification encountered bound variable",
        "unexpected free variable",
        "index out of bounds",
        "attempt to subtract with overflow",
        "var_universe invoked on bound variable",
        "we should not be asked to unify two bound things",
        "mismatched kinds in substitution",
    ];
    for k in known {
        if site.contains(k) {
            return k.to_string();
        }
    }
    if site.contains("Option::unwrap()") {
        return "called Option::unwrap on a None value".into();
    }
    if site.contains("assertion") {
        return "assert_eq debruijn INNERMOST".into();
    }
    site
}

fn enc_alias_ty(a: &AliasTy<ChalkIr>) -> Sexp {
    match a {
        AliasTy::Projection(p) => tagged("proj", vec![nat(p.associated_ty_id.0.index as usize), enc_subst(&p.substitution)]),
        AliasTy::Opaque(o) => tagged("opaque", vec![nat(o.opaque_ty_id.0.index as usize), enc_subst(&o.substitution)]),
    }
}

fn enc_goal(g: &InEnvironment<Goal<ChalkIr>>) -> Sexp {
    match g.goal.data(I) {
        GoalData::DomainGoal(DomainGoal::Holds(WhereClause::LifetimeOutlives(lo))) => {
            tagged("outlives", vec![enc_lifetime(&lo.a), enc_lifetime(&lo.b)])
        }
        GoalData::DomainGoal(DomainGoal::Holds(WhereClause::AliasEq(ae))) => {
            tagged("alias-eq", vec![enc_alias_ty(&ae.alias), enc_ty(&ae.ty)])
        }
        GoalData::SubtypeGoal(sg) => tagged("subtype", vec![enc_ty(&sg.a), enc_ty(&sg.b)]),
        other => tagged("other-goal", vec![atom(&format!("{:?}", other).replace([' ', '(', ')'], "_"))]),
    }
}

/// Ok(Some(goals)) success, Ok(None) NoSolution, Err(site) panic
fn do_relate(t: &mut Table, db: &TableDb, v: Variance, a: &Ty<ChalkIr>, b: &Ty<ChalkIr>) -> Result<Option<Vec<Sexp>>, String> {
    let env = Environment::new(I);
    let r = std::panic::catch_unwind(AssertUnwindSafe(|| t.relate(I, db, &env, v, a, b)));
    match r {
        Ok(Ok(rr)) => Ok(Some(rr.goals.iter().map(enc_goal).collect())),
        Ok(Err(_)) => Ok(None),
        Err(p) => Err(norm_site(panic_site(&*p))),
    }
}

fn num_vars(t: &Table) -> usize {
    let mut c = t.clone();
    let v: InferenceVar = c.new_variable(UniverseIndex::root()).into();
    v.index() as usize
}

fn max_universe(t: &Table) -> usize {
    let mut c = t.clone();
    c.new_universe().counter - 1
}

fn universe_of_unbound(t: &Table, v: usize) -> usize {
    let mut c = t.clone();
    let ty = TyKind::InferenceVar(InferenceVar::from(v as u32), TyVariableKind::General).intern(I);
    let canon = c.canonicalize(I, ty);
    canon.quantified.binders.iter(I).next().map(|b| b.skip_kind().counter).unwrap_or(usize::MAX)
}

fn probe_raw(t: &mut Table, v: usize) -> Option<GenericArg<ChalkIr>> {
    t.probe_var(InferenceVar::from(v as u32))
}

/// deep resolution over the wire AST: a bound variable is replaced by its value, at most `depth`
/// jumps deep (the same procedure as `Table.resolveGArg` in the model). With `roots`, unbound
/// variables are renamed to the root of their class.
fn resolve(t: &mut Table, s: &Sexp, depth: usize, roots: bool) -> Sexp {
    if let Some((h, xs)) = s.tagged() {
        match (h, xs) {
            ("infer", [v, k]) => {
                let vi = v.as_nat().unwrap();
                if let Some(g) = probe_raw(t, vi) {
                    if let GenericArgData::Ty(ty) = g.data(I) {
                        if depth == 0 {
                            return s.clone();
                        }
                        return resolve(t, &enc_ty(ty), depth - 1, roots);
                    }
                    return s.clone();
                }
                if roots {
                    let r = t.inference_var_root(InferenceVar::from(vi as u32)).index() as usize;
                    return tagged("infer", vec![nat(r), k.clone()]);
                }
                return s.clone();
            }
            ("linfer", [v]) => {
                let vi = v.as_nat().unwrap();
                if let Some(g) = probe_raw(t, vi) {
                    if let GenericArgData::Lifetime(l) = g.data(I) {
                        if depth == 0 {
                            return s.clone();
                        }
                        return resolve(t, &enc_lifetime(l), depth - 1, roots);
                    }
                    return s.clone();
                }
                if roots {
                    let r = t.inference_var_root(InferenceVar::from(vi as u32)).index() as usize;
                    return tagged("linfer", vec![nat(r)]);
                }
                return s.clone();
            }
            ("const", [ty, val]) => {
                if let Some(("cinfer", [v])) = val.tagged() {
                    let vi = v.as_nat().unwrap();
                    if let Some(g) = probe_raw(t, vi) {
                        if let GenericArgData::Const(c) = g.data(I) {
                            if depth == 0 {
                                return s.clone();
                            }
                            return resolve(t, &enc_const(c), depth - 1, roots);
                        }
                    } else if roots {
                        let r = t.inference_var_root(InferenceVar::from(vi as u32)).index() as usize;
                        return tagged("const", vec![resolve(t, ty, depth, roots), tagged("cinfer", vec![nat(r)])]);
                    }
                }
                return tagged("const", vec![resolve(t, ty, depth, roots), val.clone()]);
            }
            _ => {}
        }
    }
    match s {
        Sexp::Atom(_) => s.clone(),
        Sexp::List(xs) => Sexp::List(xs.iter().map(|x| resolve(t, x, depth, roots)).collect()),
    }
}

fn probe_section(t: &Table) -> Sexp {
    let n = num_vars(t);
    let mut c = t.clone();
    let mut rows = vec![atom("probe"), nat(max_universe(t))];
    for v in 0..n {
        let root = c.inference_var_root(InferenceVar::from(v as u32)).index() as usize;
        let val = match probe_raw(&mut c, v) {
            None => tagged("unbound", vec![nat(universe_of_unbound(t, v))]),
            Some(g) => tagged("bound", vec![resolve(&mut c, &enc_garg(&g), n + 1, false)]),
        };
        rows.push(list(vec![nat(v), nat(root), val]));
    }
    Sexp::List(rows)
}

// ------------------------------------------------------------------ requests

#[derive(Clone)]
enum Op {
    NewUniverse,
    NewVar(usize),
    Relate(Variance, Sexp, Sexp),
}

struct Req {
    db: TableDb,
    script: Vec<Op>,
    v: Variance,
    a: Sexp,
    b: Sexp,
}

fn dec_req(s: &Sexp) -> Option<Req> {
    let (op, xs) = s.tagged()?;
    if op != "relate" || xs.len() != 5 {
        return None;
    }
    let db = dec_udb(&xs[0])?;
    let (st, ops) = xs[1].tagged()?;
    if st != "script" {
        return None;
    }
    let mut script = vec![];
    for o in ops {
        let (h, ys) = o.tagged()?;
        script.push(match (h, ys) {
            ("new-universe", []) => Op::NewUniverse,
            ("new-var", [ui]) => Op::NewVar(ui.as_nat()?),
            ("relate", [v, a, b]) => Op::Relate(dec_variance(v)?, enc_ty(&dec_ty(a)?), enc_ty(&dec_ty(b)?)),
            _ => return None,
        });
    }
    Some(Req { db, script, v: dec_variance(&xs[2])?, a: enc_ty(&dec_ty(&xs[3])?), b: enc_ty(&dec_ty(&xs[4])?) })
}

fn enc_req(r: &Req) -> Sexp {
    let ops = r
        .script
        .iter()
        .map(|o| match o {
            Op::NewUniverse => tagged("new-universe", vec![]),
            Op::NewVar(ui) => tagged("new-var", vec![nat(*ui)]),
            Op::Relate(v, a, b) => tagged("relate", vec![enc_variance(*v), a.clone(), b.clone()]),
        })
        .collect();
    tagged("relate", vec![enc_udb(&r.db), tagged("script", ops), enc_variance(r.v), r.a.clone(), r.b.clone()])
}

fn invert(v: Variance) -> Variance {
    match v {
        Variance::Invariant => Variance::Invariant,
        Variance::Covariant => Variance::Contravariant,
        Variance::Contravariant => Variance::Covariant,
    }
}

fn xform(a: Variance, b: Variance) -> Variance {
    use Variance::*;
    match (a, b) {
        (Invariant, _) | (_, Invariant) => Invariant,
        (x, Covariant) => x,
        (Covariant, Contravariant) => Contravariant,
        (Contravariant, Contravariant) => Covariant,
    }
}

fn has_head(s: &Sexp, hs: &[&str]) -> bool {
    match s {
        Sexp::Atom(a) => hs.contains(&a.as_str()),
        Sexp::List(xs) => xs.iter().any(|x| has_head(x, hs)),
    }
}

// ------------------------------------------------------------------ C14 oracles

/// heads that take a type out of the first-order fragment on which "unifier" has its plain meaning
const NON_FO: &[&str] = &[
    "ref", "lt", "dyn", "fn", "proj", "opaque", "error", "bound", "lbound", "cbound", "array", "ct", "linfer", "lph",
    "static", "erased", "lerror",
];

fn is_var(s: &Sexp) -> Option<(usize, String)> {
    match s.tagged() {
        Some(("infer", [v, k])) => Some((v.as_nat()?, k.as_atom()?.to_string())),
        _ => None,
    }
}

fn subst_vars(s: &Sexp, m: &BTreeMap<usize, Sexp>) -> Sexp {
    if let Some((v, _)) = is_var(s) {
        if let Some(t) = m.get(&v) {
            return subst_vars(t, m);
        }
        return s.clone();
    }
    match s {
        Sexp::Atom(_) => s.clone(),
        Sexp::List(xs) => Sexp::List(xs.iter().map(|x| subst_vars(x, m)).collect()),
    }
}

fn occurs(v: usize, s: &Sexp, m: &BTreeMap<usize, Sexp>) -> bool {
    if let Some((w, _)) = is_var(s) {
        if w == v {
            return true;
        }
        if let Some(t) = m.get(&w) {
            return occurs(v, t, m);
        }
        return false;
    }
    match s {
        Sexp::Atom(_) => false,
        Sexp::List(xs) => xs.iter().any(|x| occurs(v, x, m)),
    }
}

fn is_int_scalar(s: &Sexp) -> bool {
    matches!(s.tagged(), Some(("scalar", [c])) if matches!(c.as_nat(), Some(10..=15) | Some(20..=25)))
}
fn is_float_scalar(s: &Sexp) -> bool {
    matches!(s.tagged(), Some(("scalar", [c])) if matches!(c.as_nat(), Some(30..=33)))
}

/// Robinson unification on the wire AST (first-order fragment). Kinds: an integer (float)
/// variable only takes integer (float) scalars or variables of its own kind / general variables.
fn robinson(a: &Sexp, b: &Sexp, m: &mut BTreeMap<usize, Sexp>) -> bool {
    let a = walk(a, m);
    let b = walk(b, m);
    if a == b {
        return true;
    }
    match (is_var(&a), is_var(&b)) {
        (Some((va, ka)), Some((vb, kb))) => {
            if va == vb {
                return true; // same variable written with two kinds: not generated
            }
            if ka == kb || ka == "g" {
                m.insert(va, b.clone());
                true
            } else if kb == "g" {
                m.insert(vb, a.clone());
                true
            } else {
                false
            }
        }
        (Some((va, ka)), None) => bind(va, &ka, &b, m),
        (None, Some((vb, kb))) => bind(vb, &kb, &a, m),
        (None, None) => match (&a, &b) {
            (Sexp::List(xs), Sexp::List(ys)) => xs.len() == ys.len() && xs.iter().zip(ys).all(|(x, y)| robinson(x, y, m)),
            _ => false,
        },
    }
}
fn walk(s: &Sexp, m: &BTreeMap<usize, Sexp>) -> Sexp {
    let mut cur = s.clone();
    while let Some((v, _)) = is_var(&cur) {
        match m.get(&v) {
            Some(t) => cur = t.clone(),
            None => break,
        }
    }
    cur
}
fn bind(v: usize, k: &str, t: &Sexp, m: &mut BTreeMap<usize, Sexp>) -> bool {
    if occurs(v, t, m) {
        return false;
    }
    if (k == "i" && !is_int_scalar(t)) || (k == "f" && !is_float_scalar(t)) {
        return false;
    }
    m.insert(v, t.clone());
    true
}

fn placeholders_universes(s: &Sexp, out: &mut Vec<usize>) {
    if let Some(("ph", [u, _])) = s.tagged() {
        out.push(u.as_nat().unwrap_or(0));
        return;
    }
    if let Sexp::List(xs) = s {
        for x in xs {
            placeholders_universes(x, out);
        }
    }
}

fn collect_vars(s: &Sexp, out: &mut BTreeMap<usize, String>) {
    if let Some((v, k)) = is_var(s) {
        out.entry(v).or_insert(k);
        return;
    }
    if let Sexp::List(xs) = s {
        for x in xs {
            collect_vars(x, out);
        }
    }
}

/// does a unifier of the (resolved) first-order types exist that respects the universes of the
/// unbound variables? Decided on the solved form of Robinson's algorithm: every variable of
/// universe u must not be forced to contain a placeholder of a universe > u (variables left free
/// can always be instantiated with `()`).
fn fo_unifiable(a: &Sexp, b: &Sexp, ui: &BTreeMap<usize, usize>) -> bool {
    let mut m = BTreeMap::new();
    if !robinson(a, b, &mut m) {
        return false;
    }
    // classes of variables bound to variables share the strictest universe
    let keys: Vec<usize> = m.keys().cloned().collect();
    let mut vars = BTreeMap::new();
    collect_vars(a, &mut vars);
    collect_vars(b, &mut vars);
    for v in vars.keys().chain(keys.iter()) {
        let image = subst_vars(&tagged("infer", vec![nat(*v), atom("g")]), &m);
        let mut us = vec![];
        placeholders_universes(&image, &mut us);
        let lim = ui.get(v).cloned().unwrap_or(usize::MAX);
        if us.iter().any(|u| *u > lim) {
            return false;
        }
        // a variable the image still mentions is promoted to `lim`; its own forced content was
        // checked under its own (larger or equal) limit, and the joint limit is checked here
        // because the image of v contains the images of those variables
    }
    // the images of variables unified with `v` are checked through `v`'s image; what remains is a
    // variable class {x, y} with different universes bound to a placeholder: the image of each
    // member is the placeholder, checked above for each member.
    true
}

/// closed types of depth <= 2 over the symbols of the two types
fn pool(a: &Sexp, b: &Sexp, max_u: usize) -> Vec<Sexp> {
    let mut leaves: BTreeSet<Sexp> = BTreeSet::new();
    fn leaves_of(s: &Sexp, out: &mut BTreeSet<Sexp>) {
        match s.tagged() {
            Some(("scalar", _)) | Some(("ph", _)) | Some(("foreign", _)) => {
                out.insert(s.clone());
            }
            _ => {}
        }
        if let Sexp::Atom(x) = s {
            if x == "str" || x == "never" {
                out.insert(s.clone());
            }
        }
        if let Sexp::List(xs) = s {
            for x in xs {
                leaves_of(x, out);
            }
        }
    }
    leaves_of(a, &mut leaves);
    leaves_of(b, &mut leaves);
    leaves.insert(tagged("tuple", vec![nat(0), list(vec![])]));
    leaves.insert(tagged("scalar", vec![nat(23)]));
    leaves.insert(tagged("scalar", vec![nat(31)]));
    for u in 0..=max_u.min(3) {
        leaves.insert(tagged("ph", vec![nat(u), nat(0)]));
    }
    let l0: Vec<Sexp> = leaves.into_iter().collect();
    let mut all = l0.clone();
    // one layer of the unary constructors and the heads (with their arities) that occur
    let mut heads: BTreeSet<(String, usize, usize)> = BTreeSet::new();
    fn heads_of(s: &Sexp, out: &mut BTreeSet<(String, usize, usize)>) {
        if let Some((h, xs)) = s.tagged() {
            if matches!(h, "adt" | "tuple" | "fndef" | "closure") && xs.len() == 2 {
                if let (Some(id), Some(args)) = (xs[0].as_nat(), xs[1].as_list()) {
                    if args.len() <= 2 && args.iter().all(|g| matches!(g.tagged(), Some(("ty", _)))) {
                        out.insert((h.to_string(), id, args.len()));
                    }
                }
            }
        }
        if let Sexp::List(xs) = s {
            for x in xs {
                heads_of(x, out);
            }
        }
    }
    heads_of(a, &mut heads);
    heads_of(b, &mut heads);
    let small: Vec<Sexp> = l0.iter().take(5).cloned().collect();
    for t in &small {
        all.push(tagged("slice", vec![t.clone()]));
        all.push(tagged("raw", vec![nat(0), t.clone()]));
        all.push(tagged("raw", vec![nat(1), t.clone()]));
    }
    for (h, id, n) in heads {
        match n {
            0 => all.push(tagged(&h, vec![nat(id), list(vec![])])),
            1 => {
                for t in &small {
                    all.push(tagged(&h, vec![nat(id), list(vec![tagged("ty", vec![t.clone()])])]));
                }
            }
            _ => {
                for t in &small {
                    for u in &small {
                        all.push(tagged(&h, vec![nat(id), list(vec![tagged("ty", vec![t.clone()]), tagged("ty", vec![u.clone()])])]));
                    }
                }
            }
        }
    }
    all
}

/// brute force: an assignment of pool types to the variables that makes the types equal
fn brute_force_unifier(a: &Sexp, b: &Sexp, ui: &BTreeMap<usize, usize>, max_u: usize) -> Option<BTreeMap<usize, Sexp>> {
    let mut vars = BTreeMap::new();
    collect_vars(a, &mut vars);
    collect_vars(b, &mut vars);
    if vars.is_empty() || vars.len() > 3 {
        return None;
    }
    let p = pool(a, b, max_u);
    let vs: Vec<(usize, String)> = vars.into_iter().collect();
    let cands: Vec<Vec<&Sexp>> = vs
        .iter()
        .map(|(v, k)| {
            let lim = ui.get(v).cloned().unwrap_or(usize::MAX);
            p.iter()
                .filter(|t| {
                    let mut us = vec![];
                    placeholders_universes(t, &mut us);
                    us.iter().all(|u| *u <= lim) && (k != "i" || is_int_scalar(t)) && (k != "f" || is_float_scalar(t))
                })
                .collect()
        })
        .collect();
    let total: usize = cands.iter().map(|c| c.len().max(1)).product();
    if total > 30000 {
        return None;
    }
    let mut idx = vec![0usize; vs.len()];
    if cands.iter().any(|c| c.is_empty()) {
        return None;
    }
    loop {
        let mut m = BTreeMap::new();
        for (i, (v, _)) in vs.iter().enumerate() {
            m.insert(*v, cands[i][idx[i]].clone());
        }
        if subst_vars(a, &m) == subst_vars(b, &m) {
            return Some(m);
        }
        let mut i = 0;
        loop {
            if i == idx.len() {
                return None;
            }
            idx[i] += 1;
            if idx[i] < cands[i].len() {
                break;
            }
            idx[i] = 0;
            i += 1;
        }
    }
}

// ------------------------------------------------------------------ C29 oracle

/// The lifetime constraints `x: y` that relating `a` to `b` at variance `v` must impose, from the
/// variance rules alone (chalk orients lifetimes so that `&'a T` is *contravariant* in `'a`: a
/// lifetime position of variance Covariant between `la` and `lb` demands `lb: la`, Contravariant
/// `la: lb`, Invariant both). `&mut T` and `*mut T` are invariant in `T`, `&T`/`*const T`/slices/
/// tuples covariant, fn pointers contravariant in parameters and covariant in the result (an
/// invariant relation of two fn pointers is two subtypings), ADT/fn-def parameters have their
/// declared variance, every other constructor is invariant in its parameters.
/// Returns None when the two types do not have the same shape or leave the fragment.
fn spec_constraints(db: &TableDb, v: Variance, a: &Sexp, b: &Sexp, out: &mut Vec<(Sexp, Sexp)>) -> Option<()> {
    if a == b {
        return Some(());
    }
    let (ha, xa) = match a.tagged() {
        Some(x) => x,
        None => return None, // two different atoms
    };
    let (hb, xb) = b.tagged()?;
    if ha != hb {
        return None;
    }
    let args = |v: Variance, vs: Option<Vec<Variance>>, xs: &Sexp, ys: &Sexp, out: &mut Vec<(Sexp, Sexp)>| -> Option<()> {
        let (xs, ys) = (xs.as_list()?, ys.as_list()?);
        if xs.len() != ys.len() {
            return None;
        }
        for (i, (x, y)) in xs.iter().zip(ys).enumerate() {
            let w = match &vs {
                Some(l) => *l.get(i)?,
                None => Variance::Invariant,
            };
            let (gx, ax) = x.tagged()?;
            let (gy, ay) = y.tagged()?;
            if gx != gy {
                return None;
            }
            match gx {
                "ty" => spec_constraints(db, xform(v, w), &ax[0], &ay[0], out)?,
                "lt" => spec_lifetime(xform(v, w), &ax[0], &ay[0], out)?,
                _ => {
                    if ax != ay {
                        return None;
                    }
                }
            }
        }
        Some(())
    };
    match (ha, xa, xb) {
        ("adt", [i, x], [j, y]) if i == j => args(v, Some(db.adts.get(i.as_nat()?).cloned().unwrap_or_default()), x, y, out),
        ("fndef", [i, x], [j, y]) if i == j => args(v, Some(db.fns.get(i.as_nat()?).cloned().unwrap_or_default()), x, y, out),
        ("tuple", [i, x], [j, y]) if i == j => args(v, Some(vec![Variance::Covariant; i.as_nat()?]), x, y, out),
        ("assoc", [i, x], [j, y]) | ("opaque-ty", [i, x], [j, y]) | ("closure", [i, x], [j, y]) | ("coroutine", [i, x], [j, y]) | ("witness", [i, x], [j, y])
            if i == j =>
        {
            args(v, None, x, y, out)
        }
        ("slice", [x], [y]) => spec_constraints(db, v, x, y, out),
        ("array", [x, cx], [y, cy]) => {
            spec_constraints(db, v, x, y, out)?;
            // constants: same value, types related like the element type
            let (xs, ys) = (cx.tagged()?.1, cy.tagged()?.1);
            if xs.len() != 2 || ys.len() != 2 || xs[1] != ys[1] {
                return None;
            }
            spec_constraints(db, v, &xs[0], &ys[0], out)
        }
        ("raw", [m, x], [n, y]) if m == n => {
            spec_constraints(db, xform(v, if m.as_nat()? == 1 { Variance::Invariant } else { Variance::Covariant }), x, y, out)
        }
        ("ref", [m, la, x], [n, lb, y]) if m == n => {
            spec_lifetime(xform(v, Variance::Contravariant), la, lb, out)?;
            spec_constraints(db, xform(v, if m.as_nat()? == 1 { Variance::Invariant } else { Variance::Covariant }), x, y, out)
        }
        ("fn", [nb, sig, x], [nb2, sig2, y]) if nb.as_nat()? == 0 && nb2.as_nat()? == 0 && sig == sig2 => {
            let (xs, ys) = (x.as_list()?, y.as_list()?);
            if xs.len() != ys.len() || xs.is_empty() {
                return None;
            }
            let one = |v: Variance, out: &mut Vec<(Sexp, Sexp)>| -> Option<()> {
                let n = xs.len();
                for k in 0..n {
                    let (gx, ax) = xs[k].tagged()?;
                    let (gy, ay) = ys[k].tagged()?;
                    if gx != "ty" || gy != "ty" {
                        return None;
                    }
                    let w = if k + 1 < n { xform(v, Variance::Contravariant) } else { v };
                    spec_constraints(db, w, &ax[0], &ay[0], out)?;
                }
                Some(())
            };
            match v {
                Variance::Invariant => {
                    one(Variance::Contravariant, out)?;
                    one(Variance::Covariant, out)
                }
                v => one(v, out),
            }
        }
        _ => None,
    }
}

fn erase_lifetimes(s: &Sexp) -> Sexp {
    match s {
        Sexp::Atom(a) if a == "erased" || a == "lerror" => atom("static"),
        Sexp::Atom(_) => s.clone(),
        Sexp::List(xs) => match s.tagged() {
            Some(("lph", _)) | Some(("linfer", _)) => atom("static"),
            _ => Sexp::List(xs.iter().map(erase_lifetimes).collect()),
        },
    }
}

fn spec_lifetime(v: Variance, la: &Sexp, lb: &Sexp, out: &mut Vec<(Sexp, Sexp)>) -> Option<()> {
    if la == lb {
        return Some(());
    }
    let bad = |l: &Sexp| matches!(l.tagged(), Some(("lbound", _)));
    if bad(la) || bad(lb) {
        return None;
    }
    // the error lifetime stands for an already reported error: it is compatible with everything
    if la.as_atom() == Some("lerror") || lb.as_atom() == Some("lerror") {
        // (the unifier treats `error` against a lifetime *variable* like any other lifetime; that
        // combination is left to the model comparison)
        if matches!(la.tagged(), Some(("linfer", _))) || matches!(lb.tagged(), Some(("linfer", _))) {
            return None;
        }
        return Some(());
    }
    if matches!(v, Variance::Invariant | Variance::Contravariant) {
        out.push((la.clone(), lb.clone()));
    }
    if matches!(v, Variance::Invariant | Variance::Covariant) {
        out.push((lb.clone(), la.clone()));
    }
    Some(())
}

/// are the returned goals + the lifetime bindings the unifier made equivalent to the spec?
fn check_c29(t_after: &Table, spec: &[(Sexp, Sexp)], goals: &[Sexp], exact: bool) -> Result<(), (String, &'static str)> {
    check_c29_inner(t_after, spec, goals, exact)
}
fn check_c29_inner(t_after: &Table, spec: &[(Sexp, Sexp)], goals: &[Sexp], exact: bool) -> Result<(), (String, &'static str)> {
    const D: &str = "variance_constraints_differ";
    let mut t = t_after.clone();
    let n = num_vars(t_after);
    let norm = |t: &mut Table, l: &Sexp| resolve(t, l, n + 1, true);
    let mut got: Vec<(Sexp, Sexp)> = vec![];
    for g in goals {
        match g.tagged() {
            Some(("outlives", [x, y])) => got.push((x.clone(), y.clone())),
            _ => return Err((format!("unexpected goal {}", g), D)),
        }
    }
    if exact {
        // no lifetime variables, no invariant fn pointers: the multisets must agree literally
        let mut s1: Vec<String> = spec.iter().map(|(x, y)| format!("{} {}", x, y)).collect();
        let mut s2: Vec<String> = got.iter().map(|(x, y)| format!("{} {}", x, y)).collect();
        s1.sort();
        s2.sort();
        if s1 != s2 {
            return Err((format!("multiset differs: spec [{}] returned [{}]", s1.join("; "), s2.join("; ")), D));
        }
        return Ok(());
    }
    let spec_n: BTreeSet<(Sexp, Sexp)> = spec.iter().map(|(x, y)| (norm(&mut t, x), norm(&mut t, y))).filter(|(x, y)| x != y).collect();
    let got_n: BTreeSet<(Sexp, Sexp)> = got.iter().map(|(x, y)| (norm(&mut t, x), norm(&mut t, y))).filter(|(x, y)| x != y).collect();
    if spec_n != got_n {
        return Err((
            format!(
                "after applying the bindings: spec {{{}}} returned {{{}}}",
                spec_n.iter().map(|(x, y)| format!("{}: {}", x, y)).collect::<Vec<_>>().join("; "),
                got_n.iter().map(|(x, y)| format!("{}: {}", x, y)).collect::<Vec<_>>().join("; ")
            ),
            D,
        ));
    }
    // every identification the unifier made must be entailed by the spec (x: y and y: x reachable)
    let mut nodes: BTreeSet<Sexp> = BTreeSet::new();
    for (x, y) in spec {
        nodes.insert(x.clone());
        nodes.insert(y.clone());
    }
    let reach = |from: &Sexp, to: &Sexp| -> bool {
        let mut seen: BTreeSet<Sexp> = BTreeSet::new();
        let mut todo = vec![from.clone()];
        while let Some(x) = todo.pop() {
            if &x == to {
                return true;
            }
            if !seen.insert(x.clone()) {
                continue;
            }
            for (p, q) in spec {
                if p == &x {
                    todo.push(q.clone());
                }
            }
        }
        false
    };
    let ns: Vec<Sexp> = nodes.into_iter().collect();
    for x in &ns {
        for y in &ns {
            if x < y && norm(&mut t, x) == norm(&mut t, y) && !(reach(x, y) && reach(y, x)) {
                // classification only: when some position relates two lifetime *variables* in one
                // direction, the unifier's habit of unifying them (F16) explains identifications that
                // follow from it together with legitimate bindings
                let is_lv = |l: &Sexp| matches!(l.tagged(), Some(("linfer", _)));
                let both_vars = spec.iter().any(|(p, q)| is_lv(p) && is_lv(q) && !(reach(p, q) && reach(q, p)));
                return Err((
                    format!("{} and {} were identified although the variance rules do not force them equal", x, y),
                    if both_vars { "lifetime_vars_unified_under_subtyping" } else { D },
                ));
            }
        }
    }
    Ok(())
}

// ------------------------------------------------------------------ executing one request

#[derive(Clone, Copy, PartialEq)]
enum Prop {
    C14,
    C15,
    C29,
}

fn exec(req: &Req, prop: Prop, out: &mut Out, tags: &str, same_shape: bool) {
    let line = enc_req(req).to_string();
    let mut table: Table = InferenceTable::new();
    let mut hist = vec![atom("hist")];
    for (k, op) in req.script.iter().enumerate() {
        match op {
            Op::NewUniverse => {
                table.new_universe();
            }
            Op::NewVar(ui) => {
                table.new_variable(UniverseIndex { counter: *ui });
            }
            Op::Relate(v, a, b) => {
                let (ta, tb) = (dec_ty(a).unwrap(), dec_ty(b).unwrap());
                match do_relate(&mut table, &req.db, *v, &ta, &tb) {
                    Ok(Some(_)) => hist.push(atom("1")),
                    Ok(None) => hist.push(atom("0")),
                    Err(site) => {
                        out.count("panic_in_history");
                        out.case(line, tagged("panic-in-history", vec![nat(k), atom(&site.replace(' ', "-"))]).to_string(), true, tags);
                        return;
                    }
                }
            }
        }
    }
    let hist = Sexp::List(hist);
    let before = table.clone();
    let obs_before = probe_section(&before);
    let (ta, tb) = (dec_ty(&req.a).unwrap(), dec_ty(&req.b).unwrap());
    let r = do_relate(&mut table, &req.db, req.v, &ta, &tb);
    let n_before = num_vars(&before);
    let mut bc = before.clone();
    let ra = resolve(&mut bc, &req.a, n_before + 1, true);
    let rb = resolve(&mut bc, &req.b, n_before + 1, true);
    let first_order = !has_head(&ra, NON_FO) && !has_head(&rb, NON_FO);
    let resp = match &r {
        Err(site) => {
            out.count("panic");
            tagged("panic", vec![atom(&site.replace(' ', "-"))])
        }
        Ok(None) => {
            out.count("no_solution");
            let obs_after = probe_section(&table);
            // C15 (i): failure leaves every observation unchanged
            out.evaluations_extra += 1;
            if obs_after != obs_before {
                out.fail(
                    &format!("failed relate changed the table: before {} after {}", obs_before, obs_after),
                    &line,
                    "relate_fail_state_changed",
                );
            }
            // C14 (ii): no unifier exists
            if first_order && prop != Prop::C29 {
                let mut ui = BTreeMap::new();
                let mut vars = BTreeMap::new();
                collect_vars(&ra, &mut vars);
                collect_vars(&rb, &mut vars);
                for v in vars.keys() {
                    ui.insert(*v, universe_of_unbound(&before, *v));
                }
                out.evaluations_extra += 1;
                out.count("completeness_checked");
                if fo_unifiable(&ra, &rb, &ui) {
                    out.fail("relate failed although Robinson unification finds a universe-respecting unifier", &line, "relate_incomplete");
                } else if let Some(m) = brute_force_unifier(&ra, &rb, &ui, max_universe(&before)) {
                    let ms: Vec<String> = m.iter().map(|(v, t)| format!("?{} := {}", v, t)).collect();
                    out.fail(&format!("relate failed although {} unifies the types", ms.join(", ")), &line, "relate_incomplete_bruteforce");
                }
            }
            tagged("err", vec![atom("no-solution"), hist.clone(), obs_after])
        }
        Ok(Some(goals)) => {
            out.count("ok");
            if !goals.is_empty() {
                out.count("ok_with_goals");
            }
            // C14 (iii): the new table extends the old one: bound variables keep their values,
            // classes only merge, universes of unbound variables only decrease
            if prop != Prop::C29 {
                let (mut b0, mut t1) = (before.clone(), table.clone());
                out.evaluations_extra += 1;
                let mut root_map: BTreeMap<usize, usize> = BTreeMap::new();
                for v in 0..n_before {
                    let (p0, p1) = (probe_raw(&mut b0, v).map(|g| enc_garg(&g)), probe_raw(&mut t1, v).map(|g| enc_garg(&g)));
                    if let Some(g0) = &p0 {
                        if p1.as_ref() != Some(g0) {
                            out.fail(&format!("variable {} was bound to {} before the relate and is {:?} after", v, g0, p1.map(|x| x.to_string())), &line, "relate_not_extending");
                        }
                    } else if p1.is_none() && universe_of_unbound(&table, v) > universe_of_unbound(&before, v) {
                        out.fail(&format!("universe of unbound variable {} grew", v), &line, "relate_universe_grew");
                    }
                    let r0 = b0.inference_var_root(InferenceVar::from(v as u32)).index() as usize;
                    let r1 = t1.inference_var_root(InferenceVar::from(v as u32)).index() as usize;
                    if let Some(prev) = root_map.insert(r0, r1) {
                        if prev != r1 {
                            out.fail(&format!("class of root {} was split", r0), &line, "relate_class_split");
                        }
                    }
                }
            }
            // C14 (i): the result equates the two types
            if first_order && goals.is_empty() && prop != Prop::C29 {
                let n = num_vars(&table);
                let mut tc = table.clone();
                let (xa, xb) = (resolve(&mut tc, &req.a, n + 1, true), resolve(&mut tc, &req.b, n + 1, true));
                out.evaluations_extra += 1;
                out.count("soundness_checked");
                if xa != xb {
                    out.fail(&format!("relate succeeded but the types differ after resolution: {} vs {}", xa, xb), &line, "relate_unsound");
                }
                // and a unifier must exist by the independent algorithm as well
                let mut ui = BTreeMap::new();
                if !fo_unifiable(&ra, &rb, &ui_all(&before, &ra, &rb, &mut ui)) {
                    out.fail("relate succeeded although no universe-respecting unifier exists", &line, "relate_unsound_universe");
                }
            }
            // C29: the outlives goals are those dictated by variance
            if prop == Prop::C29 && same_shape {
                let mut spec = vec![];
                if spec_constraints(&req.db, req.v, &ra, &rb, &mut spec).is_some() && goals.iter().all(|g| matches!(g.tagged(), Some(("outlives", _)))) {
                    let has_lvars = has_head(&ra, &["linfer"]) || has_head(&rb, &["linfer"]);
                    let exact = !has_lvars && !has_head(&ra, &["fn"]);
                    out.evaluations_extra += 1;
                    out.count(if exact { "variance_checked_exact" } else { "variance_checked_equiv" });
                    if let Err((e, cls)) = check_c29(&table, &spec, goals, exact) {
                        out.fail(&format!("outlives goals are not those dictated by variance: {}", e), &line, cls);
                    }
                } else {
                    out.count("variance_spec_not_applicable");
                }
            }
            tagged("ok", vec![hist.clone(), Sexp::List(std::iter::once(atom("goals")).chain(goals.iter().cloned()).collect()), probe_section(&table)])
        }
    };
    if prop == Prop::C29 && same_shape {
        // structure: same shape must succeed (rigid fragment)
        let rigid = !has_head(&ra, &["infer", "cinfer", "proj", "opaque", "dyn", "error", "bound", "lbound", "cbound"])
            && !has_head(&rb, &["infer", "cinfer", "proj", "opaque", "dyn", "error", "bound", "lbound", "cbound"]);
        if rigid {
            // "same structure" = equal after erasing every lifetime (as `Ty.eraseLt` in the theorem)
            let shape_ok = erase_lifetimes(&ra) == erase_lifetimes(&rb);
            out.evaluations_extra += 1;
            match (&r, shape_ok) {
                (Ok(Some(_)), false) => out.fail("relate succeeded on types of different structure", &line, "variance_struct_accepts"),
                (Ok(None), true) => out.fail("relate failed on types of the same structure", &line, "variance_struct_rejects"),
                _ => {}
            }
        }
    }
    // C15 (ii): the order of the two types does not change success
    if let (Ok(res), true) = (&r, prop == Prop::C15) {
        let mut t2 = before.clone();
        if let Ok(res2) = do_relate(&mut t2, &req.db, invert(req.v), &tb, &ta) {
            out.evaluations_extra += 1;
            if res.is_some() != res2.is_some() {
                out.fail(
                    &format!("relate({:?}, a, b) {} but relate({:?}, b, a) {}", req.v, if res.is_some() { "succeeds" } else { "fails" }, invert(req.v), if res2.is_some() { "succeeds" } else { "fails" }),
                    &line,
                    // `TyKind::Error` relates to everything without binding anything, but only once a
                    // variable has been resolved to it; under `relate_binders` the two orders visit
                    // the arguments in a different sequence (F17)
                    if has_head(&req.a, &["error"]) || has_head(&req.b, &["error"]) || has_head(&ra, &["error"]) || has_head(&rb, &["error"]) {
                        "relate_order_dependent_error_type"
                    } else {
                        "relate_order_dependent"
                    },
                );
            }
        }
    }
    let rs = resp.to_string();
    let nontrivial = !rs.starts_with("(ok") || rs.contains("(bound") || rs.contains("(outlives") || rs.contains("(subtype") || rs.contains("(alias-eq");
    out.case(line, rs, nontrivial, tags);
}

fn ui_all<'a>(before: &Table, ra: &Sexp, rb: &Sexp, ui: &'a mut BTreeMap<usize, usize>) -> &'a BTreeMap<usize, usize> {
    let mut vars = BTreeMap::new();
    collect_vars(ra, &mut vars);
    collect_vars(rb, &mut vars);
    for v in vars.keys() {
        ui.insert(*v, universe_of_unbound(before, *v));
    }
    ui
}

// ------------------------------------------------------------------ generators

#[derive(Clone, Copy, PartialEq, Debug)]
enum VK {
    Gen,
    Int,
    Float,
    Lt,
    Const,
}

struct G<'a> {
    rng: &'a mut Rng,
    n_univ: usize,
    vars: Vec<(VK, usize, usize)>, // kind, universe, index in the table
    arities: Vec<Vec<char>>, // per adt id: parameter sorts 't' | 'l' | 'c'
    lifetimes: bool,
    lt_vars: bool,
    consts: bool,
    fns: bool,
    aliases: bool,
    errors: bool,
    ty_vars: bool,
    exotic: bool,
    lt_heavy: bool,
}

const INT_CODES: [usize; 4] = [13, 14, 21, 23];
const FLOAT_CODES: [usize; 2] = [31, 32];

impl<'a> G<'a> {
    fn vars_of(&self, k: VK) -> Vec<usize> {
        self.vars.iter().filter(|(vk, _, _)| *vk == k).map(|(_, _, i)| *i).collect()
    }
    fn lifetime(&mut self) -> Sexp {
        let lv = if self.lt_vars { self.vars_of(VK::Lt) } else { vec![] };
        match self.rng.weighted(&[3, 5, if lv.is_empty() { 0 } else { 4 }, 1, if self.errors { 1 } else { 0 }]) {
            0 => atom("static"),
            1 => tagged("lph", vec![nat(self.rng.usize_below(self.n_univ + 1)), nat(self.rng.usize_below(2))]),
            2 => tagged("linfer", vec![nat(*self.rng.pick(&lv))]),
            3 => atom("erased"),
            _ => atom("lerror"),
        }
    }
    fn konst(&mut self) -> Sexp {
        let ty = tagged("scalar", vec![nat(20)]);
        let cv = self.vars_of(VK::Const);
        let v = match self.rng.weighted(&[4, 2, if cv.is_empty() { 0 } else { 3 }]) {
            0 => tagged("cval", vec![nat(self.rng.usize_below(3))]),
            1 => tagged("cph", vec![nat(self.rng.usize_below(self.n_univ + 1)), nat(self.rng.usize_below(2))]),
            _ => tagged("cinfer", vec![nat(*self.rng.pick(&cv))]),
        };
        tagged("const", vec![ty, v])
    }
    fn var_ty(&mut self) -> Option<Sexp> {
        if !self.ty_vars {
            return None;
        }
        let all: Vec<(usize, VK)> =
            self.vars.iter().filter(|(k, _, _)| matches!(k, VK::Gen | VK::Int | VK::Float)).map(|(k, _, i)| (*i, *k)).collect();
        if all.is_empty() {
            return None;
        }
        let (i, k) = *self.rng.pick(&all);
        let kind = match k {
            VK::Gen => "g",
            VK::Int => "i",
            _ => "f",
        };
        Some(tagged("infer", vec![nat(i), atom(kind)]))
    }
    fn leaf(&mut self) -> Sexp {
        match self.rng.weighted(&[5, 1, 1, 1, if self.errors { 1 } else { 0 }, 5, 2]) {
            0 => tagged("scalar", vec![nat(*self.rng.pick(&[0usize, 1, 13, 14, 21, 23, 31, 32]))]),
            1 => atom("str"),
            2 => atom("never"),
            3 => tagged("foreign", vec![nat(self.rng.usize_below(2))]),
            4 => atom("error"),
            5 => tagged("ph", vec![nat(self.rng.usize_below(self.n_univ + 1)), nat(self.rng.usize_below(2))]),
            _ => tagged("tuple", vec![nat(0), list(vec![])]),
        }
    }
    fn args_for(&mut self, sorts: &[char], depth: usize) -> Sexp {
        list(
            sorts
                .iter()
                .map(|c| match c {
                    't' => tagged("ty", vec![self.ty(depth)]),
                    'l' => tagged("lt", vec![if self.lifetimes { self.lifetime() } else { atom("static") }]),
                    _ => tagged("ct", vec![self.konst()]),
                })
                .collect(),
        )
    }
    fn ty(&mut self, depth: usize) -> Sexp {
        if depth == 0 || self.rng.chance(1, 4) {
            return self.leaf();
        }
        let d = depth - 1;
        let wl = if self.lifetimes { 1 } else { 0 };
        let wc = if self.consts { 1 } else { 0 };
        let wf = if self.fns { 1 } else { 0 };
        let wa = if self.aliases { 1 } else { 0 };
        let wx = if self.exotic { 1 } else { 0 };
        let wr = if self.lt_heavy { 14 } else { 5 };
        match self.rng.weighted(&[8, 5, 3, 3, wr * wl, 3 * wf, 2 * wx, 2 * wc, 2 * wa, wx, wx, 2 * wx]) {
            0 => {
                let id = self.rng.usize_below(self.arities.len());
                let sorts = self.arities[id].clone();
                tagged("adt", vec![nat(id), self.args_for(&sorts, d)])
            }
            1 => {
                let n = self.rng.usize_below(3);
                tagged("tuple", vec![nat(n), self.args_for(&vec!['t'; n], d)])
            }
            2 => tagged("slice", vec![self.ty(d)]),
            3 => tagged("raw", vec![nat(self.rng.usize_below(2)), self.ty(d)]),
            4 => tagged("ref", vec![nat(self.rng.usize_below(2)), self.lifetime(), self.ty(d)]),
            5 => {
                let n = 1 + self.rng.usize_below(3);
                tagged("fn", vec![nat(0), nat(self.rng.usize_below(2)), self.args_for(&vec!['t'; n], d)])
            }
            6 => {
                let id = self.rng.usize_below(self.arities.len());
                let sorts = self.arities[id].clone();
                tagged("fndef", vec![nat(id), self.args_for(&sorts, d)])
            }
            7 => tagged("array", vec![self.ty(d), self.konst()]),
            8 => {
                let n = self.rng.usize_below(2);
                tagged(if self.rng.chance(2, 3) { "proj" } else { "opaque" }, vec![nat(self.rng.usize_below(2)), self.args_for(&vec!['t'; n], d)])
            }
            9 => {
                let n = self.rng.usize_below(3);
                tagged(*self.rng.pick(&["closure", "coroutine", "witness", "assoc", "opaque-ty"]), vec![nat(self.rng.usize_below(2)), self.args_for(&vec!['t'; n], d)])
            }
            11 => {
                // dyn Trait<..> + 'l with well-scoped bounds (Self = ^1.0 inside a bound)
                let nq = self.rng.usize_below(3);
                let mut qs = vec![];
                for _ in 0..nq {
                    let selfty = tagged("ty", vec![tagged("bound", vec![nat(1), nat(0)])]);
                    let hr = self.rng.chance(1, 3);
                    let extra = if hr {
                        tagged("ty", vec![tagged("ref", vec![nat(0), tagged("lbound", vec![nat(0), nat(0)]), self.ty(d)])])
                    } else {
                        tagged("ty", vec![self.ty(d)])
                    };
                    let wc = match self.rng.weighted(&[5, 2, 1, 1]) {
                        0 => {
                            let mut args = vec![selfty];
                            if self.rng.chance(2, 3) {
                                args.push(extra);
                            }
                            if self.rng.chance(1, 4) {
                                args.push(tagged("ct", vec![self.konst()]));
                            }
                            tagged("impl", vec![nat(self.rng.usize_below(2)), list(args)])
                        }
                        1 => tagged("aeq-proj", vec![nat(self.rng.usize_below(2)), list(vec![selfty]), self.ty(d)]),
                        2 => tagged("aeq-opaque", vec![nat(self.rng.usize_below(2)), list(vec![selfty, extra]), self.ty(d)]),
                        _ => tagged("ty-outlives", vec![tagged("bound", vec![nat(1), nat(0)]), self.lifetime()]),
                    };
                    qs.push(tagged("qwc", vec![list(if hr { vec![atom("klt")] } else { vec![] }), wc]));
                }
                tagged("dyn", vec![list(vec![tagged("kty", vec![atom("g")])]), list(qs), self.lifetime()])
            }
            _ => {
                // fn pointer with binders: for<'x> fn(&'x T) -> U
                let inner = self.ty(d);
                let ret = self.ty(d);
                let r = tagged("ref", vec![nat(0), tagged("lbound", vec![nat(0), nat(0)]), inner]);
                tagged("fn", vec![nat(1), nat(0), list(vec![tagged("ty", vec![r]), tagged("ty", vec![ret])])])
            }
        }
    }
    /// replace random type subterms by declared type variables
    fn generalize(&mut self, s: &Sexp, p_num: u64, p_den: u64) -> Sexp {
        let mut f = |t: &Sexp| -> Option<Sexp> {
            if self.rng.chance(p_num, p_den) {
                // respect the kind of integer/float variables most of the time
                let v = self.var_ty()?;
                let k = v.tagged().unwrap().1[1].as_atom().unwrap().to_string();
                if (k == "i" && !is_int_scalar(t) || k == "f" && !is_float_scalar(t)) && !self.rng.chance(1, 8) {
                    return None;
                }
                Some(v)
            } else {
                None
            }
        };
        map_types(s, &mut f)
    }
    /// change the lifetimes (keeping the shape)
    fn relifetime(&mut self, s: &Sexp, p_num: u64, p_den: u64) -> Sexp {
        match s {
            Sexp::Atom(a) if a == "static" || a == "erased" || a == "lerror" => {
                if self.rng.chance(p_num, p_den) {
                    self.lifetime()
                } else {
                    s.clone()
                }
            }
            Sexp::Atom(_) => s.clone(),
            Sexp::List(xs) => {
                if let Some((h, _)) = s.tagged() {
                    if h == "lph" || h == "linfer" {
                        return if self.rng.chance(p_num, p_den) { self.lifetime() } else { s.clone() };
                    }
                }
                Sexp::List(xs.iter().map(|x| self.relifetime(x, p_num, p_den)).collect())
            }
        }
    }
}

/// small edit that destroys unifiability (one constructor / id / mutability / scalar / placeholder)
fn edit(rng: &mut Rng, s: &Sexp) -> Sexp {
    let mut done = false;
    let mut f = |t: &Sexp| -> Option<Sexp> {
        if done || !rng.chance(1, 3) {
            return None;
        }
        match t {
            Sexp::Atom(a) if a == "str" => {
                done = true;
                Some(atom("never"))
            }
            Sexp::Atom(a) if a == "never" => {
                done = true;
                Some(atom("str"))
            }
            Sexp::List(xs) => {
                let h = xs[0].as_atom().unwrap_or("");
                match h {
                    "foreign" => {
                        done = true;
                        let mut ys = xs.clone();
                        ys[1] = nat((ys[1].as_nat().unwrap_or(0) + 1) % 4);
                        Some(Sexp::List(ys))
                    }
                    "adt" | "fndef" | "closure" => {
                        // another head over the same arguments (ids keep their arities)
                        done = true;
                        let mut ys = xs.clone();
                        ys[0] = atom(if h == "adt" { "fndef" } else { "adt" });
                        Some(Sexp::List(ys))
                    }
                    "scalar" => {
                        done = true;
                        let c = xs[1].as_nat().unwrap_or(0);
                        Some(tagged("scalar", vec![nat(if c == 13 { 31 } else { 13 })]))
                    }
                    "ph" => {
                        done = true;
                        Some(tagged("ph", vec![xs[1].clone(), nat(1 - xs[2].as_nat().unwrap_or(0).min(1))]))
                    }
                    "raw" | "ref" => {
                        done = true;
                        let mut ys = xs.clone();
                        ys[1] = nat(1 - ys[1].as_nat().unwrap_or(0));
                        Some(Sexp::List(ys))
                    }
                    "slice" => {
                        done = true;
                        Some(tagged("raw", vec![nat(0), xs[1].clone()]))
                    }
                    "tuple" if xs[1].as_nat() == Some(0) => {
                        done = true;
                        Some(atom("never"))
                    }
                    _ => None,
                }
            }
            _ => None,
        }
    };
    map_types(s, &mut f)
}

fn gen_case(rng: &mut Rng, prop: Prop, idx: usize) -> (Req, &'static str, bool) {
    let vs = [Variance::Covariant, Variance::Invariant, Variance::Contravariant];
    // stream mix per property
    let stream = match prop {
        Prop::C14 => rng.weighted(&[7, 1, 2]), // first-order / with lifetimes etc. / everything
        Prop::C15 => rng.weighted(&[4, 3, 3]),
        Prop::C29 => rng.weighted(&[0, 8, 2]),
    };
    let _ = idx;
    let n_univ = rng.usize_below(4);
    let mut script = vec![];
    // the real table is run alongside so that variable numbers are those chalk will assign
    // (generalization creates variables of its own)
    let mut table: Table = InferenceTable::new();
    for _ in 0..n_univ {
        script.push(Op::NewUniverse);
        table.new_universe();
    }
    let mut vars: Vec<(VK, usize, usize)> = vec![];
    let n_gen = if prop == Prop::C29 && stream == 1 { 0 } else { 1 + rng.usize_below(4) };
    let decl = |k: VK, n: usize, rng: &mut Rng, vars: &mut Vec<(VK, usize, usize)>, script: &mut Vec<Op>, table: &mut Table| {
        for _ in 0..n {
            let ui = rng.usize_below(n_univ + 1);
            let v: InferenceVar = table.new_variable(UniverseIndex { counter: ui }).into();
            vars.push((k, ui, v.index() as usize));
            script.push(Op::NewVar(ui));
        }
    };
    decl(VK::Gen, n_gen, rng, &mut vars, &mut script, &mut table);
    if stream != 1 || prop != Prop::C29 {
        let ni = rng.usize_below(2);
        decl(VK::Int, ni, rng, &mut vars, &mut script, &mut table);
        let nf = rng.usize_below(2);
        decl(VK::Float, nf, rng, &mut vars, &mut script, &mut table);
    }
    if stream != 0 {
        let nl = rng.usize_below(3);
        decl(VK::Lt, nl, rng, &mut vars, &mut script, &mut table);
        if stream == 2 {
            let nc = rng.usize_below(2);
            decl(VK::Const, nc, rng, &mut vars, &mut script, &mut table);
        }
    }
    // ADT parameter sorts and variance tables
    let n_adts = 3;
    let arities: Vec<Vec<char>> = (0..n_adts)
        .map(|_| {
            let n = rng.usize_below(3);
            (0..n)
                .map(|_| match (stream, rng.weighted(&[5, if prop == Prop::C29 { 7 } else { 3 }, 1])) {
                    (0, _) => 't',
                    (_, 0) => 't',
                    (_, 1) => 'l',
                    (2, _) => 'c',
                    _ => 't',
                })
                .collect()
        })
        .collect();
    let malformed = rng.chance(1, 40);
    let mk_tab = |rng: &mut Rng| -> Vec<Vec<Variance>> {
        arities
            .iter()
            .map(|a| {
                let n = if malformed { rng.usize_below(a.len() + 1) } else { a.len() };
                (0..n).map(|_| *rng.pick(&vs)).collect()
            })
            .collect()
    };
    let db = TableDb { adts: mk_tab(rng), fns: mk_tab(rng) };
    let db2 = db.clone();
    let lt_vars = rng.chance(1, 2);
    let mut g = G {
        rng,
        n_univ,
        vars: vars.clone(),
        arities,
        lifetimes: stream != 0,
        lt_vars,
        consts: stream == 2,
        fns: stream != 0,
        aliases: stream == 2,
        errors: stream == 2,
        ty_vars: !(prop == Prop::C29 && stream == 1),
        exotic: stream == 2,
        lt_heavy: prop == Prop::C29,
    };
    let pick_v = |rng: &mut Rng, prop: Prop| -> Variance {
        match prop {
            Prop::C14 => *rng.pick(&[Variance::Invariant, Variance::Invariant, Variance::Invariant, Variance::Covariant, Variance::Contravariant]),
            _ => *rng.pick(&vs),
        }
    };
    // one derived pair
    let pair = |g: &mut G, mode: usize| -> (Sexp, Sexp) {
        let depth = 1 + g.rng.usize_below(3);
        let anc = g.ty(depth);
        let a = g.generalize(&anc, 1, 4);
        let mut b = g.generalize(&anc, 1, 4);
        match mode {
            0 => {}
            1 => b = edit(g.rng, &b),
            2 => {
                b = g.relifetime(&b, 2, 3);
            }
            3 => {
                b = g.relifetime(&b, 1, 2);
                b = edit(g.rng, &b);
            }
            _ => {
                let d = 1 + g.rng.usize_below(2);
                b = g.ty(d);
                b = g.generalize(&b, 1, 4);
            }
        }
        if g.rng.chance(1, 2) {
            (a, b)
        } else {
            (b, a)
        }
    };
    let n_hist = if prop == Prop::C29 && stream == 1 { g.rng.usize_below(3) } else { g.rng.usize_below(13) };
    for _ in 0..n_hist {
        let mode = g.rng.weighted(&[7, 1, if g.lifetimes { 3 } else { 0 }, 0, 1]);
        let (a, b) = pair(&mut g, mode);
        let v = pick_v(g.rng, prop);
        if let (Some(ta), Some(tb)) = (dec_ty(&a), dec_ty(&b)) {
            if do_relate(&mut table, &db, v, &ta, &tb).is_err() {
                // a panic inside a history step: the script ends here (the case reports it)
                script.push(Op::Relate(v, a, b));
                break;
            }
        }
        script.push(Op::Relate(v, a, b));
        // sometimes more universes / variables later on
        if g.rng.chance(1, 8) {
            script.push(Op::NewUniverse);
            table.new_universe();
            g.n_univ += 1;
        }
        if g.rng.chance(1, 6) {
            let ui = g.rng.usize_below(g.n_univ + 1);
            let nv: InferenceVar = table.new_variable(UniverseIndex { counter: ui }).into();
            g.vars.push((VK::Gen, ui, nv.index() as usize));
            script.push(Op::NewVar(ui));
        }
    }
    let mode = match prop {
        Prop::C14 => g.rng.weighted(&[5, 4, 0, 0, 1]),
        Prop::C15 => g.rng.weighted(&[3, 4, 1, 2, 1]),
        Prop::C29 => g.rng.weighted(&[1, 1, 7, 1, 0]),
    };
    let (a, mut b) = pair(&mut g, mode);
    let v = pick_v(g.rng, prop);
    let mut tag = ["unifiable", "edited", "relifetimed", "relifetimed-edited", "independent"][mode];
    if g.rng.chance(1, 40) {
        // ill-formed input: the panic arms (bound variables, an empty fn signature, a variable used
        // at the wrong sort)
        tag = "malformed";
        let lt_as_ty = g.vars_of(VK::Lt).first().cloned();
        let which = g.rng.usize_below(5);
        let mut done = false;
        let rng = &mut *g.rng;
        let mut f = |t: &Sexp| -> Option<Sexp> {
            if done || !rng.chance(1, 2) {
                return None;
            }
            done = true;
            Some(match which {
                0 => tagged("bound", vec![nat(0), nat(0)]),
                1 => tagged("fn", vec![nat(0), nat(0), list(vec![])]),
                2 => tagged("ref", vec![nat(0), tagged("lbound", vec![nat(0), nat(0)]), t.clone()]),
                3 => match lt_as_ty {
                    Some(v) => tagged("infer", vec![nat(v), atom("g")]),
                    None => tagged("bound", vec![nat(1), nat(0)]),
                },
                _ => tagged("array", vec![t.clone(), tagged("const", vec![tagged("scalar", vec![nat(20)]), tagged("cbound", vec![nat(0), nat(0)])])]),
            })
        };
        b = map_types(&b, &mut f);
    }
    (Req { db, script, v, a, b }, tag, true)
}

pub fn run(ctx: &Ctx, out: &mut Out) {
    let prop = match ctx.prop.as_str() {
        "C14" => Prop::C14,
        "C15" => Prop::C15,
        _ => Prop::C29,
    };
    let mut lines = ctx.corpus_lines();
    if let Some(f) = &ctx.replay {
        lines = std::fs::read_to_string(f).unwrap_or_default().lines().map(|s| s.to_string()).collect();
    }
    for l in lines {
        if let Some(r) = parse(&l).and_then(|s| dec_req(&s)) {
            exec(&r, prop, out, "corpus", true);
        }
    }
    if ctx.replay.is_some() {
        return;
    }
    let n = ctx.budget(2000, 100000);
    for i in 0..n {
        let mut rng = ctx.rng(0, i as u64);
        let (req, tag, same_shape) = gen_case(&mut rng, prop, i);
        // round trip through chalk's own values (what is sent is what chalk holds)
        match dec_req(&enc_req(&req)) {
            Some(r) => exec(&r, prop, out, tag, same_shape),
            None => out.count("undecodable"),
        }
    }
}
