//! C07: associated types normalize to the value of the applicable impl.  Coherent generated
//! programs (one impl per self-type constructor and trait), goals `exists<U> { Normalize(..-> U) }`,
//! `X: Tr<A = Y>` (closed and with an unknown) and `forall` variants, both solvers; answers judged by
//! the certified contract (`judge-answer` / `judge-ground`) on the Normalize/AliasEq clauses.
use crate::horn::*;
use crate::rng::Rng;
use crate::solver::*;
use crate::wire::*;
use crate::{Ctx, Out};

pub const FUEL: usize = 10;

struct AProg {
    arities: Vec<usize>,
    /// (trait has a parameter?) per trait
    tparams: Vec<usize>,
    /// impls: (trait, struct)
    impls: Vec<(usize, usize)>,
    /// trait declares a second associated type `B<t>`
    second: Vec<bool>,
    text: String,
}

fn ty(rng: &mut Rng, arities: &[usize], nparams: usize, depth: usize) -> String {
    if depth == 0 || rng.chance(1, 3) {
        let mut opts: Vec<String> = vec!["u32".into()];
        for (i, a) in arities.iter().enumerate() {
            if *a == 0 {
                opts.push(format!("S{}", i));
            }
        }
        for j in 0..nparams {
            opts.push(format!("P{}", j));
            opts.push(format!("P{}", j));
        }
        return opts[rng.usize_below(opts.len())].clone();
    }
    let i = rng.usize_below(arities.len());
    if arities[i] == 0 {
        format!("S{}", i)
    } else {
        format!("S{}<{}>", i, ty(rng, arities, nparams, depth - 1))
    }
}

fn gen(rng: &mut Rng) -> AProg {
    let ns = 3 + rng.usize_below(3);
    let arities: Vec<usize> = (0..ns).map(|i| if i < 2 { 0 } else { rng.usize_below(2) }).collect();
    let nt = 1 + rng.usize_below(2);
    let tparams: Vec<usize> = (0..nt).map(|_| if rng.chance(1, 4) { 1 } else { 0 }).collect();
    // half of the traits declare a second associated type `B<t>`; impls list their `type .. = ..;`
    // items in random order (the order inside an impl need not be the trait's declaration order)
    let second: Vec<bool> = (0..nt).map(|_| rng.chance(1, 2)).collect();
    let mut s = String::new();
    for (i, a) in arities.iter().enumerate() {
        s.push_str(&format!("struct S{}{} {{}}\n", i, if *a == 1 { "<P0>" } else { "" }));
    }
    s.push_str("trait M {}\nimpl M for S0 {}\nimpl M for u32 {}\n");
    for (t, np) in tparams.iter().enumerate() {
        s.push_str(&format!(
            "trait T{}{} {{ type A{}; {}}}\n",
            t,
            if *np == 1 { "<Q0>" } else { "" },
            t,
            if second[t] { format!("type B{}; ", t) } else { String::new() }
        ));
    }
    let mut impls = vec![];
    for t in 0..nt {
        for i in 0..ns {
            if !rng.chance(3, 5) {
                continue;
            }
            // one impl per (trait, self constructor): coherent by construction
            let targ = if tparams[t] == 1 { format!("<{}>", if arities[i] == 1 && rng.chance(1, 2) { "P0".to_string() } else { "S0".to_string() }) } else { String::new() };
            if arities[i] == 1 {
                let wc = if rng.chance(1, 3) { " where P0: M" } else { "" };
                let body = assoc_items(rng, t, second[t], &arities, 1);
                s.push_str(&format!("impl<P0> T{}{} for S{}<P0>{} {{ {} }}\n", t, targ, i, wc, body));
            } else {
                let body = assoc_items(rng, t, second[t], &arities, 0);
                s.push_str(&format!("impl T{}{} for S{} {{ {} }}\n", t, targ, i, body));
            }
            impls.push((t, i));
        }
    }
    AProg { arities, tparams, impls, second, text: s }
}

/// the `type X = ..;` items of an impl of trait `t`, in random order when there are two
fn assoc_items(rng: &mut Rng, t: usize, second: bool, arities: &[usize], nparams: usize) -> String {
    let a = format!("type A{} = {};", t, ty(rng, arities, nparams, 2));
    if !second {
        return a;
    }
    let b = format!("type B{} = {};", t, ty(rng, arities, nparams, 2));
    if rng.chance(1, 2) {
        format!("{} {}", a, b)
    } else {
        format!("{} {}", b, a)
    }
}

/// the associated type of trait `t` a goal projects: `A<t>`, or `B<t>` half of the time when declared
fn assoc_name(rng: &mut Rng, p: &AProg, t: usize) -> String {
    if p.second[t] && rng.chance(1, 2) {
        format!("B{}", t)
    } else {
        format!("A{}", t)
    }
}


/// Family 2: several impls of one trait for the same constructor, told apart by their argument
/// patterns (`Pair<P0, P0>` vs `Pair<u32, S2<P0>>`, `S3<u32>` vs `S3<S0>`), by where-clauses
/// (`impl<P0> T for S3<P0> where P0: M` next to `impl T for S3<S1>` with `S1: M` unprovable) or a
/// blanket impl `impl<P0> T for P0 where P0: M`.  Coherence is established by chalk's own check: an
/// impl whose addition makes `checked_program` fail is dropped.
struct AProg2 {
    arities: Vec<usize>,
    /// (trait, self-type pattern over P0/P1)
    impls: Vec<(usize, String)>,
    ntraits: usize,
    text: String,
}

fn pattern_arg(rng: &mut Rng, arities: &[usize], params: &[&str]) -> String {
    let mut opts: Vec<String> = vec!["u32".into(), "S0".into(), "S1".into()];
    for p in params {
        opts.push(p.to_string());
        opts.push(p.to_string());
    }
    for (j, a) in arities.iter().enumerate() {
        if *a == 1 {
            opts.push(format!("S{}<{}>", j, params[rng.usize_below(params.len())]));
            opts.push(format!("S{}<u32>", j));
        }
    }
    opts[rng.usize_below(opts.len())].clone()
}

fn checked_ok(text: &str) -> bool {
    use chalk_integration::query::LoweringDatabase;
    let t = text.to_string();
    matches!(
        catch(move || chalk_integration::db::ChalkDatabase::with(&t, chalk_integration::SolverChoice::slg_default()).checked_program().map(|_| ())),
        Ok(Ok(()))
    )
}

fn gen2(rng: &mut Rng) -> AProg2 {
    let ns = 4 + rng.usize_below(2);
    // S0, S1 nullary; the last one is the binary `Pair`
    let arities: Vec<usize> = (0..ns).map(|i| if i < 2 { 0 } else if i == ns - 1 { 2 } else { rng.usize_below(2) }).collect();
    let nt = 1 + rng.usize_below(2);
    let mut base = String::new();
    for (i, a) in arities.iter().enumerate() {
        base.push_str(&format!("struct S{}{} {{}}\n", i, match a { 0 => "", 1 => "<P0>", _ => "<P0, P1>" }));
    }
    base.push_str("trait M {}\nimpl M for S0 {}\nimpl M for u32 {}\n");
    for t in 0..nt {
        base.push_str(&format!("trait T{} {{ type A{}; }}\n", t, t));
    }
    let mut impls: Vec<(usize, String)> = vec![];
    let mut lines: Vec<String> = vec![];
    for t in 0..nt {
        let k = 3 + rng.usize_below(4);
        for _ in 0..k {
            let i = rng.usize_below(ns);
            let (pat, wc) = if rng.chance(1, 10) {
                ("P0".to_string(), " where P0: M".to_string())
            } else {
                let pat = match arities[i] {
                    0 => format!("S{}", i),
                    1 => format!("S{}<{}>", i, pattern_arg(rng, &arities, &["P0"])),
                    _ => format!("S{}<{}, {}>", i, pattern_arg(rng, &arities, &["P0", "P1"]), pattern_arg(rng, &arities, &["P0", "P0", "P1"])),
                };
                let wc = if pat.contains("P0") && rng.chance(1, 3) { " where P0: M".to_string() } else { String::new() };
                (pat, wc)
            };
            let used: Vec<&str> = ["P0", "P1"].iter().cloned().filter(|p| pat.contains(p)).collect();
            let binder = if used.is_empty() { String::new() } else { format!("<{}>", used.join(", ")) };
            // the value may mention the impl's parameters
            let mut val = ty(rng, &arities[..ns - 1], 0, 2);
            if !used.is_empty() && rng.chance(1, 2) {
                val = match rng.usize_below(3) {
                    0 => used[rng.usize_below(used.len())].to_string(),
                    1 => format!("S{}<{}, u32>", ns - 1, used[0]),
                    _ => val,
                };
            }
            let line = format!("impl{} T{} for {}{} {{ type A{} = {}; }}\n", binder, t, pat, wc, t, val);
            let candidate = format!("{}{}{}", base, lines.concat(), line);
            if checked_ok(&candidate) {
                lines.push(line);
                impls.push((t, pat));
            }
        }
    }
    // declaration order is part of what is exercised: shuffle
    for i in (1..lines.len()).rev() {
        let j = rng.usize_below(i + 1);
        lines.swap(i, j);
    }
    AProg2 { arities, impls, ntraits: nt, text: format!("{}{}", base, lines.concat()) }
}

fn proj2(rng: &mut Rng, p: &AProg2, var: Option<&str>) -> (String, usize) {
    let ns = p.arities.len();
    if !p.impls.is_empty() && rng.chance(5, 6) {
        let (t, pat) = &p.impls[rng.usize_below(p.impls.len())];
        let mut inst = |rng: &mut Rng| -> String {
            if let Some(v) = var {
                if rng.chance(1, 2) {
                    return v.to_string();
                }
            }
            ty(rng, &p.arities[..ns - 1], 0, 1)
        };
        let a = inst(rng);
        let b = if rng.chance(1, 3) { a.clone() } else { inst(rng) };
        (pat.replace("P0", &a).replace("P1", &b), *t)
    } else {
        let i = rng.usize_below(ns);
        let s = match p.arities[i] {
            0 => format!("S{}", i),
            1 => format!("S{}<{}>", i, ty(rng, &p.arities[..ns - 1], 0, 1)),
            _ => format!("S{}<{}, {}>", i, ty(rng, &p.arities[..ns - 1], 0, 1), ty(rng, &p.arities[..ns - 1], 0, 1)),
        };
        (s, rng.usize_below(p.ntraits))
    }
}

fn proj(rng: &mut Rng, p: &AProg, vars: &[&str]) -> (String, usize, String) {
    // a projection `<Ty as Tk>::Ak`, mostly on a self type that has an impl
    let (t, i) = if !p.impls.is_empty() && rng.chance(4, 5) {
        p.impls[rng.usize_below(p.impls.len())]
    } else {
        (rng.usize_below(p.tparams.len()), rng.usize_below(p.arities.len()))
    };
    let inner = if !vars.is_empty() && rng.chance(1, 2) { vars[0].to_string() } else { ty(rng, &p.arities, 0, 1) };
    let self_ty = if p.arities[i] == 1 { format!("S{}<{}>", i, inner) } else { format!("S{}", i) };
    let targ = if p.tparams[t] == 1 { "<S0>".to_string() } else { String::new() };
    (self_ty, t, targ)
}

pub fn run(ctx: &Ctx, out: &mut Out) {
    let mut jobs: Vec<(String, Vec<String>)> = vec![];
    // corpus lines `program | lines ;; goal ; goal`
    for l in ctx.corpus_lines() {
        if let Some((p, g)) = l.split_once(";;") {
            jobs.push((p.trim().replace(" | ", "\n"), g.split(';').map(|s| s.trim().to_string()).collect()));
        }
    }
    let nprog = ctx.budget(150, 5000);
    for i in 0..nprog {
        let mut rng = ctx.rng(0, i as u64);
        let p = gen(&mut rng);
        if p.second.iter().any(|b| *b) {
            out.count("family1_two_assoc_types");
        }
        let mut goals = vec![];
        for k in 0..8 {
            let gtext = match k % 4 {
                0 => {
                    let (s, t, a) = proj(&mut rng, &p, &[]);
                    let an = assoc_name(&mut rng, &p, t);
                    format!("exists<U> {{ Normalize(<{} as T{}{}>::{} -> U) }}", s, t, a, an)
                }
                1 => {
                    let (s, t, a) = proj(&mut rng, &p, &[]);
                    let an = assoc_name(&mut rng, &p, t);
                    let inner = if a.is_empty() { format!("{} = {}", an, ty(&mut rng, &p.arities, 0, 2)) } else { format!("S0, {} = {}", an, ty(&mut rng, &p.arities, 0, 2)) };
                    format!("{}: T{}<{}>", s, t, inner)
                }
                2 => {
                    let (s, t, a) = proj(&mut rng, &p, &[]);
                    let an = assoc_name(&mut rng, &p, t);
                    let inner = if a.is_empty() { format!("{} = U", an) } else { format!("S0, {} = U", an) };
                    format!("exists<U> {{ {}: T{}<{}> }}", s, t, inner)
                }
                _ => {
                    let (s, t, a) = proj(&mut rng, &p, &["X"]);
                    let an = assoc_name(&mut rng, &p, t);
                    format!("forall<X> {{ exists<U> {{ Normalize(<{} as T{}{}>::{} -> U) }} }}", s, t, a, an)
                }
            };
            goals.push(gtext);
        }
        jobs.push((p.text.clone(), goals));
    }
    // family 2: several impls per constructor (see gen2)
    let nprog2 = ctx.budget(120, 5000);
    for i in 0..nprog2 {
        let mut rng = ctx.rng(2, i as u64);
        let p = gen2(&mut rng);
        out.count_n("family2_impls", p.impls.len() as u64);
        let mut goals = vec![];
        for k in 0..10 {
            let gtext = match k % 4 {
                0 => {
                    let (s, t) = proj2(&mut rng, &p, None);
                    format!("exists<U> {{ Normalize(<{} as T{}>::A{} -> U) }}", s, t, t)
                }
                1 => {
                    let (s, t) = proj2(&mut rng, &p, None);
                    format!("{}: T{}<A{} = {}>", s, t, t, ty(&mut rng, &p.arities[..p.arities.len() - 1], 0, 2))
                }
                2 => {
                    let (s, t) = proj2(&mut rng, &p, None);
                    format!("exists<U> {{ {}: T{}<A{} = U> }}", s, t, t)
                }
                _ => {
                    let (s, t) = proj2(&mut rng, &p, Some("X"));
                    format!("forall<X> {{ exists<U> {{ Normalize(<{} as T{}>::A{} -> U) }} }}", s, t, t)
                }
            };
            goals.push(gtext);
        }
        jobs.push((p.text.clone(), goals));
    }
    for (jidx, (text, goals)) in jobs.into_iter().enumerate() {
        if !ctx.mine(jidx) {
            continue;
        }
        let (_db, program) = match lower_program(&text, chalk_integration::SolverChoice::slg_default()) {
            Ok(x) => x,
            Err(e) => {
                out.count("program_rejected");
                out.notes.push(format!("program rejected: {} :: {}", e, text.replace('\n', " ")));
                continue;
            }
        };
        let horn = match program_to_horn_assoc(&program) {
            Some(x) => x,
            None => {
                out.count("program_out_of_fragment");
                continue;
            }
        };
        let sig = signature(&program);
        out.count("programs");
        for (k, gtext) in goals.into_iter().enumerate() {
            let goal = match lower_goal_text(&program, &gtext) {
                Ok(g) => g,
                Err(e) => {
                    out.count("goal_rejected");
                    out.notes.push(format!("goal rejected: {} :: {}", e, gtext));
                    continue;
                }
            };
            let peeled = peel(&goal);
            let (hgoal, nvars) = match peeled_to_horn(&peeled) {
                Some(x) => x,
                None => {
                    out.count("goal_out_of_fragment");
                    continue;
                }
            };
            for (name, choice) in solver_choices() {
                if !ctx.inflight(&format!("{} | {} | goal {{ {} }}", name, text.replace('\n', " | "), gtext)) {
                    out.count("skipped_crashed_earlier");
                    continue;
                }
                let r = solve_fresh(&text, &peeled, choice);
                let kind = answer_kind(&r);
                out.count(&format!("{}_k{}_{}", name, k % 4, kind));
                let label = format!("{} | {} | goal {{ {} }}", name, text.replace('\n', " | "), gtext);
                match r {
                    Err(site) => out.fail(&format!("{} solver panicked: {}", name, site), &label, &format!("{}_panic", name)),
                    Ok(sol) => {
                        if nvars == 0 {
                            let req = tagged("judge-ground", vec![horn.clone(), hgoal.clone(), nat(FUEL), atom(kind)]);
                            out.case(req.to_string(), "ACCEPT".to_string(), true, &label);
                        } else {
                            match answer_to_horn(&sol) {
                                None => out.count("answer_out_of_fragment"),
                                Some(ans) => {
                                    let req = super::c01::judge_request(&horn, &sig, &hgoal, nvars, name == "slg", ans);
                                    out.case(req.to_string(), "ACCEPT".to_string(), true, &label);
                                }
                            }
                        }
                    }
                }
            }
        }
    }
}
