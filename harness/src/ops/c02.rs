//! C02: goals without unknowns are decided definitively, and as the program's logical meaning
//! dictates.  The verdict comes from the certified Stage-A evaluator in Lean (`judge-ground`); the
//! harness only runs the real solvers and serialises what chalk lowered.
use crate::horn::*;
use crate::progen::*;
use crate::solver::*;
use crate::wire::*;
use crate::{Ctx, Out};

pub const FUEL: usize = 12;

pub fn run(ctx: &Ctx, out: &mut Out) {
    // (program text, goal texts, graph family?)
    let mut jobs: Vec<(String, Vec<String>, bool)> = vec![];
    // corpus lines `program | lines ;; goal ; goal` (minimised past failures, replayed first)
    for l in ctx.corpus_lines() {
        if let Some((p, g)) = l.split_once(";;") {
            let text = p.trim().replace(" | ", "\n");
            let graph = text.contains("impl G for N");
            jobs.push((text, g.split(';').map(|s| s.trim().to_string()).collect(), graph));
        }
    }
    let nprog = ctx.budget(150, 5000);
    for i in 0..nprog {
        let mut rng = ctx.rng(0, i as u64);
        let coinductive = rng.chance(1, 3);
        let graph = rng.chance(1, 3);
        let (gtext_prog, gn) = if graph { graph_program(&mut rng, coinductive) } else { (String::new(), 0) };
        let mut pg = ProgGen { rng: &mut rng, cfg: ProgCfg { coinductive, growing: false, ..ProgCfg::default() } };
        let prog = pg.program();
        let text = if graph { gtext_prog.clone() } else { prog.render() };
        let goals: Vec<String> = (0..8).map(|_| if graph { graph_goal(pg.rng, gn) } else { goal_text(&pg.ground_goal(&prog, 2)) }).collect();
        jobs.push((text, goals, graph));
    }
    // provisional-result motif (see progen::provisional_program), inductive and coinductive
    let nprov = ctx.budget(100, 4000);
    for i in 0..nprov {
        let mut rng = ctx.rng(4, i as u64);
        let co = rng.chance(1, 2);
        let (text, _n, goals) = provisional_program(&mut rng, co);
        jobs.push((text, goals, true));
    }
    // blanket impls over marker traits (closed goals): positive cycles through several tables
    let nbl = ctx.budget(150, 5000);
    for i in 0..nbl {
        let mut rng = ctx.rng(5, i as u64);
        let (text, _ex, gr) = blanket_program(&mut rng);
        jobs.push((text, gr, false));
    }
    for (jidx, (text, goals, graph)) in jobs.into_iter().enumerate() {
        if !ctx.mine(jidx) {
            continue;
        }
        let (_db, program) = match lower_program(&text, chalk_integration::SolverChoice::slg_default()) {
            Ok(x) => x,
            Err(e) => {
                out.count("program_rejected");
                out.notes.push(format!("program rejected: {} :: {}", e, text.replace('\n', " ")));
                continue;
            }
        };
        let horn = match program_to_horn(&program) {
            Some(h) => h,
            None => {
                out.count("program_out_of_fragment");
                continue;
            }
        };
        if has_mixed_trait_cycle(&program) {
            out.count("program_with_mixed_cycle_skipped");
            continue;
        }
        let two_growing = crate::ops::fp::growing_wrappers(&text) >= 2;
        out.count("programs");
        if graph {
            // recursive solver's fixed-point framework vs its Lean model on the plain history of the
            // single-atom goals (Props/C05fp.lean: the model computes lfp / gfp on these instances)
            let atoms: Vec<String> = goals.iter().filter(|g| !g.contains(',') && !g.contains("not")).cloned().collect();
            crate::ops::fp::plain_history_case(out, &text, &atoms, "C02");
        }
        for gtext in goals {
            let goal = match lower_goal_text(&program, &gtext) {
                Ok(g) => g,
                Err(e) => {
                    out.count("goal_rejected");
                    out.notes.push(format!("goal rejected: {} :: {}", e, gtext));
                    continue;
                }
            };
            let hgoal = match goal_to_horn(&goal, &mut vec![], &mut 0) {
                Some(h) => h,
                None => {
                    out.count("goal_out_of_fragment");
                    continue;
                }
            };
            let peeled = peel(&goal);
            // graph family: a work budget (the SLG solver does not return on some of them, F32),
            // and the shape of the cycles the goal reaches refines the classifiers
            let shape = if graph { graph_shape(&text, &gtext) } else { "" };
            if graph {
                out.count(&format!("graph_shape_{}", shape));
            }
            for (name, choice) in solver_choices() {
                if name == "recursive" && two_growing {
                    out.count("recursive_skipped_two_growing_impls");
                    continue;
                }
                let budget = if graph { Some(if name == "slg" { 2500 } else { 200_000 }) } else { None };
                if !ctx.inflight(&format!("{} | {} | goal {{ {} }}", name, text.replace('\n', " "), gtext)) {
                    out.count("skipped_crashed_earlier");
                    continue;
                }
                let mut r = solve_fresh_budget(&text, &peeled, choice, budget);
                if name == "recursive" && matches!(&r, Err(site) if site.contains("overflow depth reached")) {
                    // the property speaks of searches within the overflow limit
                    out.count("recursive_overflow_panic");
                    continue;
                }
                if answer_kind(&r) == "ambig" {
                    // the property speaks of searches that stay within the size limit: an `Ambiguous`
                    // that disappears under wide limits was a truncation (max_size), not a verdict
                    let wide = if name == "slg" {
                        chalk_integration::SolverChoice::slg(100, None)
                    } else {
                        chalk_integration::SolverChoice::Recursive { overflow_depth: 500, caching_enabled: true, max_size: 100 }
                    };
                    let r2 = solve_fresh_budget(&text, &peeled, wide, budget);
                    if answer_kind(&r2) != "ambig" {
                        out.count("ambiguous_by_truncation_retried_with_wide_limits");
                        r = r2;
                    }
                }
                let kind = answer_kind(&r);
                out.count(&format!("{}_{}", name, kind));
                if let Err(site) = &r {
                    let cls = if site.contains("Negative subgoal had delayed_subgoals") {
                        "slg_negative_subgoal_delayed_panic".to_string()
                    } else if site == BUDGET_PANIC {
                        format!("{}_work_budget_exceeded@{}", name, shape)
                    } else {
                        "solver_panic".to_string()
                    };
                    out.fail(&format!("{} solver panicked: {}", name, site), &format!("{} ;; goal {}", text.replace('\n', " "), gtext), &cls);
                    // no answer to judge
                    continue;
                }
                let req = if graph {
                    tagged("judge-ground", vec![horn.clone(), hgoal.clone(), nat(FUEL), atom(kind), atom(&format!("{}-{}", name, shape))])
                } else {
                    tagged("judge-ground", vec![horn.clone(), hgoal.clone(), nat(FUEL), atom(kind)])
                };
                // the Lean checker answers (accepted ..) / (rejected <classifier> ..) / (inconclusive ..)
                out.case(req.to_string(), "ACCEPT".to_string(), true, &format!("{} | {} | goal {{ {} }}", name, text.replace('\n', " "), gtext));
            }
        }
    }
}
