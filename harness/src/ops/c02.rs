//! C02: goals without unknowns are decided definitively, and as the program's logical meaning
//! dictates.  The verdict comes from the certified Stage-A evaluator in Lean (`judge-ground`); the
//! harness only runs the real solvers and serialises what chalk lowered.
use crate::horn::*;
use crate::progen::*;
use crate::solver::*;
use crate::wire::*;
use crate::{Ctx, Out};

pub const FUEL: usize = 12;

pub fn run(ctx: &Ctx, out: &mut Out) {
    let nprog = ctx.budget(150, 5000);
    for i in 0..nprog {
        let mut rng = ctx.rng(0, i as u64);
        let coinductive = rng.chance(1, 3);
        let mut pg = ProgGen { rng: &mut rng, cfg: ProgCfg { coinductive, ..ProgCfg::default() } };
        let prog = pg.program();
        let text = prog.render();
        let (_db, program) = match lower_program(&text, chalk_integration::SolverChoice::slg_default()) {
            Ok(x) => x,
            Err(e) => {
                out.count("program_rejected");
                out.notes.push(format!("program rejected: {} :: {}", e, text.replace('\n', " ")));
                continue;
            }
        };
        let horn = match program_to_horn(&program) {
            Some(h) => h,
            None => {
                out.count("program_out_of_fragment");
                continue;
            }
        };
        out.count("programs");
        for _ in 0..8 {
            let g = pg.ground_goal(&prog, 2);
            let gtext = goal_text(&g);
            let goal = match lower_goal_text(&program, &gtext) {
                Ok(g) => g,
                Err(e) => {
                    out.count("goal_rejected");
                    out.notes.push(format!("goal rejected: {} :: {}", e, gtext));
                    continue;
                }
            };
            let hgoal = match goal_to_horn(&goal, &mut vec![], &mut 0) {
                Some(h) => h,
                None => {
                    out.count("goal_out_of_fragment");
                    continue;
                }
            };
            let peeled = peel(&goal);
            for (name, choice) in solver_choices() {
                let r = solve_fresh(&text, &peeled, choice);
                let kind = answer_kind(&r);
                out.count(&format!("{}_{}", name, kind));
                if let Err(site) = &r {
                    out.fail(&format!("{} solver panicked: {}", name, site), &format!("{} ;; goal {}", text.replace('\n', " "), gtext), "solver_panic");
                }
                let req = tagged("judge-ground", vec![horn.clone(), hgoal.clone(), nat(FUEL), atom(kind)]);
                // the Lean checker answers (accepted ..) / (rejected <classifier> ..) / (inconclusive ..)
                out.case(req.to_string(), "ACCEPT".to_string(), true, &format!("{} | {} | goal {{ {} }}", name, text.replace('\n', " "), gtext));
            }
        }
    }
}
