//! C09 (the size limit): `chalk_solve::solve::truncate::needs_truncation` / `TySizeVisitor` vs
//! `Truncate.visitValue` (lean/ChalkModel/Truncate.lean).
//!
//! request   (ty-size|garg-size|args-size|tys-size|wc-size|goal-size <max> <value>)
//! expected  (ok <visitor.max_size> <true|false>)
//!
//! The real function only returns the Bool; `visitor.max_size` is recovered exactly by asking the
//! real function for max = 0, 1, 2, .. until it answers false (no monotonicity assumed: the scan
//! goes on past the first false up to the node count and any later `true` is reported).
//! The inference table is fresh (`InferenceTable::new()`) with enough UNBOUND variables created for
//! every type inference variable of the term (`probe_value` of a variable that was never created
//! indexes out of bounds in ena), so `normalize_ty_shallow` is `None` throughout: bound inference
//! variables are not covered.
use crate::gen::{Gen, GenCfg};
use crate::wire::*;
use crate::{Ctx, Out};
use chalk_integration::interner::ChalkIr;
use chalk_ir::*;
use chalk_solve::infer::InferenceTable;
use chalk_solve::solve::truncate::needs_truncation;

pub const TAGS: &[&str] = &["ty-size", "garg-size", "args-size", "tys-size", "wc-size", "goal-size"];

/// the decoded value, re-serialised from what chalk holds
enum Val {
    Ty(Ty<ChalkIr>),
    GArg(GenericArg<ChalkIr>),
    Args(Substitution<ChalkIr>),
    Tys(Vec<Ty<ChalkIr>>),
    Wc(WhereClause<ChalkIr>),
    Goal(DomainGoal<ChalkIr>),
}

fn dec_val(tag: &str, s: &Sexp) -> Option<Val> {
    Some(match tag {
        "ty-size" => Val::Ty(dec_ty(s)?),
        "garg-size" => Val::GArg(dec_garg(s)?),
        "args-size" => Val::Args(dec_subst(s)?),
        "tys-size" => Val::Tys(s.as_list()?.iter().map(dec_ty).collect::<Option<Vec<_>>>()?),
        "wc-size" => Val::Wc(dec_wc(s)?),
        "goal-size" => Val::Goal(dec_domain_goal(s)?),
        _ => return None,
    })
}

fn enc_val(v: &Val) -> Sexp {
    match v {
        Val::Ty(t) => enc_ty(t),
        Val::GArg(a) => enc_garg(a),
        Val::Args(a) => enc_subst(a),
        Val::Tys(ts) => list(ts.iter().map(enc_ty).collect()),
        Val::Wc(w) => enc_wc(w),
        Val::Goal(g) => enc_domain_goal(g),
    }
}

/// largest index of a TYPE inference variable in the serialised term (the only variables the visitor probes)
fn max_ty_infer(s: &Sexp) -> Option<usize> {
    match s {
        Sexp::Atom(_) => None,
        Sexp::List(xs) => {
            let own = match s.tagged() {
                Some(("infer", [v, _])) => v.as_nat(),
                _ => None,
            };
            xs.iter().filter_map(max_ty_infer).chain(own).max()
        }
    }
}

/// THE REAL FUNCTION on a fresh table in which every type inference variable of the term exists, unbound
fn real(v: &Val, nvars: usize, max: usize) -> Result<bool, String> {
    catch(std::panic::AssertUnwindSafe(|| {
        let mut table: InferenceTable<ChalkIr> = InferenceTable::new();
        for _ in 0..nvars {
            table.new_variable(UniverseIndex::ROOT);
        }
        match v {
            Val::Ty(t) => needs_truncation(I, &mut table, max, t),
            Val::GArg(a) => needs_truncation(I, &mut table, max, a),
            Val::Args(a) => needs_truncation(I, &mut table, max, a),
            Val::Tys(ts) => needs_truncation(I, &mut table, max, ts),
            Val::Wc(w) => needs_truncation(I, &mut table, max, w),
            Val::Goal(g) => needs_truncation(I, &mut table, max, g),
        }
    }))
}

// ---- independent oracle: a plain walk over the serialised term -------------------------------------

/// number of type-node heads in `s`; the subtree of a constant is not entered (its type is not a
/// position the traversal reaches, see `hidden_in_consts`)
pub fn type_heads(s: &Sexp) -> usize {
    if let Some(("const", _)) = s.tagged() {
        return 0;
    }
    let own = if is_ty(s) { 1 } else { 0 };
    own + match s {
        Sexp::Atom(_) => 0,
        Sexp::List(xs) => xs.iter().map(type_heads).sum::<usize>(),
    }
}

/// type nodes sitting in the types of constants (what the size limit does not see)
pub fn hidden_in_consts(s: &Sexp) -> usize {
    match s {
        Sexp::Atom(_) => 0,
        Sexp::List(xs) => {
            if let Some(("const", [ty, _])) = s.tagged() {
                return type_heads(ty) + hidden_in_consts(ty);
            }
            xs.iter().map(hidden_in_consts).sum()
        }
    }
}

/// the outermost type nodes of a value (`alias_pos`: this node is the alias of a `normalize` goal,
/// which is an `AliasTy`, not a type)
fn top_types<'a>(s: &'a Sexp, alias_pos: bool, acc: &mut Vec<&'a Sexp>) {
    if let Some(("const", _)) = s.tagged() {
        return;
    }
    if is_ty(s) && !alias_pos {
        acc.push(s);
        return;
    }
    if let Sexp::List(xs) = s {
        let norm = matches!(s.tagged(), Some(("normalize", _)));
        for (i, x) in xs.iter().enumerate() {
            top_types(x, norm && i == 1, acc);
        }
    }
}

/// the size the documentation of `TySizeVisitor` promises: the largest outermost type, each processed independently
pub fn spec_size(tag: &str, s: &Sexp) -> usize {
    let mut tops = vec![];
    match (tag, s) {
        // a list of types / generic arguments: its elements are the values
        ("tys-size", Sexp::List(xs)) | ("args-size", Sexp::List(xs)) => {
            for x in xs {
                top_types(x, false, &mut tops)
            }
        }
        _ => top_types(s, false, &mut tops),
    }
    tops.iter().map(|t| type_heads(t)).max().unwrap_or(0)
}

// ---- one case ------------------------------------------------------------------------------------

pub fn one(tag: &str, max: usize, req_val: &Sexp, out: &mut Out, tags: &str) {
    let v = match dec_val(tag, req_val) {
        Some(v) => v,
        None => {
            out.count("trunc_undecodable");
            return;
        }
    };
    let enc = enc_val(&v);
    let request = tagged(tag, vec![nat(max), enc.clone()]).to_string();
    let nvars = max_ty_infer(&enc).map_or(0, |m| m + 1);
    let spec = spec_size(tag, &enc);
    // the answer for the requested limit
    let needs = match real(&v, nvars, max) {
        Ok(b) => b,
        Err(site) => {
            out.fail(&format!("needs_truncation panicked: {}", site), &request, "truncate_panic");
            out.case(request, panic_resp(&site).to_string(), true, tags);
            return;
        }
    };
    // visitor.max_size = the least limit that is not exceeded; scanned past it to see a non-monotone answer
    let mut size: Option<usize> = None;
    let mut monotone = true;
    for m in 0..=(spec + hidden_in_consts(&enc) + 3) {
        match real(&v, nvars, m) {
            Ok(false) => {
                if size.is_none() {
                    size = Some(m)
                }
            }
            Ok(true) => {
                if size.is_some() {
                    monotone = false
                }
            }
            Err(site) => {
                out.fail(&format!("needs_truncation panicked at max_size {}: {}", m, site), &request, "truncate_panic");
                return;
            }
        }
    }
    let size = match size {
        Some(s) => s,
        None => {
            out.fail(
                &format!("needs_truncation is still true at max_size {} although the value has only {} type nodes", spec + 3, spec),
                &request,
                "truncate_vs_node_count",
            );
            return;
        }
    };
    if !monotone || needs != (size > max) {
        out.fail(
            &format!("needs_truncation is not monotone in max_size: least accepted limit {}, answer {} for limit {}", size, needs, max),
            &request,
            "truncate_not_monotone",
        );
    }
    if size != spec {
        out.fail(
            &format!("needs_truncation measures {} but the largest outermost type of the value has {} type nodes", size, spec),
            &request,
            "truncate_vs_node_count",
        );
    }
    let expected = tagged("ok", vec![nat(size), atom(if needs { "true" } else { "false" })]).to_string();
    out.count(&format!("trunc_size_{:02}", if size < 20 { size } else { ((size / 10) * 10).min(90) }));
    out.count(if needs { "trunc_needs_true" } else { "trunc_needs_false" });
    out.count(&format!("trunc_kind_{}", tag));
    if hidden_in_consts(&enc) > 0 {
        out.count("trunc_terms_with_uncounted_const_types");
    }
    out.case(request, expected, size > 1, tags);
}

fn line(l: &str, out: &mut Out, tags: &str) {
    if let Some(s) = parse(l) {
        if let Some((tag, [max, v])) = s.tagged() {
            if TAGS.contains(&tag) {
                if let Some(m) = max.as_nat() {
                    one(tag, m, v, out, tags);
                }
            }
        }
    }
}

fn gen_goal(g: &mut Gen, depth: usize) -> Sexp {
    let n_ids = g.cfg.n_ids;
    let id = nat(g.rng.usize_below(n_ids));
    match g.rng.usize_below(12) {
        0 | 1 => tagged("holds", vec![g.wc(depth, 0)]),
        2 => tagged("wf-trait", vec![id, g.args(depth, 0)]),
        3 => tagged("wf-ty", vec![g.ty(depth, 0)]),
        4 => tagged("from-env-trait", vec![id, g.args(depth, 0)]),
        5 => tagged("from-env-ty", vec![g.ty(depth, 0)]),
        6 | 7 => {
            let al = tagged(if g.rng.chance(1, 2) { "proj" } else { "opaque" }, vec![id, g.args(depth, 0)]);
            tagged("normalize", vec![al, g.ty(depth, 0)])
        }
        8 => tagged(*g.rng.pick(&["is-local", "is-upstream", "is-fully-visible", "downstream-type"]), vec![g.ty(depth, 0)]),
        9 => tagged("local-impl-allowed", vec![id, g.args(depth, 0)]),
        10 => atom(*g.rng.pick(&["compatible", "reveal"])),
        _ => tagged("object-safe", vec![id]),
    }
}

pub fn run(ctx: &Ctx, out: &mut Out) {
    // corpus lines (and the generated cases below) are spread over the shards of a sharded run:
    // every case is produced by exactly one process
    if ctx.mine(0) {
        for l in ctx.corpus_lines() {
            line(&l, out, "corpus");
        }
    }
    if let Some(f) = &ctx.replay {
        for l in std::fs::read_to_string(f).unwrap_or_default().lines() {
            line(l, out, "replay");
        }
        return;
    }
    let n = ctx.budget(6000, 200000);
    let t0 = std::time::Instant::now();
    for i in 0..n {
        if !ctx.mine(i) {
            continue;
        }
        let mut rng = ctx.rng(90, i as u64);
        let depth = 1 + rng.usize_below(5);
        // a limit in 0..40; half of them small so that both answers are frequent
        let max = if rng.chance(1, 2) { rng.usize_below(40) } else { rng.usize_below(7) };
        let kind = rng.weighted(&[10, 1, 4, 2, 2, 2]);
        let mut g = Gen::new(&mut rng, GenCfg { max_depth: depth, const_ty_any: true, ..GenCfg::default() });
        let (tag, v) = match kind {
            0 => ("ty-size", g.ty(depth, 0)),
            1 => ("garg-size", g.garg(depth, 0)),
            2 => ("args-size", g.args(depth, 0)),
            3 => {
                let k = g.rng.usize_below(4);
                ("tys-size", list((0..k).map(|_| g.ty(depth, 0)).collect()))
            }
            4 => ("wc-size", g.wc(depth, 0)),
            _ => ("goal-size", gen_goal(&mut g, depth)),
        };
        one(tag, max, &v, out, "gen");
    }
    // cost of this part of the run (summed over the shards)
    out.count_n("trunc_ms", t0.elapsed().as_millis() as u64);
}
