//! C16: `InferenceTable::{canonicalize, u_canonicalize, instantiate_canonical,
//! instantiate_binders_*, invert}` and `UniverseMap::map_from_canonical` — the real code vs
//! `Canon.lean` / `UCanon.lean` / `Invert.lean`, and the property's own sentences evaluated on the
//! implementation: renamed twins (consistent renamings must give EQUAL canonical forms, inconsistent
//! or kind/universe-changing ones DIFFERENT forms), canonicalize∘instantiate round trips, universe
//! compression order + round trip, `invert` refusing exactly on reachable unbound variables.
//!
//! The inference table is described in every request by a script that both sides run:
//!   (table <numUniverses> ((new-var ui) (unify-vv a b) (bind v <garg>) ...))
//! `unify-vv` of two unbound variables goes through the real `InferenceTable::relate`; `bind` and
//! `unify-vv` involving a bound variable use the cfg(chalk_verif) hooks `verif_bind_var` /
//! `verif_unify_var_var` (plain `unify_var_value` / `unify_var_var` of the union-find table: the
//! real `relate` would generalize the value and create further variables).
use crate::gen::{heads, Gen, GenCfg};
use crate::rng::Rng;
use crate::wire::*;
use crate::wire_sol::*;
use crate::{Ctx, Out};
use chalk_integration::interner::ChalkIr;
use chalk_ir::*;
use chalk_solve::infer::ucanonicalize::UniverseMapExt;
use chalk_solve::infer::{InferenceTable, ParameterEnaVariableExt};
use std::collections::{BTreeMap, BTreeSet};
use std::panic::AssertUnwindSafe;

fn norm_site(site: String) -> String {
    if site.contains("unexpected free variable") {
        "unexpected free variable".into()
    } else if site.contains("Option::unwrap()") {
        "called Option::unwrap on a None value".into()
    } else if site.contains("two bound things") {
        "we should not be asked to unify two bound things".into()
    } else if site.contains("unexpected inference") {
        "unexpected inference type".into()
    } else if site.contains("Expected UCollector") {
        "Expected UCollector to encounter this universe".into()
    } else if site.contains("assertion") {
        "assert_eq debruijn INNERMOST".into()
    } else {
        site
    }
}

fn ivar(n: usize) -> InferenceVar {
    InferenceVar::from(n as u32)
}

/// run a table script on a real `InferenceTable`
fn build_table(ts: &Sexp) -> Option<Result<InferenceTable<ChalkIr>, String>> {
    let (t, xs) = ts.tagged()?;
    if t != "table" || xs.len() != 2 {
        return None;
    }
    let nu = xs[0].as_nat()?;
    let mut table: InferenceTable<ChalkIr> = InferenceTable::new();
    for _ in 0..nu {
        table.new_universe();
    }
    let db = TableDb::default();
    let env = Environment::new(I);
    for st in xs[1].as_list()? {
        let (op, a) = st.tagged()?;
        match (op, a) {
            ("new-var", [ui]) => {
                table.new_variable(UniverseIndex { counter: ui.as_nat()? });
            }
            ("unify-vv", [a, b]) => {
                let (va, vb) = (ivar(a.as_nat()?), ivar(b.as_nat()?));
                let both_unbound = table.probe_var(va).is_none() && table.probe_var(vb).is_none();
                let r = catch(AssertUnwindSafe(|| {
                    if both_unbound {
                        let ta = TyKind::InferenceVar(va, TyVariableKind::General).intern(I);
                        let tb = TyKind::InferenceVar(vb, TyVariableKind::General).intern(I);
                        table.relate(I, &db, &env, Variance::Invariant, &ta, &tb).expect("var-var relate");
                    } else {
                        table.verif_unify_var_var(va, vb);
                    }
                }));
                if let Err(s) = r {
                    return Some(Err(norm_site(s)));
                }
            }
            ("bind", [v, g]) => {
                let (v, g) = (ivar(v.as_nat()?), dec_garg(g)?);
                let r = catch(AssertUnwindSafe(|| table.verif_bind_var(v, g)));
                if let Err(s) = r {
                    return Some(Err(norm_site(s)));
                }
            }
            _ => return None,
        }
    }
    Some(Ok(table))
}

fn garg_infer_index(g: &GenericArg<ChalkIr>) -> usize {
    match g.data(I) {
        GenericArgData::Ty(t) => t.inference_var(I).unwrap().index() as usize,
        GenericArgData::Lifetime(l) => l.inference_var(I).unwrap().index() as usize,
        GenericArgData::Const(c) => c.inference_var(I).unwrap().index() as usize,
    }
}

struct CanonOut {
    quantified: Canonical<Substitution<ChalkIr>>,
    roots: Vec<usize>,
}

fn real_canon(table: &mut InferenceTable<ChalkIr>, v: &[GenericArg<ChalkIr>]) -> Result<CanonOut, String> {
    let s = Substitution::from_iter(I, v.to_vec());
    catch(AssertUnwindSafe(|| {
        let c = table.canonicalize(I, s);
        let roots = c.free_vars.iter().map(|fv| garg_infer_index(&fv.to_generic_arg(I))).collect();
        CanonOut { quantified: c.quantified, roots }
    }))
    .map_err(norm_site)
}

fn nats(xs: &[usize]) -> Sexp {
    list(xs.iter().map(|x| nat(*x)).collect())
}

fn script_err(site: &str) -> Sexp {
    tagged("script", vec![panic_resp(site)])
}

// ------------------------------------------------------------------ sexp utilities

fn rewrite(s: &Sexp, f: &mut dyn FnMut(&Sexp) -> Option<Sexp>) -> Sexp {
    if let Some(r) = f(s) {
        return r;
    }
    match s {
        Sexp::Atom(_) => s.clone(),
        Sexp::List(xs) => Sexp::List(xs.iter().map(|x| rewrite(x, f)).collect()),
    }
}

/// every leaf with one of the given heads, in traversal order
fn leaves<'a>(s: &'a Sexp, hs: &[&str], acc: &mut Vec<&'a Sexp>) {
    if let Sexp::List(xs) = s {
        if let Some(h) = xs.first().and_then(|x| x.as_atom()) {
            if hs.contains(&h) {
                acc.push(s);
                return;
            }
        }
        for x in xs {
            leaves(x, hs, acc);
        }
    }
}

const INFER_HEADS: &[&str] = &["infer", "linfer", "cinfer"];
const PH_HEADS: &[&str] = &["ph", "lph", "cph"];

fn infer_vars_of(s: &Sexp) -> Vec<usize> {
    let mut acc = vec![];
    leaves(s, INFER_HEADS, &mut acc);
    acc.iter().map(|l| l.as_list().unwrap()[1].as_nat().unwrap()).collect()
}

/// does canonicalization of `s` reach a variable that the table has not bound? (independent walk)
fn reaches_unbound(table: &mut InferenceTable<ChalkIr>, s: &Sexp, depth: usize) -> bool {
    if depth > 64 {
        return false;
    }
    for v in infer_vars_of(s) {
        match table.probe_var(ivar(v)) {
            None => return true,
            Some(g) => {
                if reaches_unbound(table, &enc_garg(&g), depth + 1) {
                    return true;
                }
            }
        }
    }
    false
}

/// Is every inference variable used at one sort only (type / lifetime / const of one scalar type),
/// per union-find class, and is every bound variable used at the sort of its value?  Looks through
/// the values of bound variables.  The property's sentences are evaluated only on such inputs: a
/// variable used at two sorts is an ill-kinded term, its canonical form has one binder for both.
fn sort_consistent(table: &mut InferenceTable<ChalkIr>, s: &Sexp, seen: &mut BTreeMap<usize, String>, depth: usize) -> bool {
    if depth > 64 {
        return false;
    }
    let mut ls = vec![];
    leaves(s, &["infer", "linfer", "const"], &mut ls);
    for l in ls {
        let xs = l.as_list().unwrap();
        let (v, sort) = match xs[0].as_atom().unwrap() {
            "infer" => (xs[1].as_nat().unwrap(), "ty".to_string()),
            "linfer" => (xs[1].as_nat().unwrap(), "lt".to_string()),
            _ => match xs[2].tagged() {
                Some(("cinfer", [n])) => (n.as_nat().unwrap(), format!("ct:{}", xs[1])),
                _ => continue,
            },
        };
        match table.probe_var(ivar(v)) {
            None => {
                let root = table.inference_var_root(ivar(v)).index() as usize;
                if *seen.entry(root).or_insert(sort.clone()) != sort {
                    return false;
                }
            }
            Some(g) => {
                let e = enc_garg(&g);
                let gs = match e.tagged() {
                    Some(("ty", _)) => "ty".to_string(),
                    Some(("lt", _)) => "lt".to_string(),
                    Some(("ct", [c])) => format!("ct:{}", c.as_list().unwrap()[1]),
                    _ => return false,
                };
                if gs != sort || !sort_consistent(table, &e, seen, depth + 1) {
                    return false;
                }
            }
        }
    }
    true
}

/// "numbered by first occurrence": walking the canonical value, every `^d.i` that refers to the
/// canonical binder (d = number of binders entered) has i <= #distinct seen so far; checks kinds
fn well_numbered(binders: &Sexp, value: &Sexp) -> bool {
    fn go(s: &Sexp, depth: usize, seen: &mut usize, kinds: &[Sexp], ok: &mut bool) {
        let xs = match s {
            Sexp::List(xs) => xs,
            _ => return,
        };
        let h = xs.first().and_then(|x| x.as_atom()).unwrap_or("");
        match h {
            "bound" | "lbound" | "cbound" => {
                let (d, i) = (xs[1].as_nat().unwrap(), xs[2].as_nat().unwrap());
                if d >= depth {
                    if d != depth || i > *seen || i >= kinds.len() {
                        *ok = false;
                        return;
                    }
                    let k = &kinds[i];
                    let kh = match k {
                        Sexp::Atom(a) => a.as_str(),
                        Sexp::List(ys) => ys[0].as_atom().unwrap_or(""),
                    };
                    let want = match h {
                        "bound" => "kty",
                        "lbound" => "klt",
                        _ => "kconst",
                    };
                    if kh != want {
                        *ok = false;
                    }
                    if i == *seen {
                        *seen += 1;
                    }
                }
            }
            "const" => {
                // (const <ty> <value>): a canonical const variable's type must be the binder's scalar
                if let Some(("cbound", [d, i])) = xs[2].tagged() {
                    let (d, i) = (d.as_nat().unwrap(), i.as_nat().unwrap());
                    if d >= depth && i < kinds.len() {
                        if let Some(("kconst", [c])) = kinds[i].tagged() {
                            if xs[1] != tagged("scalar", vec![c.clone()]) {
                                *ok = false;
                            }
                        }
                    }
                } else {
                    go(&xs[1], depth, seen, kinds, ok);
                }
                go(&xs[2], depth, seen, kinds, ok);
            }
            "dyn" => {
                go(&xs[2], depth + 1, seen, kinds, ok);
                go(&xs[3], depth, seen, kinds, ok);
            }
            "qwc" => go(&xs[2], depth + 1, seen, kinds, ok),
            "fn" => go(&xs[3], depth + 1, seen, kinds, ok),
            "infer" | "linfer" | "cinfer" => *ok = false,
            _ => {
                for x in xs {
                    go(x, depth, seen, kinds, ok);
                }
            }
        }
    }
    let kinds: Vec<Sexp> = binders.as_list().unwrap().iter().map(|b| b.as_list().unwrap()[0].clone()).collect();
    let (mut seen, mut ok) = (0usize, true);
    go(value, 0, &mut seen, &kinds, &mut ok);
    ok && seen == kinds.len()
}

fn has_general_only(binders: &Sexp) -> bool {
    let _ = binders;
    true
}

// ------------------------------------------------------------------ ops on the real code

fn op_canon(ts: &Sexp, v: &Sexp, req: &Sexp, out: &mut Out) -> Option<Sexp> {
    let mut table = match build_table(ts)? {
        Ok(t) => t,
        Err(s) => return Some(script_err(&s)),
    };
    let args = dec_args(v)?;
    let well_sorted = sort_consistent(&mut table, v, &mut BTreeMap::new(), 0);
    if !well_sorted {
        out.count("canon_ill_sorted_input");
    }
    let r = real_canon(&mut table, &args);
    if let (Ok(c), true) = (&r, well_sorted) {
        // the property's round trip, on the implementation: instantiate the canonical form in a
        // fresh table and canonicalize again
        out.evaluations_extra += 1;
        let q = c.quantified.clone();
        let rt = catch(AssertUnwindSafe(|| {
            let mut t2: InferenceTable<ChalkIr> = InferenceTable::new();
            for _ in 0..8 {
                t2.new_universe();
            }
            let inst = t2.instantiate_canonical(I, q.clone());
            t2.canonicalize(I, inst).quantified
        }));
        match rt {
            Ok(q2) if q2 == c.quantified => {}
            _ => out.fail(
                "canonicalize(instantiate(c)) differs from c for a canonical form c produced by canonicalize",
                &req.to_string(),
                "canon_roundtrip",
            ),
        }
        // first-occurrence numbering and closedness, checked on the output by an independent walk
        if !well_numbered(&enc_binders(&c.quantified.binders), &enc_subst(&c.quantified.value)) {
            out.fail("canonical form not numbered by first occurrence / not closed", &req.to_string(), "canon_not_well_numbered");
        }
        let distinct: BTreeSet<_> = c.roots.iter().collect();
        if distinct.len() != c.roots.len() {
            out.fail("free_vars lists a root twice", &req.to_string(), "canon_free_vars_dup");
        }
    }
    Some(match r {
        Ok(c) => ok(list(vec![enc_canon_subst(&c.quantified), nats(&c.roots)])),
        Err(s) => panic_resp(&s),
    })
}

fn op_canon_ty(ts: &Sexp, v: &Sexp) -> Option<Sexp> {
    let mut table = match build_table(ts)? {
        Ok(t) => t,
        Err(s) => return Some(script_err(&s)),
    };
    let ty = dec_ty(v)?;
    let r = catch(AssertUnwindSafe(|| {
        let c = table.canonicalize(I, ty);
        let roots: Vec<usize> = c.free_vars.iter().map(|fv| garg_infer_index(&fv.to_generic_arg(I))).collect();
        (c.quantified, roots)
    }))
    .map_err(norm_site);
    Some(match r {
        Ok((q, roots)) => ok(list(vec![tagged("canon", vec![enc_binders(&q.binders), enc_ty(&q.value)]), nats(&roots)])),
        Err(s) => panic_resp(&s),
    })
}

fn ph_universes(s: &Sexp) -> Vec<(String, usize, usize)> {
    let mut acc = vec![];
    leaves(s, PH_HEADS, &mut acc);
    acc.iter()
        .map(|l| {
            let xs = l.as_list().unwrap();
            (xs[0].as_atom().unwrap().to_string(), xs[1].as_nat().unwrap(), xs[2].as_nat().unwrap())
        })
        .collect()
}

fn op_ucanon(c: &Sexp, req: &Sexp, out: &mut Out) -> Option<Sexp> {
    let c0 = dec_canon_subst(c)?;
    let c1 = c0.clone();
    let r = catch(AssertUnwindSafe(|| InferenceTable::u_canonicalize(I, &c1))).map_err(norm_site);
    if let Ok(u) = &r {
        out.evaluations_extra += 1;
        let us: Vec<usize> = u.universes.universes.iter().map(|x| x.counter).collect();
        // order: the map lists the original universes strictly increasing, U0 first; canonical
        // universe i stands for the i-th of them
        let sorted = us.windows(2).all(|w| w[0] < w[1]) && us.first() == Some(&0) && u.quantified.universes == us.len();
        out.count(&format!("ucanon_universes_{}", us.len().min(5)));
        if us.iter().enumerate().any(|(i, u)| i != *u) {
            out.count("ucanon_compresses_gap");
        }
        let before: Vec<_> = ph_universes(&enc_subst(&c0.value));
        let after: Vec<_> = ph_universes(&enc_subst(&u.quantified.canonical.value));
        let mut order_ok = sorted && before.len() == after.len();
        if order_ok {
            for (b, a) in before.iter().zip(after.iter()) {
                if a.1 >= us.len() || us[a.1] != b.1 {
                    order_ok = false;
                }
            }
            for (b, a) in c0.binders.iter(I).zip(u.quantified.canonical.binders.iter(I)) {
                let (b, a) = (b.skip_kind().counter, a.skip_kind().counter);
                if a >= us.len() || us[a] != b {
                    order_ok = false;
                }
            }
        }
        if !order_ok {
            out.fail("u_canonicalize does not compress universes order-preservingly", &req.to_string(), "ucanon_order");
        }
        // "can be undone"
        let back = catch(AssertUnwindSafe(|| u.universes.map_from_canonical(I, &u.quantified.canonical)));
        match back {
            Ok(b) if b == c0 => {}
            Ok(b) => {
                // which kind of placeholder was not restored?
                let orig = ph_universes(&enc_subst(&c0.value));
                let got = ph_universes(&enc_subst(&b.value));
                let only_const = orig.len() == got.len()
                    && orig.iter().zip(got.iter()).all(|(o, g)| o == g || o.0 == "cph")
                    && b.binders == c0.binders;
                out.fail(
                    "map_from_canonical(u_canonicalize(c)) differs from c",
                    &req.to_string(),
                    if only_const { "ucanon_const_placeholder_not_mapped_back" } else { "ucanon_roundtrip" },
                );
            }
            Err(_) => out.fail("map_from_canonical panicked on the output of u_canonicalize", &req.to_string(), "ucanon_roundtrip"),
        }
    }
    Some(match r {
        Ok(u) => ok(list(vec![
            tagged("ucanon", vec![nat(u.quantified.universes), enc_canon_subst(&u.quantified.canonical)]),
            nats(&u.universes.universes.iter().map(|x| x.counter).collect::<Vec<_>>()),
        ])),
        Err(s) => panic_resp(&s),
    })
}

fn op_map_from(um: &Sexp, c: &Sexp, req: &Sexp, out: &mut Out) -> Option<Sexp> {
    let us: Vec<usize> = um.as_list()?.iter().map(|x| x.as_nat()).collect::<Option<_>>()?;
    let c0 = dec_canon_subst(c)?;
    let map = UniverseMap { universes: us.iter().map(|u| UniverseIndex { counter: *u }).collect() };
    let c1 = c0.clone();
    let r = catch(AssertUnwindSafe(|| map.map_from_canonical(I, &c1))).map_err(norm_site);
    if let Ok(b) = &r {
        let sorted = us.windows(2).all(|w| w[0] < w[1]) && !us.is_empty();
        if sorted {
            out.evaluations_extra += 1;
            // order preserved, out-of-range canonical universes land above every original one
            let mut pairs: Vec<(usize, usize)> = ph_universes(&enc_subst(&c0.value))
                .iter()
                .zip(ph_universes(&enc_subst(&b.value)).iter())
                .map(|(x, y)| (x.1, y.1))
                .collect();
            for (x, y) in c0.binders.iter(I).zip(b.binders.iter(I)) {
                pairs.push((x.skip_kind().counter, y.skip_kind().counter));
            }
            let mx = *us.last().unwrap();
            let mut good = true;
            for (x, y) in &pairs {
                if *x >= us.len() && *y <= mx {
                    good = false;
                }
                if *x < us.len() && *y != us[*x] {
                    good = false;
                }
                for (x2, y2) in &pairs {
                    if (x < x2) != (y < y2) {
                        good = false;
                    }
                }
            }
            if !good {
                out.fail("map_from_canonical does not preserve the order of universes / freshness of out-of-range ones", &req.to_string(), "from_canonical_order");
            }
        }
    }
    Some(match r {
        Ok(b) => ok(enc_canon_subst(&b)),
        Err(s) => panic_resp(&s),
    })
}

fn op_instantiate_canon(ts: &Sexp, c: &Sexp, req: &Sexp, out: &mut Out) -> Option<Sexp> {
    let mut table = match build_table(ts)? {
        Ok(t) => t,
        Err(s) => return Some(script_err(&s)),
    };
    let c0 = dec_canon_subst(c)?;
    let c1 = c0.clone();
    let inst = catch(AssertUnwindSafe(|| table.instantiate_canonical(I, c1))).map_err(norm_site);
    let inst = match inst {
        Ok(v) => v,
        Err(s) => return Some(panic_resp(&s)),
    };
    let r = real_canon(&mut table, inst.as_slice(I));
    if let Ok(cz) = &r {
        if well_numbered(&enc_binders(&c0.binders), &enc_subst(&c0.value)) && has_general_only(&enc_binders(&c0.binders)) {
            out.evaluations_extra += 1;
            out.count("roundtrip_well_numbered_inputs");
            if cz.quantified != c0 {
                out.fail("canonicalize(instantiate(c)) differs from the well-numbered canonical value c", &req.to_string(), "canon_roundtrip");
            }
        }
    }
    Some(match r {
        Ok(cz) => ok(list(vec![enc_subst(&inst), enc_canon_subst(&cz.quantified), nats(&cz.roots)])),
        Err(s) => panic_resp(&s),
    })
}

fn op_instantiate_binders(ts: &Sexp, ks: &Sexp, v: &Sexp, universally: bool) -> Option<Sexp> {
    let mut table = match build_table(ts)? {
        Ok(t) => t,
        Err(s) => return Some(script_err(&s)),
    };
    let kinds = dec_kinds(ks)?;
    let b = Binders::new(kinds, dec_subst(v)?);
    let r = catch(AssertUnwindSafe(|| {
        if universally {
            table.instantiate_binders_universally(I, b)
        } else {
            table.instantiate_binders_existentially(I, b)
        }
    }))
    .map_err(|s| if s.contains("index out of bounds") { "index out of bounds".to_string() } else { norm_site(s) });
    Some(match r {
        Ok(x) => {
            if universally {
                // the table's max universe afterwards: a fresh universe is one more than it
                let mx = table.new_universe().counter - 1;
                ok(list(vec![enc_subst(&x), nat(mx)]))
            } else {
                ok(enc_subst(&x))
            }
        }
        Err(s) => panic_resp(&s),
    })
}

fn op_invert(ts: &Sexp, v: &Sexp, req: &Sexp, out: &mut Out) -> Option<Sexp> {
    let mut table = match build_table(ts)? {
        Ok(t) => t,
        Err(s) => return Some(script_err(&s)),
    };
    let args = dec_args(v)?;
    let subst = Substitution::from_iter(I, args.clone());
    let expect_none = reaches_unbound(&mut table, v, 0);
    // the value with bound variables resolved = what the Inverter sees
    let resolved = real_canon(&mut table.clone(), &args).ok();
    let r = catch(AssertUnwindSafe(|| table.invert(I, subst))).map_err(norm_site);
    let r = match r {
        Ok(x) => x,
        Err(s) => return Some(panic_resp(&s)),
    };
    out.evaluations_extra += 1;
    if r.is_none() != expect_none {
        out.fail("invert refuses / accepts although an unbound variable is / is not reachable", &req.to_string(), "invert_none_iff");
    }
    out.count(if r.is_none() { "invert_refused" } else { "invert_done" });
    Some(match r {
        None => ok(atom("none")),
        Some(inv) => {
            let cz = match real_canon(&mut table, inv.as_slice(I)) {
                Ok(c) => c,
                Err(s) => return Some(panic_resp(&s)),
            };
            // consistency: same placeholder -> same variable, different -> different, the variable
            // lives in the placeholder's universe (read off the canonical binders)
            if let Some(res) = resolved {
                let before = enc_subst(&res.quantified.value);
                let after = enc_subst(&inv);
                let (mut lb, mut la) = (vec![], vec![]);
                leaves(&before, &["ph", "lph"], &mut lb);
                leaves(&after, &["infer", "linfer"], &mut la);
                let mut good = lb.len() == la.len();
                let mut fwd: BTreeMap<String, usize> = BTreeMap::new();
                let mut bwd: BTreeMap<usize, String> = BTreeMap::new();
                if good {
                    for (b, a) in lb.iter().zip(la.iter()) {
                        let key = b.to_string();
                        let var = a.as_list().unwrap()[1].as_nat().unwrap();
                        if *fwd.entry(key.clone()).or_insert(var) != var || *bwd.entry(var).or_insert(key.clone()) != key {
                            good = false;
                        }
                        let ui = b.as_list().unwrap()[1].as_nat().unwrap();
                        match cz.roots.iter().position(|r| *r == var) {
                            Some(p) => {
                                if cz.quantified.binders.as_slice(I)[p].skip_kind().counter != ui {
                                    good = false;
                                }
                            }
                            None => good = false,
                        }
                    }
                }
                let mut rest = vec![];
                leaves(&after, &["ph", "lph"], &mut rest);
                if !good || !rest.is_empty() {
                    out.fail("invert does not replace placeholders consistently by fresh variables of their universe", &req.to_string(), "invert_inconsistent");
                }
            }
            ok(tagged("some", vec![enc_subst(&inv), enc_canon_subst(&cz.quantified)]))
        }
    })
}

pub fn exec(req: &Sexp, out: &mut Out, tags: &str) {
    let (op, xs) = match req.tagged() {
        Some(x) => x,
        None => return,
    };
    let resp = match (op, xs) {
        ("canon", [ts, v]) => op_canon(ts, v, req, out),
        ("canon-ty", [ts, v]) => op_canon_ty(ts, v),
        ("ucanon", [c]) => op_ucanon(c, req, out),
        ("map-from-canonical", [um, c]) => op_map_from(um, c, req, out),
        ("instantiate-canon", [ts, c]) => op_instantiate_canon(ts, c, req, out),
        ("instantiate-ex", [ts, ks, v]) => op_instantiate_binders(ts, ks, v, false),
        ("instantiate-univ", [ts, ks, v]) => op_instantiate_binders(ts, ks, v, true),
        ("invert", [ts, v]) => op_invert(ts, v, req, out),
        _ => None,
    };
    let resp = match resp {
        Some(r) => r,
        None => {
            out.count("undecodable");
            return;
        }
    };
    let rs = resp.to_string();
    let kind = match resp.tagged() {
        Some((k, _)) => k.to_string(),
        None => "?".into(),
    };
    out.count(&format!("{}_{}", op, kind));
    let nontrivial = match op {
        "canon" | "canon-ty" | "instantiate-canon" => rs.contains("bound 0 ") || kind != "ok",
        "ucanon" => !rs.ends_with("(0)))"),
        "invert" => true,
        _ => kind != "ok" || xs.last().map(|x| x.to_string()) != Some(rs.clone()),
    };
    out.case(req.to_string(), rs, nontrivial, tags);
}

/// re-serialise every chalk value of a request from what chalk holds after decoding
fn canon_req(req: &Sexp) -> Option<Sexp> {
    fn table(ts: &Sexp) -> Option<Sexp> {
        let (t, xs) = ts.tagged()?;
        if t != "table" || xs.len() != 2 {
            return None;
        }
        let steps: Option<Vec<Sexp>> = xs[1]
            .as_list()?
            .iter()
            .map(|st| {
                let (op, a) = st.tagged()?;
                Some(match (op, a) {
                    ("new-var", [u]) => tagged(op, vec![nat(u.as_nat()?)]),
                    ("unify-vv", [a, b]) => tagged(op, vec![nat(a.as_nat()?), nat(b.as_nat()?)]),
                    ("bind", [v, g]) => tagged(op, vec![nat(v.as_nat()?), enc_garg(&dec_garg(g)?)]),
                    _ => return None,
                })
            })
            .collect();
        Some(tagged("table", vec![nat(xs[0].as_nat()?), list(steps?)]))
    }
    let (op, xs) = req.tagged()?;
    Some(match (op, xs) {
        ("canon", [ts, v]) | ("invert", [ts, v]) => tagged(op, vec![table(ts)?, enc_args(&dec_args(v)?)]),
        ("canon-ty", [ts, v]) => tagged(op, vec![table(ts)?, enc_ty(&dec_ty(v)?)]),
        ("ucanon", [c]) => tagged(op, vec![enc_canon_subst(&dec_canon_subst(c)?)]),
        ("map-from-canonical", [um, c]) => {
            let us: Option<Vec<Sexp>> = um.as_list()?.iter().map(|x| x.as_nat().map(nat)).collect();
            tagged(op, vec![list(us?), enc_canon_subst(&dec_canon_subst(c)?)])
        }
        ("instantiate-canon", [ts, c]) => tagged(op, vec![table(ts)?, enc_canon_subst(&dec_canon_subst(c)?)]),
        ("instantiate-ex", [ts, ks, v]) | ("instantiate-univ", [ts, ks, v]) => {
            tagged(op, vec![table(ts)?, enc_kinds(&dec_kinds(ks)?), enc_args(&dec_args(v)?)])
        }
        _ => return None,
    })
}

// ------------------------------------------------------------------ generators

#[derive(Clone, Copy, PartialEq, Eq, Debug, PartialOrd, Ord)]
enum Sort {
    Ty(u8), // 0 general, 1 integer, 2 float
    Lt,
    Ct(usize), // scalar code of the constant's type
}

#[derive(Clone)]
struct TableSpec {
    nu: usize,
    sort: Vec<Sort>,
    class: Vec<usize>,          // class id of each variable
    class_universe: Vec<usize>, // min over members
    class_bound: Vec<Option<Sexp>>,
    steps: Vec<Sexp>,
    pinned: BTreeSet<usize>, // classes mentioned inside bound values
}

fn kind_atom(k: u8) -> Sexp {
    atom(["g", "i", "f"][k as usize])
}

fn var_leaf(spec: &TableSpec, v: usize) -> Sexp {
    match spec.sort[v] {
        Sort::Ty(k) => tagged("infer", vec![nat(v), kind_atom(k)]),
        Sort::Lt => tagged("linfer", vec![nat(v)]),
        Sort::Ct(c) => tagged("const", vec![tagged("scalar", vec![nat(c)]), tagged("cinfer", vec![nat(v)])]),
    }
}

impl TableSpec {
    fn members(&self, c: usize) -> Vec<usize> {
        (0..self.class.len()).filter(|v| self.class[*v] == c).collect()
    }
    fn n_classes(&self) -> usize {
        self.class_universe.len()
    }
    fn class_sort(&self, c: usize) -> Sort {
        self.sort[self.members(c)[0]]
    }
    fn table_sexp(&self) -> Sexp {
        tagged("table", vec![nat(self.nu), list(self.steps.clone())])
    }
}

/// make the inference leaves of `s` refer to variables of the right sort among `allowed`
fn fix_infer_leaves(rng: &mut Rng, spec: &TableSpec, allowed: &[usize], s: &Sexp) -> Sexp {
    let of_sort = |p: &dyn Fn(Sort) -> bool| -> Vec<usize> { allowed.iter().cloned().filter(|v| p(spec.sort[*v])).collect() };
    let tys = of_sort(&|s| matches!(s, Sort::Ty(_)));
    let lts = of_sort(&|s| s == Sort::Lt);
    let cts = of_sort(&|s| matches!(s, Sort::Ct(_)));
    let mut f = |x: &Sexp| -> Option<Sexp> {
        let (h, xs) = x.tagged()?;
        match (h, xs) {
            ("infer", [_, _]) => Some(if tys.is_empty() { tagged("scalar", vec![nat(13)]) } else { var_leaf(spec, *rng.pick(&tys)) }),
            ("linfer", [_]) => Some(if lts.is_empty() { atom("static") } else { var_leaf(spec, *rng.pick(&lts)) }),
            ("const", [_, v]) if v.tagged().map(|t| t.0) == Some("cinfer") => Some(if cts.is_empty() {
                tagged("const", vec![tagged("scalar", vec![nat(20)]), tagged("cval", vec![nat(1)])])
            } else {
                var_leaf(spec, *rng.pick(&cts))
            }),
            _ => None,
        }
    };
    rewrite(s, &mut f)
}

fn gen_cfg(depth: usize, nvars: usize, nu: usize, free: bool, binders: bool) -> GenCfg {
    GenCfg {
        max_depth: depth,
        free_levels: if free { 1 } else { 0 },
        max_index: 3,
        infer: nvars > 0,
        n_infer: nvars.max(1),
        placeholders: true,
        max_universe: nu + 2,
        binders,
        ..GenCfg::default()
    }
}

fn gen_table(rng: &mut Rng) -> TableSpec {
    let nu = rng.usize_below(7);
    let nvars = if rng.chance(1, 8) { rng.usize_below(2) } else { 2 + rng.usize_below(8) };
    // a few universes so that several classes share one
    let upool: Vec<usize> = (0..1 + rng.weighted(&[3, 3, 1])).map(|_| rng.usize_below(nu + 1)).collect();
    let mut spec = TableSpec {
        nu,
        sort: vec![],
        class: vec![],
        class_universe: vec![],
        class_bound: vec![],
        steps: vec![],
        pinned: BTreeSet::new(),
    };
    let mut universes = vec![];
    let mut unify_steps = vec![];
    for v in 0..nvars {
        let sort = match rng.weighted(&[9, 1, 1, 3, 2]) {
            0 => Sort::Ty(0),
            1 => Sort::Ty(1),
            2 => Sort::Ty(2),
            3 => Sort::Lt,
            _ => Sort::Ct(*rng.pick(&[20usize, 23, 13])),
        };
        let ui = *rng.pick(&upool);
        spec.sort.push(sort);
        universes.push(ui);
        spec.steps.push(tagged("new-var", vec![nat(ui)]));
        let same: Vec<usize> = (0..v).filter(|w| spec.sort[*w] == sort).collect();
        if !same.is_empty() && rng.chance(1, 3) {
            let w = *rng.pick(&same);
            let c = spec.class[w];
            spec.class.push(c);
            spec.class_universe[c] = spec.class_universe[c].min(ui);
            unify_steps.push(if rng.chance(1, 2) { tagged("unify-vv", vec![nat(v), nat(w)]) } else { tagged("unify-vv", vec![nat(w), nat(v)]) });
        } else {
            spec.class.push(spec.class_universe.len());
            spec.class_universe.push(ui);
            spec.class_bound.push(None);
        }
    }
    // bound classes: the value of class c mentions only variables of classes > c (no cycles)
    let mut bind_steps = vec![];
    for c in (0..spec.n_classes()).rev() {
        if !rng.chance(1, 3) {
            continue;
        }
        let later: Vec<usize> = (0..nvars).filter(|v| spec.class[*v] > c).collect();
        let val = match spec.class_sort(c) {
            Sort::Ty(0) => {
                let depth = rng.usize_below(3);
                let mut g = Gen::new(rng, gen_cfg(depth, later.len(), nu, false, true));
                let t = g.ty(depth, 0);
                tagged("ty", vec![fix_infer_leaves(rng, &spec, &later, &t)])
            }
            Sort::Ty(1) => {
                let ints: Vec<usize> = later.iter().cloned().filter(|v| spec.sort[*v] == Sort::Ty(1)).collect();
                tagged("ty", vec![if !ints.is_empty() && rng.chance(1, 2) { var_leaf(&spec, *rng.pick(&ints)) } else { tagged("scalar", vec![nat(13)]) }])
            }
            Sort::Ty(_) => tagged("ty", vec![tagged("scalar", vec![nat(32)])]),
            Sort::Lt => {
                let lts: Vec<usize> = later.iter().cloned().filter(|v| spec.sort[*v] == Sort::Lt).collect();
                tagged(
                    "lt",
                    vec![match rng.usize_below(3) {
                        0 if !lts.is_empty() => var_leaf(&spec, *rng.pick(&lts)),
                        1 => tagged("lph", vec![nat(rng.usize_below(nu + 2)), nat(rng.usize_below(3))]),
                        _ => atom("static"),
                    }],
                )
            }
            Sort::Ct(code) => {
                let cts: Vec<usize> = later.iter().cloned().filter(|v| spec.sort[*v] == Sort::Ct(code)).collect();
                let ty = tagged("scalar", vec![nat(code)]);
                tagged(
                    "ct",
                    vec![match rng.usize_below(3) {
                        0 if !cts.is_empty() => var_leaf(&spec, *rng.pick(&cts)),
                        1 => tagged("const", vec![ty, tagged("cph", vec![nat(rng.usize_below(nu + 2)), nat(rng.usize_below(3))])]),
                        _ => tagged("const", vec![ty, tagged("cval", vec![nat(rng.usize_below(4))])]),
                    }],
                )
            }
        };
        for v in infer_vars_of(&val) {
            spec.pinned.insert(spec.class[v]);
        }
        let m = *rng.pick(&spec.members(c));
        bind_steps.push(tagged("bind", vec![nat(m), val.clone()]));
        spec.class_bound[c] = Some(val);
    }
    // unify and bind steps in random relative order (at most one bind per class, so two bound
    // classes are never unified)
    let mut rest: Vec<Sexp> = unify_steps;
    for b in bind_steps {
        let at = rng.usize_below(rest.len() + 1);
        rest.insert(at, b);
    }
    spec.steps.extend(rest);
    spec
}

fn gen_value(rng: &mut Rng, spec: &TableSpec, malformed: bool) -> Sexp {
    let nvars = spec.sort.len();
    let depth = 1 + rng.usize_below(3);
    let nargs = 1 + rng.usize_below(4);
    let binders = rng.chance(1, 2);
    let mut g = Gen::new(rng, gen_cfg(depth, nvars, spec.nu, malformed, binders));
    let v = list((0..nargs).map(|_| g.garg(depth, 0)).collect());
    if malformed && rng.chance(1, 2) {
        return v; // kind-inconsistent uses of variables, free bound variables
    }
    let all: Vec<usize> = (0..nvars).collect();
    // repeats: restrict to a few variables most of the time
    let allowed: Vec<usize> = if nvars > 2 && rng.chance(2, 3) {
        let k = 1 + rng.usize_below(3);
        (0..k).map(|_| rng.usize_below(nvars)).collect()
    } else {
        all
    };
    let mut v = fix_infer_leaves(rng, spec, &allowed, &v);
    // make sure variables occur (and repeat): append a few variable arguments
    if !allowed.is_empty() && infer_vars_of(&v).len() < 2 {
        if let Sexp::List(xs) = &mut v {
            for _ in 0..1 + rng.usize_below(3) {
                let x = *rng.pick(&allowed);
                let leaf = var_leaf(spec, x);
                xs.push(match spec.sort[x] {
                    Sort::Ty(_) => tagged("ty", vec![if rng.chance(1, 3) { tagged("slice", vec![leaf]) } else { leaf }]),
                    Sort::Lt => tagged("lt", vec![leaf]),
                    Sort::Ct(_) => tagged("ct", vec![leaf]),
                });
            }
        }
    }
    v
}

/// a member of class `c` written with its own sort
fn member_leaf(rng: &mut Rng, spec: &TableSpec, c: usize) -> Sexp {
    var_leaf(spec, *rng.pick(&spec.members(c)))
}

/// replace every inference leaf (whole `(const ty (cinfer n))` for constants) using `f(var, occurrence#)`
fn map_infer(s: &Sexp, f: &mut dyn FnMut(usize, usize) -> Option<Sexp>) -> Sexp {
    let mut occ = 0usize;
    let mut g = |x: &Sexp| -> Option<Sexp> {
        let (h, xs) = x.tagged()?;
        let v = match (h, xs) {
            ("infer", [n, _]) | ("linfer", [n]) => n.as_nat()?,
            ("const", [_, v]) => match v.tagged() {
                Some(("cinfer", [n])) => n.as_nat()?,
                _ => return None,
            },
            _ => return None,
        };
        occ += 1;
        Some(f(v, occ - 1).unwrap_or_else(|| x.clone()))
    };
    rewrite(s, &mut g)
}

enum Twin {
    Equal(Sexp),
    Differ(Sexp, &'static str),
}

fn gen_twin(rng: &mut Rng, spec: &TableSpec, v: &Sexp) -> Option<Twin> {
    let first = rng.weighted(&[5, 2, 2, 2, 2]);
    for k in 0..5 {
        if let Some(t) = gen_twin_kind(rng, spec, v, (first + k) % 5) {
            let same = match &t {
                Twin::Equal(w) | Twin::Differ(w, _) => w == v,
            };
            if !same {
                return Some(t);
            }
        }
    }
    None
}

fn gen_twin_kind(rng: &mut Rng, spec: &TableSpec, v: &Sexp, which: usize) -> Option<Twin> {
    let occurring: Vec<usize> = infer_vars_of(v);
    if occurring.is_empty() {
        return None;
    }
    let occ_classes: BTreeSet<usize> = occurring.iter().map(|x| spec.class[*x]).collect();
    let unbound = |c: usize| spec.class_bound[c].is_none();
    let free: Vec<usize> = (0..spec.n_classes()).filter(|c| unbound(*c) && !spec.pinned.contains(c)).collect();
    let unused: Vec<usize> = free.iter().cloned().filter(|c| !occ_classes.contains(c)).collect();
    match which {
        0 => {
            // consistent: a bijection on the free classes that keeps sort and universe
            let mut groups: BTreeMap<(Sort, usize), Vec<usize>> = BTreeMap::new();
            for c in &free {
                groups.entry((spec.class_sort(*c), spec.class_universe[*c])).or_default().push(*c);
            }
            let mut pi: BTreeMap<usize, usize> = BTreeMap::new();
            for (_, cs) in groups {
                let mut img = cs.clone();
                for _ in 0..3 {
                    for i in (1..img.len()).rev() {
                        img.swap(i, rng.usize_below(i + 1));
                    }
                    if img != cs {
                        break;
                    }
                }
                for (a, b) in cs.iter().zip(img.iter()) {
                    pi.insert(*a, *b);
                }
            }
            let mut f = |x: usize, _| {
                let c = spec.class[x];
                Some(member_leaf(rng, spec, *pi.get(&c).unwrap_or(&c)))
            };
            Some(Twin::Equal(map_infer(v, &mut f)))
        }
        1 => {
            // merge two distinct unbound classes of one sort that both occur
            let cands: Vec<(usize, usize)> = occ_classes
                .iter()
                .flat_map(|a| occ_classes.iter().map(move |b| (*a, *b)))
                .filter(|(a, b)| a != b && unbound(*a) && unbound(*b) && spec.class_sort(*a) == spec.class_sort(*b))
                .collect();
            if cands.is_empty() {
                return None;
            }
            let (a, b) = *rng.pick(&cands);
            let mut f = |x: usize, _| if spec.class[x] == b { Some(member_leaf(rng, spec, a)) } else { None };
            Some(Twin::Differ(map_infer(v, &mut f), "merge"))
        }
        2 => {
            // split: one of several occurrences of a class goes to an unused class
            let mut count: BTreeMap<usize, Vec<usize>> = BTreeMap::new();
            for (i, x) in occurring.iter().enumerate() {
                count.entry(spec.class[*x]).or_default().push(i);
            }
            let cands: Vec<(usize, usize, usize)> = count
                .iter()
                .filter(|(c, occs)| occs.len() >= 2 && unbound(**c))
                .flat_map(|(c, occs)| {
                    let (c, occs) = (*c, occs.clone());
                    unused.iter().filter(move |d| spec.class_sort(**d) == spec.class_sort(c)).map(move |d| (c, *d, occs[occs.len() - 1])).collect::<Vec<_>>()
                })
                .collect();
            if cands.is_empty() {
                return None;
            }
            let (_, d, at) = *rng.pick(&cands);
            let mut f = |_x: usize, i: usize| if i == at { Some(member_leaf(rng, spec, d)) } else { None };
            Some(Twin::Differ(map_infer(v, &mut f), "split"))
        }
        3 => {
            // move a class that occurs (and is not pinned) to an unused class of another universe
            let cands: Vec<(usize, usize)> = occ_classes
                .iter()
                .filter(|c| free.contains(c))
                .flat_map(|c| {
                    unused
                        .iter()
                        .filter(move |d| spec.class_sort(**d) == spec.class_sort(*c) && spec.class_universe[**d] != spec.class_universe[*c])
                        .map(move |d| (*c, *d))
                })
                .collect();
            if cands.is_empty() {
                return None;
            }
            let (c, d) = *rng.pick(&cands);
            let mut f = |x: usize, _| if spec.class[x] == c { Some(member_leaf(rng, spec, d)) } else { None };
            Some(Twin::Differ(map_infer(v, &mut f), "universe"))
        }
        _ => {
            // change the kind annotation of every occurrence of an unpinned unbound type class
            let cands: Vec<usize> = occ_classes.iter().cloned().filter(|c| free.contains(c) && matches!(spec.class_sort(*c), Sort::Ty(_))).collect();
            if cands.is_empty() {
                return None;
            }
            let c = *rng.pick(&cands);
            let k = match spec.class_sort(c) {
                Sort::Ty(k) => (k + 1 + rng.usize_below(2) as u8) % 3,
                _ => 0,
            };
            let mut f = |x: usize, _| if spec.class[x] == c { Some(tagged("infer", vec![nat(x), kind_atom(k)])) } else { None };
            Some(Twin::Differ(map_infer(v, &mut f), "kind"))
        }
    }
}

fn quantified_of(ts: &Sexp, v: &Sexp) -> Option<Canonical<Substitution<ChalkIr>>> {
    let mut table = build_table(ts)?.ok()?;
    real_canon(&mut table, &dec_args(v)?).ok().map(|c| c.quantified)
}

fn gen_canonical(rng: &mut Rng, well_formed: bool) -> Sexp {
    // binders with universes from a gappy pool, value over ^0.i and placeholders
    let pool: Vec<usize> = (0..1 + rng.usize_below(4)).map(|_| rng.usize_below(8)).collect();
    let nb = rng.usize_below(4);
    let kinds: Vec<Sexp> = (0..nb)
        .map(|_| match rng.weighted(&[5, 1, 1, 3, 2]) {
            0 => tagged("kty", vec![atom("g")]),
            1 => tagged("kty", vec![atom("i")]),
            2 => tagged("kty", vec![atom("f")]),
            3 => atom("klt"),
            _ => tagged("kconst", vec![nat(*rng.pick(&[20usize, 23, 13]))]),
        })
        .collect();
    let binders = list(kinds.iter().map(|k| list(vec![k.clone(), nat(*rng.pick(&pool))])).collect());
    let depth = 1 + rng.usize_below(3);
    let cfg = GenCfg {
        max_depth: depth,
        free_levels: if nb > 0 || !well_formed { 1 } else { 0 },
        max_index: nb.max(1),
        infer: !well_formed && rng.chance(1, 2),
        placeholders: true,
        max_universe: 8,
        binders: rng.chance(1, 2),
        scope_kinds: if well_formed { Some(kinds.clone()) } else { None },
        ..GenCfg::default()
    };
    let nargs = 1 + rng.usize_below(3);
    let mut g = Gen::new(rng, cfg);
    let v = list((0..nargs).map(|_| g.garg(depth, 0)).collect());
    // placeholders: restrict to the pool most of the time so that universes repeat
    let v = if rng.chance(2, 3) {
        let mut f = |x: &Sexp| -> Option<Sexp> {
            let (h, xs) = x.tagged()?;
            if PH_HEADS.contains(&h) && xs.len() == 2 {
                Some(tagged(h, vec![nat(*rng.pick(&pool)), xs[1].clone()]))
            } else {
                None
            }
        };
        rewrite(&v, &mut f)
    } else {
        v
    };
    tagged("canon", vec![binders, v])
}

pub fn run(ctx: &Ctx, out: &mut Out) {
    let mut lines = ctx.corpus_lines();
    if let Some(f) = &ctx.replay {
        lines = std::fs::read_to_string(f).unwrap_or_default().lines().map(|s| s.to_string()).collect();
    }
    for l in lines {
        if let Some(r) = parse(&l).and_then(|s| canon_req(&s)) {
            exec(&r, out, "corpus");
        }
    }
    if ctx.replay.is_some() {
        return;
    }
    let n = ctx.budget(3000, 150000);
    let mut hist = BTreeMap::new();
    let mut emit = |req: Sexp, out: &mut Out, tag: &str, hist: &mut BTreeMap<String, u64>| match canon_req(&req) {
        Some(r) => {
            heads(&r, hist);
            exec(&r, out, tag)
        }
        None => out.count("undecodable"),
    };
    for i in 0..n {
        let mut rng = ctx.rng(0, i as u64);
        let malformed = rng.chance(1, 15);
        let tag = if malformed { "malformed" } else { "gen" };
        match rng.weighted(&[8, 3, 3, 3, 3, 1]) {
            0 => {
                // canonicalize + renamed twins
                let spec = gen_table(&mut rng);
                let ts = spec.table_sexp();
                let v = gen_value(&mut rng, &spec, malformed);
                emit(tagged("canon", vec![ts.clone(), v.clone()]), out, tag, &mut hist);
                {
                    let occ = infer_vars_of(&v);
                    if occ.iter().any(|x| spec.class_bound[spec.class[*x]].is_some()) {
                        out.count("canon_value_mentions_bound_var");
                    }
                    if occ.iter().any(|x| spec.members(spec.class[*x]).len() > 1) {
                        out.count("canon_value_mentions_unified_class");
                    }
                    let distinct: BTreeSet<_> = occ.iter().collect();
                    if distinct.len() < occ.len() {
                        out.count("canon_value_repeats_var");
                    }
                    if !spec.pinned.is_empty() {
                        out.count("canon_table_value_mentions_var");
                    }
                }
                if rng.chance(1, 6) {
                    if let Some(Sexp::List(xs)) = Some(&v) {
                        if let Some(("ty", [t])) = xs.first().and_then(|x| x.tagged()) {
                            emit(tagged("canon-ty", vec![ts.clone(), t.clone()]), out, tag, &mut hist);
                        }
                    }
                }
                if malformed {
                    continue;
                }
                for _ in 0..2 {
                    match gen_twin(&mut rng, &spec, &v) {
                        None => out.count("twin_none"),
                        Some(tw) => {
                            let (w, want_equal, what) = match &tw {
                                Twin::Equal(w) => (w.clone(), true, "consistent"),
                                Twin::Differ(w, what) => (w.clone(), false, *what),
                            };
                            if w == v {
                                out.count("twin_identical");
                                continue;
                            }
                            emit(tagged("canon", vec![ts.clone(), w.clone()]), out, tag, &mut hist);
                            out.evaluations_extra += 1;
                            out.count(&format!("twin_{}", what));
                            let (a, b) = (quantified_of(&ts, &v), quantified_of(&ts, &w));
                            if let (Some(a), Some(b)) = (a, b) {
                                if want_equal && a != b {
                                    out.fail(
                                        "two values that differ by a consistent renaming of unbound variables (kinds and universes kept) have different canonical forms",
                                        &format!("{} {}", tagged("canon", vec![ts.clone(), v.clone()]), tagged("canon", vec![ts.clone(), w.clone()])),
                                        "canon_renaming_not_identified",
                                    );
                                }
                                if !want_equal && a == b {
                                    out.fail(
                                        "two values that do not differ by a renaming (merged / split variables, changed universe or kind) have the same canonical form",
                                        &format!("{} {}", tagged("canon", vec![ts.clone(), v.clone()]), tagged("canon", vec![ts.clone(), w.clone()])),
                                        "canon_nonrenaming_identified",
                                    );
                                }
                            }
                        }
                    }
                }
            }
            1 => {
                // u_canonicalize: of a canonicalizer output or of a generated canonical value
                let c = if rng.chance(1, 2) {
                    let spec = gen_table(&mut rng);
                    let v = gen_value(&mut rng, &spec, false);
                    match quantified_of(&spec.table_sexp(), &v) {
                        Some(q) => enc_canon_subst(&q),
                        None => gen_canonical(&mut rng, true),
                    }
                } else {
                    gen_canonical(&mut rng, !malformed)
                };
                emit(tagged("ucanon", vec![c]), out, tag, &mut hist);
            }
            2 => {
                // map_from_canonical with out-of-range canonical universes
                let mut us: Vec<usize> = vec![0];
                for _ in 0..rng.usize_below(4) {
                    let last = *us.last().unwrap();
                    us.push(last + 1 + rng.usize_below(3));
                }
                if malformed {
                    match rng.usize_below(3) {
                        0 => us.clear(),
                        1 => us.reverse(),
                        _ => us[0] = 1,
                    }
                }
                let c = gen_canonical(&mut rng, !malformed);
                // squeeze the universes into 0..len+2
                let m = us.len() + 3;
                let mut f = |x: &Sexp| -> Option<Sexp> {
                    let (h, xs) = x.tagged()?;
                    if PH_HEADS.contains(&h) && xs.len() == 2 {
                        Some(tagged(h, vec![nat(xs[0].as_nat()? % m), xs[1].clone()]))
                    } else {
                        None
                    }
                };
                let c = rewrite(&c, &mut f);
                let c = match c.tagged() {
                    Some(("canon", [bs, v])) => {
                        let bs2 = list(
                            bs.as_list().unwrap().iter().map(|b| {
                                let b = b.as_list().unwrap();
                                list(vec![b[0].clone(), nat(b[1].as_nat().unwrap() % m)])
                            }).collect(),
                        );
                        tagged("canon", vec![bs2, v.clone()])
                    }
                    _ => c,
                };
                emit(tagged("map-from-canonical", vec![nats(&us), c]), out, tag, &mut hist);
            }
            3 => {
                // instantiate + canonicalize
                let spec = gen_table(&mut rng);
                let c = if rng.chance(3, 5) {
                    let spec2 = gen_table(&mut rng);
                    let v = gen_value(&mut rng, &spec2, false);
                    match quantified_of(&spec2.table_sexp(), &v) {
                        Some(q) => enc_canon_subst(&q),
                        None => gen_canonical(&mut rng, true),
                    }
                } else {
                    gen_canonical(&mut rng, !malformed)
                };
                // inference variables inside a (malformed) canonical value must exist in the table
                // once the binders are instantiated; ena panics on others, the model does not cover them
                let nb = c.as_list().and_then(|xs| xs.get(1)).and_then(|b| b.as_list()).map(|b| b.len()).unwrap_or(0);
                let nv = spec.sort.len() + nb;
                let mut f = |x: &Sexp| -> Option<Sexp> {
                    let (h, xs) = x.tagged()?;
                    match (h, xs) {
                        ("infer", [n, k]) => Some(if nv == 0 { tagged("scalar", vec![nat(13)]) } else { tagged("infer", vec![nat(n.as_nat()? % nv), k.clone()]) }),
                        ("linfer", [n]) => Some(if nv == 0 { atom("static") } else { tagged("linfer", vec![nat(n.as_nat()? % nv)]) }),
                        ("cinfer", [n]) => Some(if nv == 0 { tagged("cval", vec![nat(0)]) } else { tagged("cinfer", vec![nat(n.as_nat()? % nv)]) }),
                        _ => None,
                    }
                };
                let c = rewrite(&c, &mut f);
                emit(tagged("instantiate-canon", vec![spec.table_sexp(), c]), out, tag, &mut hist);
            }
            4 => {
                // invert: mostly values whose variables are bound
                let spec = gen_table(&mut rng);
                let v = gen_value(&mut rng, &spec, false);
                let bound_vars: Vec<usize> = (0..spec.sort.len()).filter(|x| spec.class_bound[spec.class[*x]].is_some()).collect();
                let v = if rng.chance(2, 3) { fix_infer_leaves(&mut rng, &spec, &bound_vars, &v) } else { v };
                emit(tagged("invert", vec![spec.table_sexp(), v]), out, tag, &mut hist);
            }
            _ => {
                let spec = gen_table(&mut rng);
                let c = gen_canonical(&mut rng, !malformed);
                if let Some(("canon", [bs, v])) = c.tagged() {
                    let ks = list(bs.as_list().unwrap().iter().map(|b| b.as_list().unwrap()[0].clone()).collect());
                    let op = if rng.chance(1, 2) { "instantiate-ex" } else { "instantiate-univ" };
                    emit(tagged(op, vec![spec.table_sexp(), ks, v.clone()]), out, tag, &mut hist);
                }
            }
        }
    }
    for (k, v) in hist {
        out.count_n(&format!("head_{}", k), v);
    }
}
