//! C13: permuting the items of a program and the where-clauses of its impls never changes the
//! solution of a goal.  Names are stable under permutation (S0, T1, ...), ids are not: answers are
//! compared through their name-based rendering.
use crate::progen::*;
use crate::solver::*;
use crate::{Ctx, Out};
use chalk_integration::interner::ChalkIr;
use chalk_solve::Solution;
use std::sync::Arc;

fn render_answer(text: &str, r: &Result<Option<Solution<ChalkIr>>, String>) -> String {
    match r {
        Err(site) => format!("panic: {}", site),
        Ok(None) => "No possible solution".to_string(),
        Ok(Some(s)) => {
            let program = match lower_program(text, chalk_integration::SolverChoice::slg_default()) {
                Ok((_, p)) => p,
                Err(e) => return format!("<program rejected {}>", e),
            };
            chalk_integration::tls::set_current_program(&Arc::clone(&program), || format!("{}", s.display(ChalkIr)))
        }
    }
}

fn shuffle<T>(rng: &mut crate::rng::Rng, v: &mut Vec<T>) {
    for i in (1..v.len()).rev() {
        let j = rng.usize_below(i + 1);
        v.swap(i, j);
    }
}

pub fn run(ctx: &Ctx, out: &mut Out) {
    // corpus lines: `program items separated by | ;; goal`
    let mut work: Vec<(ProgT, Option<Vec<String>>, Vec<String>)> = vec![];
    let mut fixed: Vec<(Vec<String>, String)> = vec![];
    for l in ctx.corpus_lines() {
        if let Some((p, g)) = l.split_once(";;") {
            fixed.push((p.split(" | ").map(|s| s.trim().to_string()).collect(), g.trim().to_string()));
        }
    }
    let _ = &mut work;
    let nprog = ctx.budget(100, 4000);
    let nperm = if ctx.thorough() { 24 } else { 6 };
    let mut idx = 0usize;
    let mut jobs: Vec<(Vec<String>, Vec<String>, u64)> = fixed.into_iter().map(|(items, g)| (items, vec![g], 0)).collect();
    for i in 0..nprog {
        let mut rng = ctx.rng(0, i as u64);
        let mut pg = ProgGen { rng: &mut rng, cfg: ProgCfg { coinductive: false, growing: false, ..ProgCfg::default() } };
        // (no growing-type impls: the property is about searches that stay within the size limits)
        let mut prog = pg.program();
        // more where-clauses so that their order matters
        for im in prog.impls.iter_mut() {
            if im.nparams > 0 && pg.rng.chance(1, 3) {
                let tr = pg.rng.usize_below(prog.traits.len());
                if prog.traits[tr].nparams == 0 {
                    im.wcs.push(WcT { ty: TyT::Param(0), tr, args: vec![] });
                }
            }
        }
        let goals: Vec<String> = (0..5)
            .map(|k| if k < 2 { goal_text(&pg.ground_goal(&prog, 2)) } else { goal_text(&pg.exists_goal_from_impl(&prog)) })
            .collect();
        jobs.push((prog.render_items(), goals, i as u64 + 1));
    }
    // impls with long, mixed where-clause lists (closed, pinning and open conditions)
    let nwc = ctx.budget(150, 4000);
    for i in 0..nwc {
        let mut rng = ctx.rng(2, i as u64);
        let (items, goals) = wc_rich_items(&mut rng);
        jobs.push((items, goals, 1_000_000 + i as u64));
    }
    for (items, goals, jid) in jobs {
        idx += 1;
        if !ctx.mine(idx) {
            continue;
        }
        let base = items.join("\n");
        if lower_program(&base, chalk_integration::SolverChoice::slg_default()).is_err() {
            out.count("program_rejected");
            continue;
        }
        out.count("programs");
        let mut rng = ctx.rng(1, jid);
        // permutations of the item list, and of each where-clause list (textually: `where a, b`)
        let mut variants: Vec<String> = vec![];
        for _ in 0..nperm {
            let mut it = items.clone();
            shuffle(&mut rng, &mut it);
            let it: Vec<String> = it
                .into_iter()
                .map(|item| match item.split_once(" where ") {
                    Some((head, rest)) if rest.ends_with(" {}") => {
                        let mut wcs: Vec<String> = rest[..rest.len() - 3].split(", ").map(|s| s.to_string()).collect();
                        // only top-level commas separate where-clauses here (no generic args with commas in wcs)
                        if wcs.iter().all(|w| w.matches('<').count() == w.matches('>').count()) {
                            shuffle(&mut rng, &mut wcs);
                        }
                        format!("{} where {} {{}}", head, wcs.join(", "))
                    }
                    _ => item,
                })
                .collect();
            variants.push(it.join("\n"));
        }
        for gtext in &goals {
            let program = lower_program(&base, chalk_integration::SolverChoice::slg_default()).unwrap().1;
            let goal = match lower_goal_text(&program, gtext) {
                Ok(g) => g,
                Err(_) => {
                    out.count("goal_rejected");
                    continue;
                }
            };
            let _ = goal;
            for (name, choice) in solver_choices() {
                let label = format!("{} | {} | goal {{ {} }}", name, items.join(" | "), gtext);
                if !ctx.inflight(&label) {
                    continue;
                }
                let mut answers: Vec<(String, String)> = vec![];
                for v in std::iter::once(&base).chain(variants.iter()) {
                    let p = match lower_program(v, choice) {
                        Ok((_, p)) => p,
                        Err(_) => continue,
                    };
                    let g = match lower_goal_text(&p, gtext) {
                        Ok(g) => g,
                        Err(_) => continue,
                    };
                    let r = solve_fresh(v, &peel(&g), choice);
                    answers.push((v.clone(), render_answer(v, &r)));
                }
                out.evaluations_extra += answers.len() as u64;
                // one (implementation-only) case per permutation family
                let fam = format!("(note {} {} {})", name, jid, goals.iter().position(|g| g == gtext).unwrap_or(0));
                out.case(fam, "noted".to_string(), true, &label);
                out.count(&format!("{}_goals", name));
                let first = answers[0].1.clone();
                if let Some((v, a)) = answers.iter().find(|(_, a)| *a != first) {
                    let both_guidance = first.starts_with("Ambiguous") && a.starts_with("Ambiguous");
                    // identity substitution `[?0 := ^0.0, ?1 := ^0.1 ..]`: "holds for every value of the unknowns"
                    let trivial_unique = |s: &str| {
                        s.starts_with("Unique") && s.contains("substitution [") && {
                            let inner = &s[s.find("substitution [").unwrap() + 14..s.rfind(']').unwrap_or(s.len())];
                            inner.split(", ").enumerate().all(|(i, e)| e.trim() == format!("?{} := ^0.{}", i, i))
                        }
                    };
                    let unknown = |s: &str| s == "Ambiguous; no inference guidance";
                    let cls = if name == "slg" && both_guidance {
                        "slg_antiunify_order"
                    } else if name == "slg" && ((trivial_unique(&first) && unknown(a)) || (trivial_unique(a) && unknown(&first))) {
                        "slg_trivial_answer_order"
                    } else if name == "slg" && ((first.starts_with("Unique") && a.starts_with("Ambiguous")) || (first.starts_with("Ambiguous") && a.starts_with("Unique"))) {
                        // F13b: one order finds the single answer, another order aggregates (or cuts a cycle) and only gives guidance
                        "slg_unique_vs_ambiguous_order"
                    } else if name == "slg" && ((first.starts_with("No possible") && a.starts_with("Ambiguous")) || (first.starts_with("Ambiguous") && a.starts_with("No possible"))) {
                        // F13b: one order refutes the goal, another runs into the size limit first and answers Ambiguous
                        "slg_no_solution_vs_ambiguous_order"
                    } else {
                        // `No possible solution` vs `Unique`, two different `Unique`s, anything of the recursive solver
                        "answer_depends_on_declaration_order"
                    };
                    out.fail(
                        &format!("answers differ under permutation: `{}` vs `{}`", first, a),
                        &format!("{} ;; permuted: {}", label, v.replace('\n', " | ")),
                        cls,
                    );
                    out.count(&format!("{}_order_dependent", name));
                }
            }
        }
    }
    // one line for the model side: the order-dependence witness of the aggregation layer (F2)
    if ctx.shard.map(|s| s.0 == 0).unwrap_or(true) {
        out.case(
            "(may-invalidate ((ty (adt 0 ((ty (bound 0 0)) (ty (bound 0 0)))))) ((ty (adt 0 ((ty (adt 1 ())) (ty (adt 1 ())))))))".to_string(),
            "(ok 1)".to_string(),
            true,
            "aggregation-layer witness of F2: generic answer after concrete one may invalidate",
        );
        out.case(
            "(may-invalidate ((ty (adt 0 ((ty (adt 1 ())) (ty (adt 1 ())))))) ((ty (adt 0 ((ty (bound 0 0)) (ty (bound 0 0)))))))".to_string(),
            "(ok 0)".to_string(),
            true,
            "aggregation-layer witness of F2: concrete answer after generic one does not",
        );
    }
}
