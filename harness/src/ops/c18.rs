//! C18: `CouldMatch` (types, domain goals / program clauses, argument slices) and the filter of
//! `Program::impls_for_trait`, real code vs `lean/ChalkModel/CouldMatch.lean`; plus the property
//! itself on the implementation: pairs that are unifiable by construction must not be rejected,
//! and for every rejected pair the real `InferenceTable::relate` must fail.
use crate::gen::{heads, Gen, GenCfg};
use crate::wire::*;
use crate::{Ctx, Out};
use chalk_integration::interner::ChalkIr;
use chalk_ir::could_match::CouldMatch;
use chalk_ir::*;
use chalk_solve::infer::InferenceTable;

fn res_bool(r: Result<bool, String>) -> Sexp {
    match r {
        Ok(b) => ok(atom(if b { "1" } else { "0" })),
        Err(site) => panic_resp(&site),
    }
}

/// does the real unifier relate the two types (no bound variables; inference variables < 16)?
fn relates(db: &TableDb, a: &Ty<ChalkIr>, b: &Ty<ChalkIr>) -> Result<bool, String> {
    let (db, a, b) = (db.clone(), a.clone(), b.clone());
    catch(move || {
        let mut table: InferenceTable<ChalkIr> = InferenceTable::new();
        for _ in 0..16 {
            table.new_variable(UniverseIndex::root());
        }
        let env = Environment::new(I);
        table.relate(I, &db, &env, Variance::Invariant, &a, &b).is_ok()
    })
}

fn has_head(s: &Sexp, hs: &[&str]) -> bool {
    match s {
        Sexp::Atom(a) => hs.contains(&a.as_str()),
        Sexp::List(xs) => xs.iter().any(|x| has_head(x, hs)),
    }
}

pub fn exec(req: &Sexp, out: &mut Out, tags: &str, unifiable_by_construction: bool) {
    let (op, xs) = match req.tagged() {
        Some(x) => x,
        None => return,
    };
    let resp = match (op, xs) {
        ("cm-ty", [db, a, b]) => {
            let (db, a, b) = (dec_udb(db).unwrap(), dec_ty(a).unwrap(), dec_ty(b).unwrap());
            let (db2, a2, b2) = (db.clone(), a.clone(), b.clone());
            let r = catch(move || a2.could_match(I, &db2, &b2));
            if r == Ok(false) {
                out.count("cm_false");
                // witness search on the implementation: the real unifier must fail too
                // (only meaningful without free bound variables / binders mismatch)
                if !has_head(&xs[1], &["bound", "lbound", "cbound"]) && !has_head(&xs[2], &["bound", "lbound", "cbound"]) {
                    if let Ok(true) = relates(&db, &a, &b) {
                        out.fail("could_match = false but InferenceTable::relate succeeds", &req.to_string(), "cm_false_relate_ok");
                    }
                    out.evaluations_extra += 1;
                }
                if unifiable_by_construction {
                    out.fail("could_match rejects a pair with a common instance", &req.to_string(), "cm_rejects_unifiable");
                }
            }
            res_bool(r)
        }
        ("cm-dg", [db, a, b]) => {
            let (db, a, b) = (dec_udb(db).unwrap(), dec_domain_goal(a).unwrap(), dec_domain_goal(b).unwrap());
            let (a1, b1, db1) = (a.clone(), b.clone(), db.clone());
            let r = catch(move || a1.could_match(I, &db1, &b1));
            // the clause-level entry point must agree with the conclusion-level one
            let clause = ProgramClauseData(Binders::new(
                VariableKinds::from_iter(I, vec![VariableKind::Ty(TyVariableKind::General); 3]),
                ProgramClauseImplication {
                    consequence: a.clone(),
                    conditions: Goals::empty(I),
                    constraints: Constraints::empty(I),
                    priority: ClausePriority::High,
                },
            ))
            .intern(I);
            let (b2, db2) = (b.clone(), db.clone());
            let r2 = catch(move || clause.could_match(I, &db2, &b2));
            if r != r2 {
                out.fail("ProgramClause::could_match differs from consequence.could_match", &req.to_string(), "cm_clause_vs_consequence");
            }
            if r == Ok(false) {
                out.count("cm_false");
                if unifiable_by_construction {
                    out.fail("could_match rejects a clause conclusion with a common instance", &req.to_string(), "cm_rejects_unifiable");
                }
            }
            res_bool(r)
        }
        ("cm-args", [db, a, b]) => {
            let (db, a, b) = (dec_udb(db).unwrap(), dec_args(a).unwrap(), dec_args(b).unwrap());
            let r = catch(move || a.as_slice().could_match(I, &db, b.as_slice()));
            if r == Ok(false) {
                out.count("cm_false");
                if unifiable_by_construction {
                    out.fail("could_match rejects an argument list with a common instance", &req.to_string(), "cm_rejects_unifiable");
                }
            }
            res_bool(r)
        }
        _ => {
            out.count("unknown_op");
            return;
        }
    };
    let rs = resp.to_string();
    out.count(&format!("{}_{}", op, rs.replace(['(', ')'], "").replace(' ', "_")));
    out.case(req.to_string(), rs.clone(), rs == "(ok 0)" || rs.starts_with("(panic"), tags);
}

fn canon_req(req: &Sexp) -> Option<Sexp> {
    let (op, xs) = req.tagged()?;
    Some(match (op, xs) {
        ("cm-ty", [db, a, b]) => tagged(op, vec![enc_udb(&dec_udb(db)?), enc_ty(&dec_ty(a)?), enc_ty(&dec_ty(b)?)]),
        ("cm-dg", [db, a, b]) => tagged(
            op,
            vec![enc_udb(&dec_udb(db)?), enc_domain_goal(&dec_domain_goal(a)?), enc_domain_goal(&dec_domain_goal(b)?)],
        ),
        ("cm-args", [db, a, b]) => tagged(op, vec![enc_udb(&dec_udb(db)?), enc_args(&dec_args(a)?), enc_args(&dec_args(b)?)]),
        _ => return None,
    })
}

fn gen_udb(g: &mut Gen, well_formed: bool) -> TableDb {
    let vs = [Variance::Covariant, Variance::Invariant, Variance::Contravariant];
    let mut mk = |g: &mut Gen| -> Vec<Vec<Variance>> {
        (0..g.cfg.n_ids)
            .map(|_| {
                // well-formed: at least max_args entries, so that zip_substs never indexes out of range
                let n = if well_formed { g.cfg.max_args + 1 } else { g.rng.usize_below(g.cfg.max_args + 2) };
                (0..n).map(|_| *g.rng.pick(&vs)).collect()
            })
            .collect()
    };
    TableDb { adts: mk(g), fns: mk(g) }
}

/// replace random type subterms by variables: the result has `s` as an instance
pub fn generalize(g: &mut Gen, s: &Sexp, use_bound: bool) -> Sexp {
    let mut f = |t: &Sexp| -> Option<Sexp> {
        if g.rng.chance(1, 5) {
            Some(if use_bound && g.rng.chance(1, 2) {
                tagged("bound", vec![nat(0), nat(g.rng.usize_below(3))])
            } else {
                tagged("infer", vec![nat(g.rng.usize_below(8)), atom("g")])
            })
        } else {
            let _ = t;
            None
        }
    };
    map_types(s, &mut f)
}

/// small edit that usually destroys unifiability
pub fn edit(rng: &mut crate::rng::Rng, s: &Sexp) -> Sexp {
    let mut done = false;
    let mut f = |t: &Sexp| -> Option<Sexp> {
        if done || !rng.chance(1, 4) {
            return None;
        }
        if let Sexp::List(xs) = t {
            let h = xs[0].as_atom().unwrap_or("");
            match h {
                "adt" | "fndef" | "closure" | "coroutine" | "witness" | "assoc" | "opaque-ty" | "foreign" | "scalar" => {
                    done = true;
                    let mut ys = xs.clone();
                    let cur = ys[1].as_nat().unwrap_or(0);
                    ys[1] = nat(if h == "scalar" { if cur == 0 { 1 } else { 0 } } else { (cur + 1) % 4 });
                    return Some(Sexp::List(ys));
                }
                "raw" | "ref" => {
                    done = true;
                    let mut ys = xs.clone();
                    ys[1] = nat(1 - ys[1].as_nat().unwrap_or(0));
                    return Some(Sexp::List(ys));
                }
                _ => {}
            }
        }
        None
    };
    let edited = map_types(s, &mut f);
    // alternatively: change the binder list of one quantified bound of a `dyn` type (the pre-filter
    // ignores binders; the unifier instantiates them, so such pairs can still unify)
    if !done && rng.chance(1, 2) {
        return edit_qwc_binders(rng, &edited);
    }
    edited
}

fn edit_qwc_binders(rng: &mut crate::rng::Rng, s: &Sexp) -> Sexp {
    match s {
        Sexp::List(xs) if xs.first().and_then(|x| x.as_atom()) == Some("qwc") && xs.len() == 3 => {
            let mut ks = xs[1].as_list().unwrap().to_vec();
            if ks.is_empty() || rng.chance(1, 2) {
                ks.push(if rng.chance(1, 2) { atom("klt") } else { tagged("kty", vec![atom("g")]) });
            } else {
                ks.pop();
            }
            Sexp::List(vec![xs[0].clone(), list(ks), xs[2].clone()])
        }
        Sexp::List(xs) => Sexp::List(xs.iter().map(|x| edit_qwc_binders(rng, x)).collect()),
        a => a.clone(),
    }
}

fn gen_domain_goal(g: &mut Gen, depth: usize) -> Sexp {
    match g.rng.weighted(&[6, 2, 2, 2, 2, 2, 1, 1, 1, 1, 1, 1, 1, 1]) {
        0 => tagged("holds", vec![g.wc(depth, 0)]),
        1 => tagged("wf-trait", vec![nat(g.rng.usize_below(4)), g.args(depth, 0)]),
        2 => tagged("wf-ty", vec![g.ty(depth, 0)]),
        3 => tagged("from-env-trait", vec![nat(g.rng.usize_below(4)), g.args(depth, 0)]),
        4 => tagged("from-env-ty", vec![g.ty(depth, 0)]),
        5 => {
            let al = tagged(if g.rng.chance(2, 3) { "proj" } else { "opaque" }, vec![nat(g.rng.usize_below(4)), g.args(depth, 0)]);
            tagged("normalize", vec![al, g.ty(depth, 0)])
        }
        6 => tagged("is-local", vec![g.ty(depth, 0)]),
        7 => tagged("is-upstream", vec![g.ty(depth, 0)]),
        8 => tagged("is-fully-visible", vec![g.ty(depth, 0)]),
        9 => tagged("local-impl-allowed", vec![nat(g.rng.usize_below(4)), g.args(depth, 0)]),
        10 => atom("compatible"),
        11 => tagged("downstream-type", vec![g.ty(depth, 0)]),
        12 => atom("reveal"),
        _ => tagged("object-safe", vec![nat(g.rng.usize_below(4))]),
    }
}

pub fn run(ctx: &Ctx, out: &mut Out) {
    let mut lines = ctx.corpus_lines();
    if let Some(f) = &ctx.replay {
        lines = std::fs::read_to_string(f).unwrap_or_default().lines().map(|s| s.to_string()).collect();
    }
    for l in lines {
        if let Some(r) = parse(&l).and_then(|s| canon_req(&s)) {
            exec(&r, out, "corpus", false);
        }
    }
    if ctx.replay.is_some() {
        return;
    }
    super::c18_impls::run(ctx, out);
    let n = ctx.budget(5000, 300000);
    let mut hist = std::collections::BTreeMap::new();
    for i in 0..n {
        let mut rng = ctx.rng(0, i as u64);
        let depth = 1 + rng.usize_below(4);
        let malformed = rng.chance(1, 10);
        // no free bound variables in the common ancestor; no binders half of the time so that the
        // real unifier can be asked about rejected pairs
        let plain = rng.chance(1, 2);
        let cfg = GenCfg { max_depth: depth, free_levels: 0, binders: !plain, infer: false, ..GenCfg::default() };
        let mut g = Gen::new(&mut rng, cfg);
        let db = gen_udb(&mut g, !malformed);
        let mode = g.rng.weighted(&[4, 3, 3]); // unifiable by construction / edited / independent
        let kind = g.rng.weighted(&[5, 4, 2]);
        let anc = match kind {
            0 => g.ty(depth, 0),
            1 => gen_domain_goal(&mut g, depth),
            _ => g.args(depth, 0),
        };
        let a = generalize(&mut g, &anc, true);
        let mut b = generalize(&mut g, &anc, false);
        if mode == 1 {
            b = edit(g.rng, &b);
        } else if mode == 2 {
            b = match kind {
                0 => g.ty(depth, 0),
                1 => gen_domain_goal(&mut g, depth),
                _ => g.args(depth, 0),
            };
        }
        let op = ["cm-ty", "cm-dg", "cm-args"][kind];
        let req = tagged(op, vec![enc_udb(&db), a, b]);
        heads(&req, &mut hist);
        match canon_req(&req) {
            Some(r) => exec(&r, out, ["unifiable", "edited", "independent"][mode], mode == 0 && !malformed),
            None => out.count("undecodable"),
        }
    }
    for (k, v) in hist {
        out.count_n(&format!("head_{}", k), v);
    }
}
