//! C22: printing a program and reparsing it gives back an equivalent program.
//!
//! (a) DIRECT PROPERTY CHECK on the real code: program text -> lower (real chalk) -> render with
//!     the real `write_items` over all item ids -> reparse + lower the rendered text -> compare the
//!     two `Program`s item-wise (where-clause lists as sets, also inside `dyn`) -> render again and
//!     require byte-equal text.
//! (b) MODEL CORRESPONDENCE (see c22_model.rs): programs inside the modelled fragment are
//!     serialised from the lowered `Program` and sent to the Lean writer model; its token list
//!     must equal the tokenisation of the real rendered text.
//! Program sources: an own generator covering every item kind the writer knows, the programs of
//! /repo/tests/display/*.rs and /repo/tests/test/*.rs extracted at run time with a brace matcher,
//! and mutations of those.  Corpus lines: items separated by ` | `.
use super::c22_model;
use crate::rng::Rng;
use crate::solver::lower_program;
use crate::wire::*;
use crate::{Ctx, Out};
use chalk_integration::interner::{ChalkIr, RawId};
use chalk_integration::program::Program;
use chalk_integration::{tls, SolverChoice};
use chalk_ir::fold::{TypeFoldable, TypeFolder, TypeSuperFoldable};
use chalk_ir::*;
use chalk_solve::display::{write_items, WriterState};
use chalk_solve::logging_db::RecordedItemId;
use chalk_solve::rust_ir::*;
use std::collections::BTreeMap;
use std::sync::Arc;

// ---------------------------------------------------------------------------------------------
// rendering with the real writer (as tests/display/util.rs does)

pub fn program_item_ids(program: &Program) -> Vec<RecordedItemId<ChalkIr>> {
    let mut ids: Vec<(RawId, RecordedItemId<ChalkIr>)> = vec![];
    ids.extend(program.adt_data.keys().map(|id| (id.0, RecordedItemId::from(*id))));
    ids.extend(program.trait_data.keys().map(|id| (id.0, RecordedItemId::from(*id))));
    ids.extend(program.impl_data.keys().map(|id| (id.0, RecordedItemId::from(*id))));
    ids.extend(program.opaque_ty_data.keys().map(|id| (id.0, RecordedItemId::from(*id))));
    ids.extend(program.fn_def_data.keys().map(|id| (id.0, RecordedItemId::from(*id))));
    ids.sort_by_key(|(raw, _)| *raw);
    ids.into_iter().map(|(_, id)| id).collect()
}

pub fn write_program(program: &Arc<Program>) -> Result<String, String> {
    catch(std::panic::AssertUnwindSafe(|| {
        tls::set_current_program(program, || {
            let mut out = String::new();
            let ids = program_item_ids(program);
            write_items::<_, _, Program, _, _>(&mut out, &WriterState::new(&**program), ids).map(|_| out).map_err(|e| format!("fmt error {:?}", e))
        })
    }))
    .and_then(|r| r)
}

// ---------------------------------------------------------------------------------------------
// comparison of two lowered programs: item-wise, where-clause lists as sets

#[derive(chalk_derive::FallibleTypeFolder)]
struct DynNorm<J: chalk_ir::interner::Interner>(J, Option<FnSig<J>>);
impl<J: chalk_ir::interner::Interner> TypeFolder<J> for DynNorm<J> {
    fn as_dyn(&mut self) -> &mut dyn TypeFolder<J> {
        self
    }
    fn interner(&self) -> J {
        self.0
    }
    fn fold_ty(&mut self, ty: Ty<J>, outer_binder: DebruijnIndex) -> Ty<J> {
        let i = self.0;
        let ty = ty.super_fold_with(self.as_dyn(), outer_binder);
        if let (TyKind::Function(f), Some(sig)) = (ty.kind(i), &self.1) {
            return TyKind::Function(FnPointer { num_binders: f.num_binders, sig: sig.clone(), substitution: f.substitution.clone() }).intern(i);
        }
        if let TyKind::Dyn(d) = ty.kind(i) {
            let (bounds, binders) = d.bounds.clone().into_value_and_skipped_binders();
            let v = set_of(bounds.iter(i).cloned().collect());
            let d2 = DynTy { bounds: Binders::new(binders, QuantifiedWhereClauses::from_iter(i, v)), lifetime: d.lifetime.clone() };
            return TyKind::Dyn(d2).intern(i);
        }
        ty
    }
}

fn set_of<J: chalk_ir::interner::Interner>(mut v: Vec<QuantifiedWhereClause<J>>) -> Vec<QuantifiedWhereClause<J>> {
    v.sort_by_key(|w| format!("{:?}", w));
    v.dedup();
    v
}

thread_local! {
    /// when set, `nf` also resets the signature of every fn pointer (cause analysis)
    static RESET_SIG: std::cell::Cell<bool> = std::cell::Cell::new(false);
}

fn default_sig() -> FnSig<ChalkIr> {
    FnSig { abi: chalk_integration::interner::ChalkFnAbi::Rust, safety: Safety::Safe, variadic: false }
}

fn nf<T: TypeFoldable<ChalkIr>>(x: T) -> T {
    let sig = if RESET_SIG.with(|c| c.get()) { Some(default_sig()) } else { None };
    x.fold_with(&mut DynNorm(I, sig), DebruijnIndex::INNERMOST)
}

fn norm_wcs(v: &[QuantifiedWhereClause<ChalkIr>]) -> Vec<QuantifiedWhereClause<ChalkIr>> {
    set_of(v.iter().cloned().map(nf).collect())
}

/// the per-item data with every where-clause list replaced by its sorted, duplicate-free form
pub fn norm_program(p: &Program) -> Program {
    let mut q = p.clone();
    for (_, d) in q.adt_data.iter_mut() {
        let mut x = (**d).clone();
        let (mut b, ks) = nf(x.binders.clone()).into_value_and_skipped_binders();
        b.where_clauses = set_of(b.where_clauses);
        x.binders = Binders::new(ks, b);
        *d = Arc::new(x);
    }
    for (_, d) in q.trait_data.iter_mut() {
        let mut x = (**d).clone();
        let (b, ks) = x.binders.clone().into_value_and_skipped_binders();
        x.binders = Binders::new(ks, TraitDatumBound { where_clauses: norm_wcs(&b.where_clauses) });
        *d = Arc::new(x);
    }
    for (_, d) in q.impl_data.iter_mut() {
        let mut x = (**d).clone();
        let (mut b, ks) = nf(x.binders.clone()).into_value_and_skipped_binders();
        b.where_clauses = set_of(b.where_clauses);
        x.binders = Binders::new(ks, b);
        *d = Arc::new(x);
    }
    for (_, d) in q.associated_ty_data.iter_mut() {
        let mut x = (**d).clone();
        let (mut b, ks) = nf(x.binders.clone()).into_value_and_skipped_binders();
        b.where_clauses = set_of(b.where_clauses);
        x.binders = Binders::new(ks, b);
        *d = Arc::new(x);
    }
    for (_, d) in q.associated_ty_values.iter_mut() {
        *d = Arc::new(nf((**d).clone()));
    }
    for (_, d) in q.fn_def_data.iter_mut() {
        let mut x = (**d).clone();
        let (mut b, ks) = nf(x.binders.clone()).into_value_and_skipped_binders();
        b.where_clauses = set_of(b.where_clauses);
        x.binders = Binders::new(ks, b);
        *d = Arc::new(x);
    }
    for (_, d) in q.opaque_ty_data.iter_mut() {
        let mut x = nf((**d).clone());
        let (mut b, ks) = x.bound.clone().into_value_and_skipped_binders();
        let (bs, k1) = b.bounds.clone().into_value_and_skipped_binders();
        b.bounds = Binders::new(k1, set_of(bs));
        let (ws, k2) = b.where_clauses.clone().into_value_and_skipped_binders();
        b.where_clauses = Binders::new(k2, set_of(ws));
        x.bound = Binders::new(ks, b);
        *d = Arc::new(x);
    }
    for (_, d) in q.hidden_opaque_types.iter_mut() {
        *d = Arc::new(nf((**d).clone()));
    }
    q
}

/// names of the `Program` fields on which two programs differ
fn raw_diff(a: &Program, b: &Program) -> Vec<&'static str> {
    let mut d = vec![];
    macro_rules! cmp {
        ($($f:ident),*) => { $( if a.$f != b.$f { d.push(stringify!($f)); } )* };
    }
    cmp!(
        adt_ids, adt_kinds, adt_variances, fn_def_ids, fn_def_kinds, fn_def_variances, closure_ids, closure_upvars, closure_kinds, coroutine_ids,
        coroutine_kinds, coroutine_data, coroutine_witness_data, trait_ids, trait_kinds, adt_data, adt_reprs, adt_size_aligns, fn_def_data,
        closure_inputs_and_output, closure_closure_kind, impl_data, associated_ty_values, opaque_ty_ids, opaque_ty_kinds, opaque_ty_data,
        hidden_opaque_types, trait_data, well_known_traits, well_known_assoc_types, associated_ty_data, custom_clauses, object_safe_traits,
        foreign_ty_ids
    );
    d
}

/// item-wise comparison with where-clause lists as sets
pub fn program_diff(a: &Program, b: &Program) -> Vec<&'static str> {
    raw_diff(&norm_program(a), &norm_program(b))
}

fn synth_name(prefix: &str, i: u32) -> chalk_integration::Identifier {
    chalk_integration::Identifier::from(format!("{}{}", prefix, i).as_str())
}

/// one aspect of a program erased (for cause analysis): returns the modified copy
fn erase(p: &Program, what: &str) -> Program {
    let mut q = p.clone();
    match what {
        "variance" => {
            q.adt_variances.clear();
            q.fn_def_variances.clear();
        }
        "one_zst" => q.adt_size_aligns.clear(),
        "lang_assoc_type" => q.well_known_assoc_types.clear(),
        "fn_sig" => {
            RESET_SIG.with(|c| c.set(true));
            q = norm_program(&q);
            RESET_SIG.with(|c| c.set(false));
            for (_, d) in q.fn_def_data.iter_mut() {
                let mut x = (**d).clone();
                x.sig = default_sig();
                *d = Arc::new(x);
            }
        }
        "opaque_where" => {
            for (_, d) in q.opaque_ty_data.iter_mut() {
                let mut x = (**d).clone();
                let (mut b, ks) = x.bound.clone().into_value_and_skipped_binders();
                let (_, k2) = b.where_clauses.clone().into_value_and_skipped_binders();
                b.where_clauses = Binders::new(k2, vec![]);
                x.bound = Binders::new(ks, b);
                *d = Arc::new(x);
            }
        }
        "names" => {
            q.adt_ids = q.adt_ids.values().map(|id| (synth_name("a", id.0.index), *id)).collect();
            q.trait_ids = q.trait_ids.values().map(|id| (synth_name("t", id.0.index), *id)).collect();
            q.opaque_ty_ids = q.opaque_ty_ids.values().map(|id| (synth_name("o", id.0.index), *id)).collect();
            q.fn_def_ids = q.fn_def_ids.values().map(|id| (synth_name("f", id.0.index), *id)).collect();
            for (id, k) in q.adt_kinds.iter_mut() {
                k.name = synth_name("a", id.0.index);
            }
            for (id, k) in q.trait_kinds.iter_mut() {
                k.name = synth_name("t", id.0.index);
            }
            for (id, k) in q.opaque_ty_kinds.iter_mut() {
                k.name = synth_name("o", id.0.index);
            }
            for (id, k) in q.fn_def_kinds.iter_mut() {
                k.name = synth_name("f", id.0.index);
            }
            for (id, d) in q.associated_ty_data.iter_mut() {
                let mut x = (**d).clone();
                x.name = synth_name("s", id.0.index);
                *d = Arc::new(x);
            }
        }
        _ => {}
    }
    q
}

/// (cause, classifier, description) of the known ways in which the writer loses information
const CAUSES: &[(&str, &str, &str)] = &[
    ("variance", "variance_attribute_not_printed", "#[variance(..)] of an ADT / fn is not printed: the reparsed item is invariant in every parameter"),
    ("one_zst", "one_zst_attribute_not_printed", "#[one_zst] is not printed"),
    ("lang_assoc_type", "lang_assoc_type_attribute_not_printed", "#[lang(..)] on an associated type is not printed"),
    ("fn_sig", "fn_signature_qualifiers_not_printed", "unsafe / extern \"abi\" / variadic `...` of fn items and fn pointers are not printed"),
    ("opaque_where", "opaque_type_where_clauses_not_printed", "the where-clauses of an opaque type declaration are not printed"),
    ("names", "same_named_items_renamed", "ids that share a name (associated types of different traits, a trait and an opaque type) are printed as `Name_1`, ..: the reparsed program declares different names"),
];

/// classifiers explaining the difference between the original and the reparsed program, plus the
/// fields that remain different after all known causes have been erased
pub fn explain_diff(a: &Program, b: &Program) -> (Vec<&'static str>, Vec<&'static str>) {
    let (mut a, mut b) = (norm_program(a), norm_program(b));
    let mut cur = raw_diff(&a, &b);
    let mut found = vec![];
    for (cause, classifier, _) in CAUSES {
        if cur.is_empty() {
            break;
        }
        let (a2, b2) = (erase(&a, cause), erase(&b, cause));
        let d2 = raw_diff(&a2, &b2);
        if d2.len() < cur.len() {
            found.push(*classifier);
            a = a2;
            b = b2;
            cur = d2;
        }
    }
    (found, cur)
}

// ---------------------------------------------------------------------------------------------
// features of a program text (for classifiers and the unmodelled-feature census)

pub fn text_features(t: &str) -> Vec<&'static str> {
    let toks = c22_model::tokenize(t);
    let has = |s: &str| toks.iter().any(|x| x == s);
    let seq = |a: &str, b: &str| toks.windows(2).any(|w| w[0] == a && w[1] == b);
    let mut f = vec![];
    if has("opaque") {
        f.push("opaque_type");
    }
    if toks.windows(3).any(|w| w[0] != "(" && w[0] != ">" && w[0] != "]" && w[1] == "fn" && w[2] != "(" && w[2] != ")") {
        f.push("fn_def");
    }
    if has("closure") {
        f.push("closure");
    }
    if has("coroutine") {
        f.push("coroutine");
    }
    if seq("extern", "type") {
        f.push("foreign_type");
    }
    if has("variance") {
        f.push("variance_attr");
    }
    if has("one_zst") {
        f.push("one_zst_attr");
    }
    if has("unsafe") || seq("extern", "\"") || has("...") {
        f.push("fn_sig_qualifier");
    }
    if has("'erased") {
        f.push("erased_lifetime");
    }
    if has("pointee_trait") {
        f.push("lang_pointee");
    }
    if has("async_fn_once_output") {
        f.push("lang_assoc_type");
    }
    if has("const") {
        f.push("const_generic");
    }
    if has("enum") {
        f.push("enum");
    }
    if has("repr") {
        f.push("repr_attr");
    }
    if has("dyn") {
        f.push("dyn");
    }
    if has("forall") {
        f.push("forall");
    }
    if has("for") && seq("for", "<") {
        f.push("fn_pointer_binder");
    }
    if has("as") {
        f.push("projection");
    }
    if toks.windows(2).any(|w| w[1] == "=" && w[0] != "]" && w[0] != ">") && toks.iter().any(|x| x == "where" || x == ":") {
        f.push("assoc_eq_or_value");
    }
    if has("int") || has("float") {
        f.push("int_float_var_kind");
    }
    if has("default") {
        f.push("default_assoc_value");
    }
    f
}

/// AliasEq where-clauses anywhere in the lowered program (the round trip adds the implied trait
/// bound once more each time)
fn has_alias_eq_clause(p: &Program) -> bool {
    format!("{:?}", (&p.adt_data, &p.trait_data, &p.impl_data, &p.fn_def_data, &p.opaque_ty_data, &p.associated_ty_data, &p.hidden_opaque_types, &p.associated_ty_values))
        .contains("AliasEq(")
}

/// the writer prints `Assoc=Value` (no spaces) only for alias-eq bounds and where-clauses
fn prints_alias_eq(t: &str) -> bool {
    let b = t.as_bytes();
    (1..b.len()).any(|i| b[i] == b'=' && b[i - 1] != b' ')
}

fn pick_feature(features: &[&'static str], pref: &[&'static str]) -> Option<&'static str> {
    pref.iter().copied().find(|p| features.contains(p))
}

// ---------------------------------------------------------------------------------------------
// the direct property check

pub struct Checked {
    pub program: Arc<Program>,
    pub rendered: String,
    pub rendered2: Option<String>,
}

pub fn check_program(text: &str, out: &mut Out, family: &str) -> Option<Checked> {
    let (_db, program) = match lower_program(text, SolverChoice::slg_default()) {
        Ok(x) => x,
        Err(e) => {
            out.count("program_rejected");
            out.count(&format!("program_rejected_{}", family));
            if std::env::var("VERIF_DEBUG").is_ok() {
                out.notes.push(format!("rejected ({}): {} :: {}", family, e, text.replace('\n', " ")));
            }
            return None;
        }
    };
    let feats = text_features(text);
    if !program.closure_ids.is_empty() || !program.coroutine_ids.is_empty() || !program.foreign_ty_ids.is_empty() || !program.custom_clauses.is_empty() {
        // closures, coroutines, foreign types and custom clauses are not items the writer prints
        out.count("skipped_items_the_writer_does_not_print");
        return None;
    }
    out.count("programs");
    out.count(&format!("programs_{}", family));
    for f in &feats {
        out.count(&format!("feature_{}", f));
    }
    out.evaluations_extra += 1;
    let label = text.replace('\n', " | ");
    let t1 = match write_program(&program) {
        Ok(t) => t,
        Err(site) => {
            out.fail(&format!("the writer panicked: {}", site), &label, "writer_panic");
            return None;
        }
    };
    let (_db2, p2) = match lower_program(&t1, SolverChoice::slg_default()) {
        Ok(x) => x,
        Err(e) => {
            let c = if t1.contains("<fn_def>") {
                "fn_def_type_printed_as_placeholder".to_string()
            } else if t1.contains("<closure>") || t1.contains("<foreign>") || t1.contains("<coroutine") || t1.contains("<placeholder>") {
                "unprintable_type_placeholder".to_string()
            } else {
                match pick_feature(&feats, &["lang_pointee", "erased_lifetime", "fn_sig_qualifier", "fn_def", "opaque_type", "int_float_var_kind", "const_generic", "dyn", "forall", "projection"]) {
                    Some(f) => format!("rendered_text_rejected_{}", f),
                    None => "rendered_text_rejected".to_string(),
                }
            };
            out.fail(&format!("the rendered program does not parse/lower: {} ;; rendered: {}", e, t1.replace('\n', " ")), &label, &c);
            return None;
        }
    };
    let diff = program_diff(&program, &p2);
    let mut ok = true;
    let mut renamed = false;
    if !diff.is_empty() {
        ok = false;
        let (causes, residual) = explain_diff(&program, &p2);
        renamed = causes.contains(&"same_named_items_renamed");
        for c in &causes {
            let desc = CAUSES.iter().find(|x| x.1 == *c).map(|x| x.2).unwrap_or("");
            out.fail(&format!("the reparsed program differs from the original in {:?}: {} ;; rendered: {}", diff, desc, t1.replace('\n', " ")), &label, c);
        }
        if !residual.is_empty() {
            let c = if feats.contains(&"int_float_var_kind") && residual.iter().all(|d| d.ends_with("_kinds") || d.ends_with("_data")) {
                "int_float_parameter_kind_not_printed".to_string()
            } else {
                match pick_feature(&feats, &["opaque_type", "fn_def", "default_assoc_value", "const_generic", "enum", "dyn", "forall", "projection"]) {
                    Some(f) => format!("reparsed_program_differs_{}", f),
                    None => "reparsed_program_differs".to_string(),
                }
            };
            out.fail(&format!("the reparsed program differs from the original in {:?} (not explained by a known cause) ;; rendered: {}", residual, t1.replace('\n', " ")), &label, &c);
        }
    }
    let mut rendered2 = None;
    match write_program(&p2) {
        Err(site) => {
            ok = false;
            out.fail(&format!("the writer panicked on the reparsed program: {}", site), &label, "writer_panic_second_rendering");
        }
        Ok(t2) => {
            rendered2 = Some(t2.clone());
            if t2 != t1 {
                ok = false;
                let c = if has_alias_eq_clause(&program) || prints_alias_eq(&t1) {
                    "second_rendering_repeats_implied_trait_bound"
                } else if renamed {
                    "same_named_items_renamed"
                } else {
                    "second_rendering_differs"
                };
                out.fail(&format!("the second rendering differs from the first ;; first: {} ;; second: {}", t1.replace('\n', " "), t2.replace('\n', " ")), &label, c);
            }
        }
    }
    if ok {
        out.count("roundtrip_ok");
    }
    Some(Checked { program, rendered: t1, rendered2 })
}

// ---------------------------------------------------------------------------------------------
// programs of the repository's own tests, extracted with a brace matcher

pub fn extract_programs(dir: &str) -> Vec<String> {
    let mut v = vec![];
    let mut files: Vec<_> = match std::fs::read_dir(dir) {
        Ok(rd) => rd.filter_map(|e| e.ok()).map(|e| e.path()).filter(|p| p.extension().map(|x| x == "rs").unwrap_or(false)).collect(),
        Err(_) => return v,
    };
    files.sort();
    for f in files {
        let s = match std::fs::read_to_string(&f) {
            Ok(s) => s,
            Err(_) => continue,
        };
        let b = s.as_bytes();
        let mut i = 0;
        while let Some(k) = s[i..].find("program") {
            let mut j = i + k + "program".len();
            i = j;
            while j < b.len() && (b[j] as char).is_whitespace() {
                j += 1;
            }
            if j >= b.len() || b[j] != b'{' {
                continue;
            }
            let start = j + 1;
            let mut depth = 1;
            j += 1;
            while j < b.len() && depth > 0 {
                match b[j] {
                    b'{' => depth += 1,
                    b'}' => depth -= 1,
                    _ => {}
                }
                j += 1;
            }
            if depth == 0 {
                let body = s[start..j - 1].trim();
                if !body.is_empty() {
                    v.push(body.to_string());
                }
                i = j;
            }
        }
    }
    v.sort();
    v.dedup();
    v
}

/// split a program text into top-level items (attributes stay with their item)
pub fn split_items(text: &str) -> Vec<String> {
    let mut items = vec![];
    let mut cur = String::new();
    let (mut depth, mut angle) = (0i32, 0i32);
    let mut seen_body = false;
    for line in text.lines() {
        let line = match line.find("//") {
            Some(k) => &line[..k],
            None => line,
        };
        for c in line.chars() {
            cur.push(c);
            match c {
                '{' | '(' | '[' => depth += 1,
                '}' | ')' | ']' => {
                    depth -= 1;
                    if c == '}' && depth == 0 {
                        seen_body = true;
                    }
                }
                '<' => angle += 1,
                '>' => angle -= 1,
                _ => {}
            }
            let _ = angle;
            if depth == 0 && (c == ';' || (c == '}' && seen_body)) {
                let it = cur.trim().to_string();
                // `#[...]` attribute brackets close at depth 0 with ']' — not an item end
                if !it.is_empty() {
                    items.push(it);
                }
                cur.clear();
                seen_body = false;
            }
        }
        cur.push(' ');
    }
    if !cur.trim().is_empty() {
        items.push(cur.trim().to_string());
    }
    items
}

const TYPE_POOL: &[&str] = &["u32", "()", "(u8, bool)", "&'static str", "*const i64", "[usize]", "[u8; 3]", "fn(u8) -> bool", "!", "for<'x> fn(&'x u8) -> &'x u8", "*mut ()", "(char,)"];
const ATTR_POOL: &[&str] = &["#[upstream]", "#[fundamental]", "#[phantom_data]", "#[repr(C)]", "#[repr(packed)]", "#[auto]", "#[marker]", "#[non_enumerable]", "#[coinductive]", "#[object_safe]", "#[one_zst]"];

/// small edits of a test program: shuffle / duplicate / drop items, swap a scalar type for another
/// type, add an attribute in front of an item
pub fn mutate(text: &str, rng: &mut Rng) -> String {
    let mut items = split_items(text);
    if items.is_empty() {
        return text.to_string();
    }
    let n = 1 + rng.usize_below(3);
    for _ in 0..n {
        match rng.weighted(&[3, 2, 4, 4, 2]) {
            0 => {
                // shuffle two items
                let (a, b) = (rng.usize_below(items.len()), rng.usize_below(items.len()));
                items.swap(a, b);
            }
            1 => {
                if items.len() > 1 {
                    let k = rng.usize_below(items.len());
                    items.remove(k);
                }
            }
            2 => {
                // replace one scalar-type token by a type from the pool
                let k = rng.usize_below(items.len());
                let toks = c22_model::tokenize(&items[k]);
                let cands: Vec<usize> = toks.iter().enumerate().filter(|(_, t)| matches!(t.as_str(), "u32" | "i32" | "u8" | "bool" | "usize" | "u64" | "i64" | "char" | "f32" | "isize")).map(|(i, _)| i).collect();
                if !cands.is_empty() {
                    let c = cands[rng.usize_below(cands.len())];
                    let mut t2 = toks.clone();
                    t2[c] = TYPE_POOL[rng.usize_below(TYPE_POOL.len())].to_string();
                    items[k] = t2.join(" ");
                }
            }
            3 => {
                let k = rng.usize_below(items.len());
                let a = ATTR_POOL[rng.usize_below(ATTR_POOL.len())];
                let it = &items[k];
                let applicable = if it.contains("trait ") {
                    a == "#[auto]" || a == "#[marker]" || a == "#[non_enumerable]" || a == "#[coinductive]" || a == "#[object_safe]" || a == "#[upstream]" || a == "#[fundamental]"
                } else if it.contains("struct ") || it.contains("enum ") {
                    a == "#[upstream]" || a == "#[fundamental]" || a == "#[phantom_data]" || a.starts_with("#[repr") || a == "#[one_zst]"
                } else if it.starts_with("impl") {
                    a == "#[upstream]"
                } else {
                    false
                };
                if applicable && !it.contains(a) {
                    items[k] = format!("{} {}", a, it);
                }
            }
            _ => {
                // duplicate a where-clause-bearing item under a new name is not possible textually; duplicate an impl
                let impls: Vec<usize> = items.iter().enumerate().filter(|(_, it)| it.starts_with("impl")).map(|(i, _)| i).collect();
                if !impls.is_empty() {
                    let k = impls[rng.usize_below(impls.len())];
                    let it = items[k].clone();
                    items.push(it);
                }
            }
        }
    }
    items.join("\n")
}

// ---------------------------------------------------------------------------------------------
// generator of programs covering every item kind of the writer

#[derive(Clone, Copy, PartialEq, Debug)]
pub enum K {
    Ty,
    Lt,
    Ct,
}

#[derive(Clone, Default)]
pub struct Scope {
    pub tys: Vec<String>,
    pub lts: Vec<String>,
    pub cts: Vec<String>,
}

#[derive(Clone)]
pub struct AssocSig {
    pub name: String,
    pub params: Vec<K>,
}

#[derive(Clone)]
pub struct TraitSig {
    pub name: String,
    pub params: Vec<K>,
    pub assocs: Vec<AssocSig>,
}

#[derive(Clone)]
pub struct Sigs {
    pub adts: Vec<(String, Vec<K>)>,
    pub traits: Vec<TraitSig>,
    pub opaques: Vec<(String, Vec<K>)>,
}

pub struct PGen<'a> {
    pub rng: &'a mut Rng,
    pub sigs: Sigs,
    /// restrict to the features of the Lean model's fragment
    pub model_only: bool,
}

const SCALARS: &[&str] = &["bool", "char", "i8", "i16", "i32", "i64", "i128", "isize", "u8", "u16", "u32", "u64", "u128", "usize", "f16", "f32", "f64", "f128"];

fn params_decl(ps: &[K], prefix: &str) -> (Vec<String>, Scope) {
    let mut names = vec![];
    let mut sc = Scope::default();
    for (i, k) in ps.iter().enumerate() {
        match k {
            K::Ty => {
                let n = format!("{}{}", prefix, i);
                names.push(n.clone());
                sc.tys.push(n);
            }
            K::Lt => {
                let n = format!("'{}{}", prefix.to_lowercase(), i);
                names.push(n.clone());
                sc.lts.push(n);
            }
            K::Ct => {
                let n = format!("{}{}", prefix, i);
                names.push(format!("const {}", n));
                sc.cts.push(n);
            }
        }
    }
    (names, sc)
}

fn angle(v: &[String]) -> String {
    if v.is_empty() {
        String::new()
    } else {
        format!("<{}>", v.join(", "))
    }
}

fn merge(a: &Scope, b: &Scope) -> Scope {
    let mut s = a.clone();
    s.tys.extend(b.tys.iter().cloned());
    s.lts.extend(b.lts.iter().cloned());
    s.cts.extend(b.cts.iter().cloned());
    s
}

impl<'a> PGen<'a> {
    fn kinds(&mut self, max: usize, consts: bool) -> Vec<K> {
        let n = self.rng.weighted(&[4, 5, 3, 1]).min(max);
        (0..n)
            .map(|_| match self.rng.weighted(&[6, 3, if consts { 1 } else { 0 }]) {
                0 => K::Ty,
                1 => K::Lt,
                _ => K::Ct,
            })
            .collect()
    }

    pub fn lifetime(&mut self, sc: &Scope) -> String {
        if !sc.lts.is_empty() && self.rng.chance(3, 4) {
            sc.lts[self.rng.usize_below(sc.lts.len())].clone()
        } else {
            "'static".to_string()
        }
    }

    fn konst(&mut self, sc: &Scope) -> String {
        if !sc.cts.is_empty() && self.rng.chance(1, 2) {
            sc.cts[self.rng.usize_below(sc.cts.len())].clone()
        } else {
            format!("{}", self.rng.usize_below(5))
        }
    }

    pub fn args(&mut self, ks: &[K], sc: &Scope, depth: usize) -> Vec<String> {
        ks.iter()
            .map(|k| match k {
                K::Ty => self.ty(sc, depth),
                K::Lt => self.lifetime(sc),
                K::Ct => self.konst(sc),
            })
            .collect()
    }

    fn trait_app(&mut self, t: &TraitSig, sc: &Scope, depth: usize) -> String {
        let a = self.args(&t.params, sc, depth);
        format!("{}{}", t.name, angle(&a))
    }

    pub fn ty(&mut self, sc: &Scope, depth: usize) -> String {
        let leaf = depth == 0 || self.rng.chance(2, 5);
        if leaf {
            return match self.rng.weighted(&[6, 4, 3, 1, 1, 1]) {
                0 if !sc.tys.is_empty() => sc.tys[self.rng.usize_below(sc.tys.len())].clone(),
                1 => {
                    let nullary: Vec<&(String, Vec<K>)> = self.sigs.adts.iter().filter(|a| a.1.is_empty()).collect();
                    if nullary.is_empty() {
                        "u8".to_string()
                    } else {
                        nullary[self.rng.usize_below(nullary.len())].0.clone()
                    }
                }
                3 => "!".to_string(),
                4 => "str".to_string(),
                5 => "()".to_string(),
                _ => SCALARS[self.rng.usize_below(SCALARS.len())].to_string(),
            };
        }
        let d = depth - 1;
        match self.rng.weighted(&[8, 3, 3, 2, 2, 2, 3, 3, 3, if self.model_only { 0 } else { 1 }]) {
            0 => {
                let (n, ks) = self.sigs.adts[self.rng.usize_below(self.sigs.adts.len())].clone();
                let a = self.args(&ks, sc, d);
                format!("{}{}", n, angle(&a))
            }
            1 => {
                let n = self.rng.weighted(&[1, 3, 3, 1]);
                let v: Vec<String> = (0..n).map(|_| self.ty(sc, d)).collect();
                if n == 1 {
                    format!("({},)", v[0])
                } else {
                    format!("({})", v.join(", "))
                }
            }
            2 => {
                let l = self.lifetime(sc);
                let m = if self.rng.chance(1, 2) { "mut " } else { "" };
                format!("&{} {}{}", l, m, self.ty(sc, d))
            }
            3 => format!("*{} {}", if self.rng.chance(1, 2) { "mut" } else { "const" }, self.ty(sc, d)),
            4 => format!("[{}]", self.ty(sc, d)),
            5 => {
                let t = self.ty(sc, d);
                format!("[{}; {}]", t, self.konst(sc))
            }
            6 => {
                // fn pointer, possibly with for<'a>
                let nb = self.rng.weighted(&[3, 2, 1]);
                let mut sc2 = sc.clone();
                let names: Vec<String> = (0..nb).map(|i| format!("'f{}_{}", depth, i)).collect();
                sc2.lts.extend(names.iter().cloned());
                let na = self.rng.usize_below(3);
                let a: Vec<String> = (0..na).map(|_| self.ty(&sc2, d)).collect();
                let r = if self.rng.chance(1, 4) { String::new() } else { format!(" -> {}", self.ty(&sc2, d)) };
                format!("{}fn({}){}", if nb > 0 { format!("for<{}> ", names.join(", ")) } else { String::new() }, a.join(", "), r)
            }
            7 => {
                // projection
                let with_assoc: Vec<TraitSig> = self.sigs.traits.iter().filter(|t| !t.assocs.is_empty()).cloned().collect();
                if with_assoc.is_empty() {
                    return self.ty(sc, 0);
                }
                let t = with_assoc[self.rng.usize_below(with_assoc.len())].clone();
                let a = t.assocs[self.rng.usize_below(t.assocs.len())].clone();
                let s = self.ty(sc, d);
                let ta = self.trait_app(&t, sc, d);
                let aa = self.args(&a.params, sc, d);
                format!("<{} as {}>::{}{}", s, ta, a.name, angle(&aa))
            }
            8 => {
                // dyn
                let nb = 1 + self.rng.usize_below(2);
                let mut bs = vec![];
                for _ in 0..nb {
                    let t = self.sigs.traits[self.rng.usize_below(self.sigs.traits.len())].clone();
                    bs.push(self.inline_bound(&t, sc, d));
                }
                let l = self.lifetime(sc);
                format!("dyn {} + {}", bs.join(" + "), l)
            }
            _ => {
                if self.sigs.opaques.is_empty() {
                    return self.ty(sc, 0);
                }
                let (n, ks) = self.sigs.opaques[self.rng.usize_below(self.sigs.opaques.len())].clone();
                let a = self.args(&ks, sc, d);
                format!("{}{}", n, angle(&a))
            }
        }
    }

    /// `Trait<args>` / `Trait<args, Assoc<..> = Ty>` possibly under `forall<'a>`
    fn inline_bound(&mut self, t: &TraitSig, sc: &Scope, depth: usize) -> String {
        let (q, sc2) = if self.rng.chance(1, 5) {
            let n = format!("'q{}", depth);
            let mut s = sc.clone();
            s.lts.push(n.clone());
            (format!("forall<{}> ", n), s)
        } else {
            (String::new(), sc.clone())
        };
        let mut a = self.args(&t.params, &sc2, depth);
        if !t.assocs.is_empty() && self.rng.chance(1, 3) {
            let asc = t.assocs[self.rng.usize_below(t.assocs.len())].clone();
            let aa = self.args(&asc.params, &sc2, depth);
            let v = self.ty(&sc2, depth);
            a.push(format!("{}{} = {}", asc.name, angle(&aa), v));
        }
        format!("{}{}{}", q, t.name, angle(&a))
    }

    pub fn where_clause(&mut self, sc: &Scope, depth: usize) -> String {
        match self.rng.weighted(&[8, 3, 2, 2]) {
            0 | 1 => {
                let t = self.sigs.traits[self.rng.usize_below(self.sigs.traits.len())].clone();
                // quantifier in front of the whole clause
                let (q, sc2) = if self.rng.chance(1, 5) {
                    let n = format!("'w{}", depth);
                    let mut s = sc.clone();
                    s.lts.push(n.clone());
                    (format!("forall<{}> ", n), s)
                } else {
                    (String::new(), sc.clone())
                };
                let s = self.ty(&sc2, depth);
                let mut a = self.args(&t.params, &sc2, depth);
                if !t.assocs.is_empty() && self.rng.chance(1, 3) {
                    let asc = t.assocs[self.rng.usize_below(t.assocs.len())].clone();
                    let aa = self.args(&asc.params, &sc2, depth);
                    let v = self.ty(&sc2, depth);
                    a.push(format!("{}{} = {}", asc.name, angle(&aa), v));
                }
                format!("{}{}: {}{}", q, s, t.name, angle(&a))
            }
            2 => {
                let a = self.lifetime(sc);
                let b = self.lifetime(sc);
                format!("{}: {}", a, b)
            }
            _ => {
                let t = self.ty(sc, depth);
                let l = self.lifetime(sc);
                format!("{}: {}", t, l)
            }
        }
    }

    fn where_clauses(&mut self, sc: &Scope, max: usize) -> String {
        let n = self.rng.weighted(&[5, 3, 2, 1]).min(max);
        if n == 0 {
            return String::new();
        }
        let v: Vec<String> = (0..n).map(|_| self.where_clause(sc, 1)).collect();
        format!(" where {}", v.join(", "))
    }

    pub fn program(&mut self) -> String {
        let nadt = 2 + self.rng.usize_below(3);
        let ntr = 1 + self.rng.usize_below(3);
        let nop = if self.model_only { 0 } else { self.rng.weighted(&[3, 1, 1]) };
        let mut sigs = Sigs { adts: vec![], traits: vec![], opaques: vec![] };
        for i in 0..nadt {
            let ks = if i == 0 { vec![] } else { self.kinds(3, true) };
            sigs.adts.push((format!("S{}", i), ks));
        }
        for i in 0..ntr {
            let ks = self.kinds(2, false);
            let na = self.rng.weighted(&[3, 3, 1]);
            let assocs = (0..na).map(|j| AssocSig { name: format!("A{}_{}", i, j), params: if self.rng.chance(1, 4) { vec![if self.rng.chance(1, 2) { K::Ty } else { K::Lt }] } else { vec![] } }).collect();
            sigs.traits.push(TraitSig { name: format!("T{}", i), params: ks, assocs });
        }
        for i in 0..nop {
            let ks = self.kinds(2, false);
            sigs.opaques.push((format!("O{}", i), ks));
        }
        self.sigs = sigs.clone();
        let mut items = vec![];
        // ADTs
        for (i, (name, ks)) in sigs.adts.iter().enumerate() {
            let (ps, sc) = params_decl(ks, "P");
            let is_enum = i > 0 && self.rng.chance(1, 3);
            let mut attrs = String::new();
            if !self.model_only && !ks.is_empty() && self.rng.chance(1, 12) {
                let vs: Vec<&str> = ks.iter().map(|_| ["Invariant", "Covariant", "Contravariant"][self.rng.usize_below(3)]).collect();
                attrs.push_str(&format!("#[variance({})] ", vs.join(", ")));
            }
            if self.rng.chance(1, 5) {
                attrs.push_str("#[upstream] ");
            }
            if ks.iter().filter(|k| **k == K::Ty).count() >= 1 && self.rng.chance(1, 6) {
                attrs.push_str("#[fundamental] ");
            }
            if self.rng.chance(1, 8) {
                attrs.push_str("#[phantom_data] ");
            }
            if !self.model_only && self.rng.chance(1, 16) {
                attrs.push_str("#[one_zst] ");
            }
            if self.rng.chance(1, 6) {
                attrs.push_str("#[repr(C)] ");
            }
            if self.rng.chance(1, 8) {
                attrs.push_str("#[repr(packed)] ");
            }
            if is_enum && self.rng.chance(1, 4) {
                attrs.push_str(&format!("#[repr({})] ", ["u8", "i32", "usize", "i64"][self.rng.usize_below(4)]));
            }
            let wcs = self.where_clauses(&sc, 3);
            let fields = |g: &mut Self| -> String {
                let n = g.rng.weighted(&[2, 3, 2, 1]);
                (0..n).map(|j| format!("f{}: {}", j, g.ty(&sc, 2))).collect::<Vec<_>>().join(", ")
            };
            if is_enum {
                let nv = self.rng.usize_below(4);
                let mut vs = vec![];
                for j in 0..nv {
                    vs.push(match self.rng.weighted(&[2, 2, 1]) {
                        0 => format!("V{} {{ {} }}", j, fields(self)),
                        1 => {
                            let n = 1 + self.rng.usize_below(2);
                            format!("V{}({})", j, (0..n).map(|_| self.ty(&sc, 1)).collect::<Vec<_>>().join(", "))
                        }
                        _ => format!("V{}", j),
                    });
                }
                items.push(format!("{}enum {}{}{} {{ {} }}", attrs, name, angle(&ps), wcs, vs.join(", ")));
            } else {
                let f = fields(self);
                items.push(format!("{}struct {}{}{} {{ {} }}", attrs, name, angle(&ps), wcs, f));
            }
        }
        // traits
        let langs = ["sized", "copy", "clone", "drop", "fn_once", "fn_mut", "fn", "unsize", "unpin", "coerce_unsized", "discriminant_kind", "coroutine", "dispatch_from_dyn", "tuple_trait", "fn_ptr_trait", "future", "async_fn", "async_fn_mut", "async_fn_once", "pointee_trait"];
        let mut used_lang = vec![];
        for t in sigs.traits.iter() {
            let (ps, sc) = params_decl(&t.params, "Q");
            let mut attrs = String::new();
            let plain = t.params.is_empty() && t.assocs.is_empty();
            for (a, den) in [("#[auto]", 8), ("#[marker]", 8), ("#[upstream]", 6), ("#[fundamental]", 10), ("#[non_enumerable]", 8), ("#[coinductive]", 8), ("#[object_safe]", 5)] {
                if a == "#[auto]" && !plain {
                    continue;
                }
                if self.rng.chance(1, den) {
                    attrs.push_str(a);
                    attrs.push(' ');
                }
            }
            if self.rng.chance(1, 5) {
                let l = langs[self.rng.usize_below(if self.model_only { langs.len() - 1 } else { langs.len() })];
                if !used_lang.contains(&l) {
                    used_lang.push(l);
                    attrs.push_str(&format!("#[lang({})] ", l));
                }
            }
            let mut sc_self = sc.clone();
            sc_self.tys.push("Self".to_string());
            let wcs = self.where_clauses(&sc_self, 2);
            let mut body = vec![];
            for a in &t.assocs {
                let (aps, asc) = params_decl(&a.params, "R");
                let sc2 = merge(&sc_self, &asc);
                let nb = self.rng.weighted(&[3, 2, 1]);
                let mut bs = vec![];
                for _ in 0..nb {
                    let tr = self.sigs.traits[self.rng.usize_below(self.sigs.traits.len())].clone();
                    bs.push(self.inline_bound(&tr, &sc2, 1));
                }
                let w = self.where_clauses(&sc2, 2);
                body.push(format!("type {}{}{}{};", a.name, angle(&aps), if bs.is_empty() { String::new() } else { format!(": {}", bs.join(" + ")) }, w));
            }
            items.push(format!("{}trait {}{}{} {{ {} }}", attrs, t.name, angle(&ps), wcs, body.join(" ")));
        }
        // opaque types
        for (name, ks) in sigs.opaques.iter() {
            let (ps, sc) = params_decl(ks, "P");
            let nb = 1 + self.rng.usize_below(2);
            let mut bs = vec![];
            for _ in 0..nb {
                let tr = self.sigs.traits[self.rng.usize_below(self.sigs.traits.len())].clone();
                bs.push(self.inline_bound(&tr, &sc, 1));
            }
            // the hidden type must not mention opaque types (keeps lowering simple)
            let saved = std::mem::take(&mut self.sigs.opaques);
            let hidden = self.ty(&sc, 2);
            let w = if self.rng.chance(1, 5) { self.where_clauses(&sc, 1) } else { String::new() };
            self.sigs.opaques = saved;
            items.push(format!("opaque type {}{}: {}{} = {};", name, angle(&ps), bs.join(" + "), w, hidden));
        }
        // impls
        let nimpl = 1 + self.rng.usize_below(4);
        for _ in 0..nimpl {
            let t = sigs.traits[self.rng.usize_below(sigs.traits.len())].clone();
            let ks = self.kinds(3, true);
            let (ps, sc) = params_decl(&ks, "P");
            let neg = self.rng.chance(1, 6);
            let ta = self.trait_app(&t, &sc, 1);
            let st = self.ty(&sc, 2);
            let wcs = self.where_clauses(&sc, 3);
            let mut body = vec![];
            if !neg {
                for a in &t.assocs {
                    if self.rng.chance(5, 6) {
                        let (aps, asc) = params_decl(&a.params, "R");
                        let sc2 = merge(&sc, &asc);
                        let dflt = if !self.model_only && self.rng.chance(1, 12) { "default " } else { "" };
                        body.push(format!("{}type {}{} = {};", dflt, a.name, angle(&aps), self.ty(&sc2, 2)));
                    }
                }
            }
            let up = if self.rng.chance(1, 8) { "#[upstream] " } else { "" };
            items.push(format!("{}impl{} {}{} for {}{} {{ {} }}", up, angle(&ps), if neg { "!" } else { "" }, ta, st, wcs, body.join(" ")));
        }
        // fn defs
        if !self.model_only {
            let nfn = self.rng.weighted(&[3, 2, 1]);
            for i in 0..nfn {
                let ks = self.kinds(2, true);
                let (ps, sc) = params_decl(&ks, "P");
                let na = self.rng.usize_below(3);
                let mut a: Vec<String> = (0..na).map(|j| format!("a{}: {}", j, self.ty(&sc, 2))).collect();
                let mut quals = String::new();
                if self.rng.chance(1, 10) {
                    quals.push_str("unsafe ");
                }
                if self.rng.chance(1, 10) {
                    quals.push_str("extern \"C\" ");
                    if self.rng.chance(1, 2) {
                        a.push("va: ...".to_string());
                    }
                }
                let r = if self.rng.chance(1, 3) { String::new() } else { format!(" -> {}", self.ty(&sc, 2)) };
                let w = self.where_clauses(&sc, 2);
                items.push(format!("{}fn f{}{}({}){}{};", quals, i, angle(&ps), a.join(", "), r, w));
            }
        }
        items.join("\n")
    }
}

pub fn generate(rng: &mut Rng, model_only: bool) -> String {
    let mut g = PGen { rng, sigs: Sigs { adts: vec![], traits: vec![], opaques: vec![] }, model_only };
    g.program()
}

// ---------------------------------------------------------------------------------------------

fn one(text: &str, out: &mut Out, family: &str, hist: &mut BTreeMap<String, u64>) {
    if let Some(c) = check_program(text, out, family) {
        c22_model::correspond(&c.program, &c.rendered, c.rendered2.as_deref(), text, out, hist);
    }
}

pub fn run(ctx: &Ctx, out: &mut Out) {
    let mut hist: BTreeMap<String, u64> = BTreeMap::new();
    if let Some(f) = &ctx.replay {
        for l in std::fs::read_to_string(f).unwrap_or_default().lines() {
            let l = l.trim();
            if !l.is_empty() && !l.starts_with("# ") {
                one(&l.replace(" | ", "\n"), out, "replay", &mut hist);
            }
        }
        return;
    }
    for l in ctx.corpus_lines() {
        one(&l.replace(" | ", "\n"), out, "corpus", &mut hist);
    }
    let mut tests = extract_programs("/repo/tests/display");
    let n_display = tests.len();
    tests.extend(extract_programs("/repo/tests/test"));
    out.count_n("extracted_display_programs", n_display as u64);
    out.count_n("extracted_test_programs", (tests.len() - n_display) as u64);
    for t in &tests {
        one(t, out, "tests", &mut hist);
    }
    let nmut = ctx.budget(300, 6000);
    if !tests.is_empty() {
        for i in 0..nmut {
            let mut rng = ctx.rng(1, i as u64);
            let base = &tests[rng.usize_below(tests.len())];
            let m = mutate(base, &mut rng);
            one(&m, out, "mutated", &mut hist);
        }
    }
    let ngen = ctx.budget(500, 12000);
    for i in 0..ngen {
        let mut rng = ctx.rng(0, i as u64);
        let model_only = i % 2 == 0;
        let text = generate(&mut rng, model_only);
        one(&text, out, if model_only { "generated_fragment" } else { "generated_full" }, &mut hist);
    }
    for (k, v) in hist {
        out.count_n(&k, v);
    }
}
