//! C21: programs with supertrait hierarchies, structs and impls with where-clauses — sound ones and
//! ones with a bound missing.  The real `checked_program()` (wf + coherence + orphan) decides
//! accept/reject; for every ACCEPTED program the implied-bound guarantees are checked over all
//! closed types to depth 2 by the certified evaluator (`judge-wf`).  The generator knows which
//! programs it broke, so a broken program that is accepted is also reported directly.
use crate::horn::*;
use crate::rng::Rng;
use crate::solver::*;
use crate::wire::*;
use crate::{Ctx, Out};
use chalk_integration::db::ChalkDatabase;
use chalk_integration::query::LoweringDatabase;

pub const FUEL: usize = 10;

fn gen(rng: &mut Rng) -> (String, bool) {
    // traits: T0 base, T1 where Self: T0, optionally T2 where Self: T1 (chain), T3 where Self: T0 (diamond side)
    let nt = 2 + rng.usize_below(3);
    let mut s = String::new();
    let supers: Vec<Option<usize>> = (0..nt).map(|i| if i == 0 { None } else if rng.chance(4, 5) { Some(rng.usize_below(i)) } else { None }).collect();
    for i in 0..nt {
        match supers[i] {
            Some(j) => s.push_str(&format!("trait T{} where Self: T{} {{}}\n", i, j)),
            None => s.push_str(&format!("trait T{} {{}}\n", i)),
        }
    }
    let mut broken = false;
    // structs: S0 plain; S1<P0> where P0: Tk with a field; S2<P0> wrapping S1<P0> (needs the bound)
    s.push_str("struct S0 {}\n");
    let k = rng.usize_below(nt);
    // S1 may mention ITSELF in further fields, at its own parameter or at other arguments (a closed
    // type that may or may not satisfy the bound, a nested instance): each mention is an input type
    // of the declaration and must be well-formed under the declaration's where-clauses
    let mut s1_fields: Vec<String> = vec!["P0".to_string()];
    if rng.chance(1, 2) {
        let pool = ["S1<P0>", "S1<S0>", "S1<u32>", "S1<S1<P0>>", "S1<S1<S0>>", "S0"];
        for _ in 0..1 + rng.usize_below(2) {
            s1_fields.push(rng.pick(&pool).to_string());
        }
        for i in (1..s1_fields.len()).rev() {
            let j = rng.usize_below(i + 1);
            s1_fields.swap(i, j);
        }
    }
    let s1_body: Vec<String> = s1_fields.iter().enumerate().map(|(i, f)| format!("f{}: {}", i, f)).collect();
    s.push_str(&format!("struct S1<P0> where P0: T{} {{ {} }}\n", k, s1_body.join(", ")));
    if rng.chance(2, 3) {
        // a struct one of whose fields mentions S1<P0>: well-formed only with the bound.  Other
        // fields (a bare parameter, a closed type) come before or after it.
        let mut fields: Vec<&str> = vec!["S1<P0>"];
        if rng.chance(1, 2) {
            fields.push("P0");
        }
        if rng.chance(1, 3) {
            fields.push("S0");
        }
        if rng.chance(1, 3) {
            // the struct mentions itself at other arguments
            fields.push(*rng.pick(&["S2<S0>", "S2<u32>", "S1<S2<P0>>", "S2<S1<P0>>"]));
        }
        for i in (1..fields.len()).rev() {
            let j = rng.usize_below(i + 1);
            fields.swap(i, j);
        }
        let body: Vec<String> = fields.iter().enumerate().map(|(i, f)| format!("f{}: {}", i, f)).collect();
        if rng.chance(2, 3) {
            s.push_str(&format!("struct S2<P0> where P0: T{} {{ {} }}\n", k, body.join(", ")));
        } else {
            s.push_str(&format!("struct S2<P0> {{ {} }}\n", body.join(", ")));
            broken = true;
        }
    }
    if rng.chance(1, 2) {
        // two parameters; the field that needs a bound mentions the second one
        let mut fields: Vec<&str> = vec!["P0", "P1", "S1<P1>"];
        for i in (1..fields.len()).rev() {
            let j = rng.usize_below(i + 1);
            fields.swap(i, j);
        }
        let body: Vec<String> = fields.iter().enumerate().map(|(i, f)| format!("f{}: {}", i, f)).collect();
        if rng.chance(2, 3) {
            s.push_str(&format!("struct S3<P0, P1> where P1: T{} {{ {} }}\n", k, body.join(", ")));
        } else {
            s.push_str(&format!("struct S3<P0, P1> {{ {} }}\n", body.join(", ")));
            broken = true;
        }
    }
    // impls: closed under supertraits, or with one missing
    let closure = |mut t: usize, supers: &Vec<Option<usize>>| {
        let mut v = vec![t];
        while let Some(j) = supers[t] {
            v.push(j);
            t = j;
        }
        v
    };
    for ty in ["S0", "u32"] {
        if rng.chance(3, 4) {
            let t = rng.usize_below(nt);
            let mut need = closure(t, &supers);
            if need.len() > 1 && rng.chance(1, 4) {
                need.pop(); // drop the root supertrait impl
                broken = true;
            }
            for tr in need {
                s.push_str(&format!("impl T{} for {} {{}}\n", tr, ty));
            }
        }
    }
    // generic impl on S1<P0>: `impl<P0> Tt for S1<P0> where P0: Tk` (+ supertraits), maybe without the bound
    if rng.chance(2, 3) {
        let t = rng.usize_below(nt);
        let need = closure(t, &supers);
        let drop_bound = rng.chance(1, 4);
        if drop_bound {
            broken = true;
        }
        for tr in need {
            if drop_bound {
                s.push_str(&format!("impl<P0> T{} for S1<P0> {{}}\n", tr));
            } else {
                s.push_str(&format!("impl<P0> T{} for S1<P0> where P0: T{} {{}}\n", tr, k));
            }
        }
    }
    // an impl whose where-clause list mentions `S1<P0>` (an input type that needs `P0: Tk`) next
    // to clauses on the bare parameter, in random order
    if rng.chance(1, 2) {
        let t = rng.usize_below(nt);
        if supers[t].is_none() {
            let q = rng.usize_below(nt);
            let mut wcs: Vec<String> = vec![format!("S1<P0>: T{}", q)];
            let with_bound = rng.chance(2, 3);
            if with_bound {
                wcs.push(format!("P0: T{}", k));
            } else {
                broken = true;
            }
            if rng.chance(1, 2) {
                let z = rng.usize_below(nt);
                if z != k {
                    // an unrelated clause on the parameter; when Tz is a subtrait of Tk it supplies
                    // the bound after all (`broken` is only a label: the certified judge decides)
                    wcs.push(format!("P0: T{}", z));
                }
            }
            for i in (1..wcs.len()).rev() {
                let j = rng.usize_below(i + 1);
                wcs.swap(i, j);
            }
            s.push_str("struct S4<P0> { }\n");
            s.push_str(&format!("impl<P0> T{} for S4<P0> where {} {{}}\n", t, wcs.join(", ")));
        }
    }
    (s, broken)
}

pub fn run(ctx: &Ctx, out: &mut Out) {
    let nprog = ctx.budget(200, 8000);
    for i in 0..nprog {
        let mut rng = ctx.rng(0, i as u64);
        let (text, broken) = gen(&mut rng);
        let label = format!("{} | {}", if broken { "broken" } else { "sound" }, text.replace('\n', " | "));
        let db = ChalkDatabase::with(&text, chalk_integration::SolverChoice::slg_default());
        let checked = catch(std::panic::AssertUnwindSafe(|| db.checked_program().map(|_| ())));
        let accepted = match checked {
            Ok(Ok(())) => true,
            Ok(Err(e)) => {
                out.count(&format!("rejected_{}", if broken { "broken" } else { "sound" }));
                let _ = e;
                false
            }
            Err(site) => {
                out.fail(&format!("checked_program panicked: {}", site), &label, "wf_check_panic");
                continue;
            }
        };
        if !accepted {
            out.case(format!("(note c21-rejected {})", i), "noted".to_string(), false, &label);
            continue;
        }
        out.count(&format!("accepted_{}", if broken { "broken" } else { "sound" }));
        let program = match lower_program(&text, chalk_integration::SolverChoice::slg_default()) {
            Ok((_, p)) => p,
            Err(_) => continue,
        };
        match program_to_horn_wf(&program) {
            Some((horn, imps)) => {
                let req = tagged("judge-wf", vec![horn, imps, signature(&program), nat(2), nat(200), nat(FUEL)]);
                out.case(req.to_string(), "ACCEPT".to_string(), true, &label);
            }
            None => out.count("program_out_of_fragment"),
        }
    }
}
