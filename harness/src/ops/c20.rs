//! C20: the orphan check implements the orphan rules.
//!
//! Real code: `chalk_solve::coherence::orphan::perform_orphan_check` (the goal
//! `forall<P..> { LocalImplAllowed(A0: Trait<A1..An>) }`), run through the `orphan_check` query of
//! chalk-integration with the SLG solver and called directly with a fresh recursive solver.
//! Model: lean/ChalkModel/Orphan.lean (clause model of `match_ty`, `AdtDatum`/`TraitDatum`
//! `to_program_clauses`; resolution `provable`), driver ops `orphan` and `orphan-goal`.
//!
//! Every case is one `.chalk` program: a fixed prelude of structs (local / `#[upstream]` /
//! `#[upstream] #[fundamental]` / local `#[fundamental]`, arities 0-2), local and upstream traits
//! with 0-2 parameters, and ONE impl.  The request line is built from what chalk *lowered* (struct
//! and trait flags read off the `Program`, the impl's trait reference walked structurally), never
//! from the generator's AST.  Independently of the model the property's sentence is evaluated in
//! Rust on the generator's AST (and again on the lowered impl): a disagreement with the real verdict
//! is reported with `out.fail`.
//!
//! Second stream: the auxiliary domain goals `IsLocal / IsUpstream / IsFullyVisible /
//! DownstreamType (T)` posed to both solvers as `forall<P0, P1> { Pred(T) }`, compared with the
//! model's `orphan-goal`, and with the sentence where it speaks about them.
use crate::solver::*;
use crate::wire::*;
use crate::{Ctx, Out};
use chalk_integration::db::ChalkDatabase;
use chalk_integration::interner::ChalkIr;
use chalk_integration::program::Program;
use chalk_integration::query::LoweringDatabase;
use chalk_integration::{tls, SolverChoice};
use chalk_ir::*;
use chalk_solve::coherence::orphan::perform_orphan_check;
use chalk_solve::rust_ir::ImplType;
use chalk_solve::{RustIrDatabase, Solution};
use std::panic::AssertUnwindSafe;
use std::sync::Arc;

const F5: &str = "orphan_builtin_types_not_visible";
const F5B: &str = "builtin_types_not_is_upstream";
const F20: &str = "orphan_check_ambiguous_taken_for_allowed";
/// a size limit no generated type reaches
const WIDE: usize = 100_000;

// ---------------------------------------------------------------------------------------------
// the fragment
// ---------------------------------------------------------------------------------------------

struct StructDecl {
    name: &'static str,
    arity: usize,
    upstream: bool,
    fundamental: bool,
}

const STRUCTS: &[StructDecl] = &[
    StructDecl { name: "L0", arity: 0, upstream: false, fundamental: false },
    StructDecl { name: "L1", arity: 1, upstream: false, fundamental: false },
    StructDecl { name: "U0", arity: 0, upstream: true, fundamental: false },
    StructDecl { name: "U1", arity: 1, upstream: true, fundamental: false },
    StructDecl { name: "F1", arity: 1, upstream: true, fundamental: true },
    StructDecl { name: "F2", arity: 2, upstream: true, fundamental: true },
    StructDecl { name: "LF1", arity: 1, upstream: false, fundamental: true },
    StructDecl { name: "U2", arity: 2, upstream: true, fundamental: false },
];
const S_L0: usize = 0;
const S_L1: usize = 1;
const S_U0: usize = 2;
const S_U1: usize = 3;
const S_F1: usize = 4;

const SCALARS: &[&str] = &["u32", "bool", "i8", "char", "f64", "usize"];

#[derive(Clone, Debug, PartialEq, Eq, Hash)]
enum T {
    Adt(usize, Vec<T>),
    Scalar(usize),
    Tuple(Vec<T>),
    Param(usize),
}

fn ty_text(t: &T) -> String {
    match t {
        T::Adt(i, args) => {
            if args.is_empty() {
                STRUCTS[*i].name.to_string()
            } else {
                format!("{}<{}>", STRUCTS[*i].name, args.iter().map(ty_text).collect::<Vec<_>>().join(", "))
            }
        }
        T::Scalar(i) => SCALARS[*i % SCALARS.len()].to_string(),
        T::Tuple(args) => match args.len() {
            0 => "()".to_string(),
            1 => format!("({},)", ty_text(&args[0])),
            _ => format!("({})", args.iter().map(ty_text).collect::<Vec<_>>().join(", ")),
        },
        T::Param(i) => format!("P{}", i),
    }
}

fn max_param(t: &T) -> Option<usize> {
    match t {
        T::Adt(_, args) | T::Tuple(args) => args.iter().filter_map(max_param).max(),
        T::Scalar(_) => None,
        T::Param(i) => Some(*i),
    }
}

fn has_builtin(t: &T) -> bool {
    match t {
        T::Adt(_, args) => args.iter().any(has_builtin),
        T::Scalar(_) | T::Tuple(_) => true,
        T::Param(_) => false,
    }
}

fn prelude() -> String {
    let mut s = String::new();
    for d in STRUCTS {
        if d.upstream {
            s.push_str("#[upstream] ");
        }
        if d.fundamental {
            s.push_str("#[fundamental] ");
        }
        let ps: Vec<String> = (0..d.arity).map(|i| format!("T{}", i)).collect();
        s.push_str(&format!("struct {}{} {{ }} ", d.name, if ps.is_empty() { String::new() } else { format!("<{}>", ps.join(", ")) }));
    }
    for n in 0..3 {
        let ps: Vec<String> = (0..n).map(|i| format!("A{}", i)).collect();
        let g = if ps.is_empty() { String::new() } else { format!("<{}>", ps.join(", ")) };
        s.push_str(&format!("trait LT{}{} {{ }} #[upstream] trait UT{}{} {{ }} ", n, g, n, g));
    }
    s
}

#[derive(Clone, Debug)]
struct ImplT {
    upstream_trait: bool,
    /// Self first
    args: Vec<T>,
}

fn impl_text(im: &ImplT) -> String {
    let np = im.args.iter().filter_map(max_param).max().map(|m| m + 1).unwrap_or(0);
    let ps: Vec<String> = (0..np).map(|i| format!("P{}", i)).collect();
    let targs: Vec<String> = im.args[1..].iter().map(ty_text).collect();
    format!(
        "impl{} {}{}{} for {} {{ }}",
        if ps.is_empty() { String::new() } else { format!("<{}>", ps.join(", ")) },
        if im.upstream_trait { "UT" } else { "LT" },
        im.args.len() - 1,
        if targs.is_empty() { String::new() } else { format!("<{}>", targs.join(", ")) },
        ty_text(&im.args[0])
    )
}

// ---------------------------------------------------------------------------------------------
// the property's sentence, evaluated on the generator's AST
// ---------------------------------------------------------------------------------------------

fn spec_mentions_param(t: &T) -> bool {
    match t {
        T::Adt(_, args) | T::Tuple(args) => args.iter().any(spec_mentions_param),
        T::Scalar(_) => false,
        T::Param(_) => true,
    }
}

/// local, looking through fundamental type constructors; built-in types are upstream
fn spec_is_local(t: &T) -> bool {
    match t {
        T::Adt(i, args) => !STRUCTS[*i].upstream || (STRUCTS[*i].fundamental && args.iter().any(spec_is_local)),
        T::Scalar(_) | T::Tuple(_) | T::Param(_) => false,
    }
}

fn spec_orphan_ok(im: &ImplT) -> bool {
    if !im.upstream_trait {
        return true;
    }
    (0..im.args.len()).any(|i| spec_is_local(&im.args[i]) && (0..i).all(|j| !spec_mentions_param(&im.args[j])))
}

// ---------------------------------------------------------------------------------------------
// the same sentence on the lowered impl (flags from the lowered Program)
// ---------------------------------------------------------------------------------------------

fn ir_args(s: &Substitution<ChalkIr>) -> Option<Vec<&Ty<ChalkIr>>> {
    s.iter(I).map(|a| a.ty(I)).collect()
}

fn ir_mentions_param(t: &Ty<ChalkIr>) -> Option<bool> {
    Some(match t.kind(I) {
        TyKind::Adt(_, s) | TyKind::Tuple(_, s) => {
            let mut r = false;
            for a in ir_args(s)? {
                r |= ir_mentions_param(a)?;
            }
            r
        }
        TyKind::Scalar(_) => false,
        TyKind::BoundVar(_) | TyKind::Placeholder(_) => true,
        _ => return None,
    })
}

fn ir_is_local(p: &Program, t: &Ty<ChalkIr>) -> Option<bool> {
    Some(match t.kind(I) {
        TyKind::Adt(id, s) => {
            let f = &p.adt_data.get(id)?.flags;
            if !f.upstream {
                true
            } else if f.fundamental {
                let mut r = false;
                for a in ir_args(s)? {
                    r |= ir_is_local(p, a)?;
                }
                r
            } else {
                false
            }
        }
        TyKind::Tuple(_, _) | TyKind::Scalar(_) | TyKind::BoundVar(_) | TyKind::Placeholder(_) => false,
        _ => return None,
    })
}

fn ir_orphan_ok(p: &Program, tr: &TraitRef<ChalkIr>) -> Option<bool> {
    if !p.trait_data.get(&tr.trait_id)?.flags.upstream {
        return Some(true);
    }
    let args = ir_args(&tr.substitution)?;
    for i in 0..args.len() {
        if ir_is_local(p, args[i])? {
            let mut ok = true;
            for j in 0..i {
                ok &= !ir_mentions_param(args[j])?;
            }
            if ok {
                return Some(true);
            }
        }
    }
    Some(false)
}

// ---------------------------------------------------------------------------------------------
// wire encoding of what chalk lowered
// ---------------------------------------------------------------------------------------------

fn enc_orphan_ty(t: &Ty<ChalkIr>, binder_depth: u32) -> Option<Sexp> {
    Some(match t.kind(I) {
        TyKind::Adt(id, s) => {
            let mut v = vec![atom("adt"), nat(id.0.index as usize)];
            for a in ir_args(s)? {
                v.push(enc_orphan_ty(a, binder_depth)?);
            }
            Sexp::List(v)
        }
        TyKind::Scalar(sc) => tagged("scalar", vec![nat(scalar_code(*sc))]),
        TyKind::Tuple(_, s) => {
            let mut v = vec![atom("tuple")];
            for a in ir_args(s)? {
                v.push(enc_orphan_ty(a, binder_depth)?);
            }
            Sexp::List(v)
        }
        TyKind::BoundVar(bv) if bv.debruijn.depth() == binder_depth => tagged("param", vec![nat(bv.index)]),
        _ => return None,
    })
}

fn enc_flags(p: &Program) -> (Sexp, Sexp) {
    let adts: Vec<Sexp> = p
        .adt_data
        .iter()
        .map(|(id, d)| list(vec![nat(id.0.index as usize), nat(d.flags.upstream as usize), nat(d.flags.fundamental as usize)]))
        .collect();
    let traits: Vec<Sexp> = p.trait_data.iter().map(|(id, d)| list(vec![nat(id.0.index as usize), nat(d.flags.upstream as usize)])).collect();
    (list(adts), list(traits))
}

// ---------------------------------------------------------------------------------------------
// one program with one impl
// ---------------------------------------------------------------------------------------------

fn verdict(r: &Result<Result<(), String>, String>) -> String {
    match r {
        Ok(Ok(())) => "yes".into(),
        Ok(Err(e)) if e.contains("violates the orphan rules") => "no".into(),
        Ok(Err(e)) => format!("error:{}", e.replace(' ', "_")),
        Err(_) => "panic".into(),
    }
}

/// `spec`: the sentence on the generator's AST when the program came from the generator
fn one_program(text: &str, spec: Option<(bool, bool)>, default_lines: bool, out: &mut Out, tags: &str) {
    let (db, program) = match lower_program(text, SolverChoice::slg_default()) {
        Ok(x) => x,
        Err(e) => {
            out.count("program_rejected");
            out.notes.push(format!("program did not lower: {} :: {}", e, text));
            return;
        }
    };
    out.count("programs");
    let local_impls: Vec<ImplId<ChalkIr>> = program.impl_data.iter().filter(|(_, d)| d.impl_type == ImplType::Local).map(|(id, _)| *id).collect();
    if local_impls.len() != 1 {
        out.count("not_exactly_one_impl");
        return;
    }
    let impl_id = local_impls[0];
    let datum = program.impl_data[&impl_id].clone();
    let tr = &datum.binders.skip_binders().trait_ref;
    // real code, SLG at its default limits: the query as `checked_program` runs it
    let slg = catch(AssertUnwindSafe(|| db.orphan_check().map_err(|e| format!("{}", e))));
    // real code with the other solver configurations: the function the query calls, fresh solver each
    let direct = |choice: SolverChoice| {
        catch(AssertUnwindSafe(|| {
            tls::set_current_program(&program, || {
                let mut solver = choice.into_solver();
                let dbr: &dyn RustIrDatabase<ChalkIr> = &db;
                perform_orphan_check::<ChalkIr>(dbr, &mut *solver, impl_id).map_err(|e| format!("{}", e))
            })
        }))
    };
    let rec = direct(SolverChoice::recursive_default());
    // the same solvers with size limits no type of the run reaches (the default limits, 10 and 30,
    // make the solvers answer `Ambiguous` for closed goals over larger types; before the repair of
    // F20 `perform_orphan_check` took that for "allowed")
    let slg_wide = direct(SolverChoice::slg(WIDE, None));
    let rec_wide = direct(SolverChoice::recursive(WIDE, 100));
    let (adts, traits) = enc_flags(&program);
    let mut iv = vec![atom("impl"), nat(tr.trait_id.0.index as usize)];
    let mut in_fragment = true;
    for a in tr.substitution.iter(I) {
        match a.ty(I).and_then(|t| enc_orphan_ty(t, 0)) {
            Some(s) => iv.push(s),
            None => in_fragment = false,
        }
    }
    if !in_fragment {
        out.count("impl_out_of_fragment");
        return;
    }
    let req = tagged("orphan", vec![adts, traits, Sexp::List(iv)]).to_string();
    let ir_spec = ir_orphan_ok(&program, tr);
    let upstream_trait = program.trait_data[&tr.trait_id].flags.upstream;
    let (spec_ok, builtin) = match spec {
        Some(x) => x,
        None => match ir_spec {
            Some(b) => (b, tr.substitution.iter(I).any(|a| a.ty(I).map(|t| ir_has_builtin(t)).unwrap_or(false))),
            None => {
                out.count("spec_not_evaluable");
                return;
            }
        },
    };
    if let (Some((a, _)), Some(b)) = (spec, ir_spec) {
        if a != b {
            out.fail(
                &format!("the orphan rules evaluated on the program text say {} but on the lowered program {}: lowering changed a flag or a type", a, b),
                text,
                "orphan_lowering_changed_program",
            );
        }
    }
    let mut wide_ok = true;
    for (name, r, wide) in [("slg-wide", &slg_wide, true), ("recursive-wide", &rec_wide, true), ("slg", &slg, false), ("recursive", &rec, false)] {
        let v = verdict(r);
        out.count(&format!("{}_{}_{}", tags, name, if v == "yes" || v == "no" { v.as_str() } else { "other" }));
        if wide || default_lines {
            out.case(req.clone(), v.clone(), upstream_trait, &format!("{} {} | {}", tags, name, text));
        }
        out.evaluations_extra += 1;
        let real = match v.as_str() {
            "yes" => true,
            "no" => false,
            _ => {
                out.fail(&format!("orphan check ({}) ended with `{}`", name, v), text, if v == "panic" { "orphan_check_panic" } else { "orphan_check_other_error" });
                continue;
            }
        };
        if real != spec_ok {
            if wide {
                wide_ok = false;
            }
            if !wide && wide_ok && !real {
                // the goal exceeds the solver's default size limit, is truncated and answered
                // Ambiguous; since the repair of F20 that is (conservatively) a rejection.  A search
                // cut off at max_size is documented behaviour: counted, not a failure.
                out.count(&format!("dropped_{}_default_size_limit", name));
                continue;
            }
            let classifier = if !wide && wide_ok {
                // accepted at the default limits, rejected (as the rules say) once the size limit
                // is out of the way: an Ambiguous answer was taken for a proof
                F20
            } else if builtin && !real {
                F5
            } else if real {
                "orphan_check_accepts_forbidden_impl"
            } else {
                "orphan_check_rejects_allowed_impl"
            };
            out.fail(
                &format!(
                    "the orphan rules {} this impl, the orphan check ({} solver{}) {} it",
                    if spec_ok { "allow" } else { "forbid" },
                    name,
                    if wide { ", size limit lifted" } else { ", default limits" },
                    if real { "accepts" } else { "rejects" }
                ),
                text,
                classifier,
            );
        }
    }
    out.count(&format!("{}_spec_{}", tags, if spec_ok { "allowed" } else { "forbidden" }));
    if upstream_trait {
        out.count(&format!("{}_remote_trait_args_{}", tags, tr.substitution.len(I)));
    }
}

fn ir_has_builtin(t: &Ty<ChalkIr>) -> bool {
    match t.kind(I) {
        TyKind::Adt(_, s) => s.iter(I).any(|a| a.ty(I).map(ir_has_builtin).unwrap_or(false)),
        TyKind::Scalar(_) | TyKind::Tuple(_, _) => true,
        _ => false,
    }
}

thread_local! {
    static CASE_NO: std::cell::Cell<usize> = std::cell::Cell::new(0);
}

/// sharding: cases are numbered in generation order; a shard runs the cases `ctx.mine` gives it
fn my_turn(ctx: &Ctx) -> bool {
    let i = CASE_NO.with(|c| {
        let i = c.get();
        c.set(i + 1);
        i
    });
    ctx.mine(i)
}

fn one_impl(ctx: &Ctx, im: &ImplT, pre: &str, out: &mut Out, tags: &str) {
    if !my_turn(ctx) {
        return;
    }
    let text = format!("{}{}", pre, impl_text(im));
    // the tables stay below the default size limits: there the default configurations are compared
    // with the model as well
    one_program(&text, Some((spec_orphan_ok(im), im.args.iter().any(has_builtin))), tags.starts_with("table"), out, tags);
}

// ---------------------------------------------------------------------------------------------
// programs with SEVERAL impls: the `orphan_check` query (the loop over `local_impl_ids` in
// chalk-integration/src/query.rs, as `checked_program` runs it) must accept exactly when every
// local impl passes `perform_orphan_check` on its own (each of those verdicts is tied to the model
// and to the property's sentence by the one-impl programs above)
// ---------------------------------------------------------------------------------------------

fn multi_program(ctx: &Ctx, ims: &[ImplT], pre: &str, out: &mut Out, tags: &str) {
    if !my_turn(ctx) {
        return;
    }
    let text = format!("{}{}", pre, ims.iter().map(impl_text).collect::<Vec<_>>().join(" "));
    let (db, program) = match lower_program(&text, SolverChoice::slg_default()) {
        Ok(x) => x,
        Err(_) => {
            out.count("multi_program_rejected");
            return;
        }
    };
    let local_impls: Vec<ImplId<ChalkIr>> = program.impl_data.iter().filter(|(_, d)| d.impl_type == ImplType::Local).map(|(id, _)| *id).collect();
    out.count("multi_programs");
    out.count(&format!("multi_program_impls_{}", local_impls.len()));
    out.evaluations_extra += 1;
    let query = verdict(&catch(AssertUnwindSafe(|| db.orphan_check().map_err(|e| format!("{}", e)))));
    let per: Vec<String> = local_impls
        .iter()
        .map(|impl_id| {
            verdict(&catch(AssertUnwindSafe(|| {
                tls::set_current_program(&program, || {
                    let mut solver = SolverChoice::slg_default().into_solver();
                    let dbr: &dyn RustIrDatabase<ChalkIr> = &db;
                    perform_orphan_check::<ChalkIr>(dbr, &mut *solver, *impl_id).map_err(|e| format!("{}", e))
                })
            })))
        })
        .collect();
    if per.iter().any(|v| v != "yes" && v != "no") {
        out.count("multi_program_per_impl_error");
        return;
    }
    let expected = if per.iter().all(|v| v == "yes") { "yes" } else { "no" };
    out.count(&format!("multi_program_{}", expected));
    // position of the first violating impl among local-trait impls (shape statistics)
    if expected == "no" {
        let spec_ok: Vec<bool> = ims.iter().map(spec_orphan_ok).collect();
        let first_bad = spec_ok.iter().position(|b| !b).unwrap_or(0);
        if ims[..first_bad].iter().any(|im| !im.upstream_trait) {
            out.count("multi_program_violation_after_local_trait_impl");
        }
    }
    if query != expected {
        out.fail(
            &format!("the orphan_check query answers `{}` for the program, but checking its {} local impls one by one gives {:?}", query, per.len(), per),
            &text,
            if query == "yes" { "orphan_query_accepts_program_with_forbidden_impl" } else { "orphan_query_rejects_program_of_allowed_impls" },
        );
    }
}

// ---------------------------------------------------------------------------------------------
// auxiliary domain goals
// ---------------------------------------------------------------------------------------------

const PREDS: &[(&str, &str)] =
    &[("IsLocal", "is-local"), ("IsUpstream", "is-upstream"), ("IsFullyVisible", "is-fully-visible"), ("DownstreamType", "downstream-type")];

struct GoalEnv {
    text: String,
    db: ChalkDatabase,
    program: Arc<Program>,
    adts: Sexp,
    traits: Sexp,
}

fn goal_env(pre: &str) -> Option<GoalEnv> {
    let (db, program) = lower_program(pre, SolverChoice::slg_default()).ok()?;
    let (adts, traits) = enc_flags(&program);
    Some(GoalEnv { text: pre.to_string(), db, program, adts, traits })
}

fn one_goal(ctx: &Ctx, env: &GoalEnv, pred: usize, t: &T, out: &mut Out, tags: &str) {
    if !my_turn(ctx) {
        return;
    }
    let (pname, wname) = PREDS[pred];
    let np = max_param(t).map(|m| m + 1).unwrap_or(0);
    let gtext = if np == 0 {
        format!("{}({})", pname, ty_text(t))
    } else {
        format!("forall<{}> {{ {}({}) }}", (0..np).map(|i| format!("P{}", i)).collect::<Vec<_>>().join(", "), pname, ty_text(t))
    };
    let goal = match lower_goal_text(&env.program, &gtext) {
        Ok(g) => g,
        Err(e) => {
            out.count("goal_rejected");
            out.notes.push(format!("goal rejected: {} :: {}", e, gtext));
            return;
        }
    };
    // the type as chalk lowered it: peel the forall
    let (inner, depth) = match goal.data(I) {
        GoalData::Quantified(QuantifierKind::ForAll, b) => (b.skip_binders().clone(), 0u32),
        _ => (goal.clone(), u32::MAX),
    };
    let lowered_ty = match inner.data(I) {
        GoalData::DomainGoal(DomainGoal::IsLocal(t))
        | GoalData::DomainGoal(DomainGoal::IsUpstream(t))
        | GoalData::DomainGoal(DomainGoal::IsFullyVisible(t))
        | GoalData::DomainGoal(DomainGoal::DownstreamType(t)) => enc_orphan_ty(t, depth),
        _ => None,
    };
    let lowered_ty = match lowered_ty {
        Some(t) => t,
        None => {
            out.count("goal_out_of_fragment");
            return;
        }
    };
    let req = tagged("orphan-goal", vec![env.adts.clone(), env.traits.clone(), atom(wname), lowered_ty]).to_string();
    let peeled = peel(&goal);
    for (name, choice) in [("slg-wide", SolverChoice::slg(WIDE, None)), ("recursive-wide", SolverChoice::recursive(WIDE, 100))] {
        let r = catch(AssertUnwindSafe(|| {
            let mut solver = choice.into_solver();
            let dbr: &dyn RustIrDatabase<ChalkIr> = &env.db;
            tls::set_current_program(&env.program, || solver.solve(dbr, &peeled))
        }));
        let v = match &r {
            Ok(None) => "no",
            Ok(Some(Solution::Unique(_))) => "yes",
            Ok(Some(Solution::Ambig(_))) => "ambig",
            Err(_) => "panic",
        };
        out.count(&format!("goal_{}_{}_{}", wname, name, v));
        out.case(req.clone(), v.to_string(), true, &format!("{} {} | {} ;; {}", tags, name, env.text, gtext));
        out.evaluations_extra += 1;
        let input = format!("{} ;; goal {}", env.text, gtext);
        let real = match v {
            "yes" => true,
            "no" => false,
            _ => {
                out.fail(&format!("closed goal {} answered `{}` by the {} solver", gtext, v, name), &input, "orphan_goal_not_decided");
                continue;
            }
        };
        // where the property's sentence speaks about the predicate
        match pred {
            0 if real != spec_is_local(t) => out.fail(
                &format!("{} is {}local by the rules (looking through fundamental constructors; built-in types are upstream) but the {} solver answers {}", ty_text(t), if spec_is_local(t) { "" } else { "not " }, name, v),
                &input,
                "orphan_is_local_differs_from_rules",
            ),
            2 if real == spec_mentions_param(t) => out.fail(
                &format!("{} {} an impl type parameter but IsFullyVisible is answered {} by the {} solver", ty_text(t), if spec_mentions_param(t) { "mentions" } else { "mentions no" }, v, name),
                &input,
                if has_builtin(t) && !real { F5 } else { "orphan_fully_visible_differs_from_rules" },
            ),
            1 if matches!(t, T::Scalar(_) | T::Tuple(_)) && !real => out.fail(
                &format!("built-in types count as upstream, but IsUpstream({}) is not provable ({} solver)", ty_text(t), name),
                &input,
                F5B,
            ),
            _ => {}
        }
    }
}

// ---------------------------------------------------------------------------------------------
// enumeration and generation
// ---------------------------------------------------------------------------------------------

fn leaves() -> Vec<T> {
    vec![T::Adt(S_L0, vec![]), T::Adt(S_U0, vec![]), T::Scalar(0), T::Param(0), T::Tuple(vec![])]
}

/// all types of the next depth over `base`: unary constructors L1, U1, F1, 1-tuples and pairs
fn grow(base: &[T]) -> Vec<T> {
    let mut v = leaves();
    for a in base {
        for s in [S_L1, S_U1, S_F1] {
            v.push(T::Adt(s, vec![a.clone()]));
        }
        v.push(T::Tuple(vec![a.clone()]));
    }
    for a in base {
        for b in base {
            v.push(T::Tuple(vec![a.clone(), b.clone()]));
        }
    }
    v
}

fn random_ty(rng: &mut crate::rng::Rng, depth: usize) -> T {
    let leaf = depth == 0 || rng.chance(1, 4);
    if leaf {
        return match rng.weighted(&[3, 3, 3, 3, 1]) {
            0 => T::Adt(S_L0, vec![]),
            1 => T::Adt(S_U0, vec![]),
            2 => T::Scalar(rng.usize_below(SCALARS.len())),
            3 => T::Param(rng.usize_below(2)),
            _ => T::Tuple(vec![]),
        };
    }
    match rng.weighted(&[6, 3]) {
        0 => {
            let cands: Vec<usize> = (0..STRUCTS.len()).filter(|i| STRUCTS[*i].arity > 0).collect();
            let s = *rng.pick(&cands);
            T::Adt(s, (0..STRUCTS[s].arity).map(|_| random_ty(rng, depth - 1)).collect())
        }
        _ => {
            let n = 1 + rng.usize_below(3);
            T::Tuple((0..n).map(|_| random_ty(rng, depth - 1)).collect())
        }
    }
}

fn random_impl(rng: &mut crate::rng::Rng) -> ImplT {
    let n = 1 + rng.weighted(&[2, 3, 4]);
    let depth = 1 + rng.usize_below(3);
    ImplT { upstream_trait: !rng.chance(1, 8), args: (0..n).map(|_| random_ty(rng, depth)).collect() }
}

fn one_line(line: &str, out: &mut Out, tags: &str) {
    let line = line.trim();
    if let Some((p, g)) = line.split_once(";; goal ") {
        // `program ;; goal Pred(ty)`: replayed through the solvers only (no model line: the type
        // text is not re-parsed into the generator's AST)
        if let Some(env) = goal_env(p.trim()) {
            for (name, choice) in solver_choices() {
                if let Ok(goal) = lower_goal_text(&env.program, g.trim()) {
                    let peeled = peel(&goal);
                    let r = catch(AssertUnwindSafe(|| {
                        let mut solver = choice.into_solver();
                        let dbr: &dyn RustIrDatabase<ChalkIr> = &env.db;
                        tls::set_current_program(&env.program, || solver.solve(dbr, &peeled))
                    }));
                    out.count(&format!("{}_goal_{}_{}", tags, name, answer_kind(&r)));
                    out.evaluations_extra += 1;
                    if g.trim().starts_with("IsUpstream(") && matches!(r, Ok(None)) {
                        out.fail(&format!("built-in types count as upstream, but {} is not provable ({} solver)", g.trim(), name), line, F5B);
                    }
                }
            }
        }
    } else if !line.is_empty() {
        one_program(line.strip_prefix("program ").unwrap_or(line), None, false, out, tags);
    }
}

pub fn run(ctx: &Ctx, out: &mut Out) {
    if let Some(f) = &ctx.replay {
        for l in std::fs::read_to_string(f).unwrap_or_default().lines() {
            one_line(l, out, "replay");
        }
        return;
    }
    let first_shard = ctx.shard.map_or(true, |(k, _)| k == 0);
    if first_shard {
        for l in ctx.corpus_lines() {
            one_line(&l, out, "corpus");
        }
    }
    let pre = prelude();
    let thorough = ctx.thorough();
    let d0 = leaves();
    let d1 = grow(&d0);
    let d2 = grow(&d1);
    if first_shard {
        out.count_n("table_types_depth0", d0.len() as u64);
        out.count_n("table_types_depth1", d1.len() as u64);
        out.count_n("table_types_depth2", d2.len() as u64);
    }

    // ---- exhaustive tables (remote traits; the verdict for a local trait is a fact)
    // one argument: every type of depth <= 2 (quick: <= 1)
    for t in if thorough { &d2 } else { &d1 } {
        one_impl(ctx, &ImplT { upstream_trait: true, args: vec![t.clone()] }, &pre, out, "table1");
    }
    // two arguments: every pair of types of depth <= 1 (quick: depth 0 x depth <= 1 both ways)
    for a in &d1 {
        for b in &d1 {
            let small = d0.contains(a) || d0.contains(b);
            if thorough || small {
                one_impl(ctx, &ImplT { upstream_trait: true, args: vec![a.clone(), b.clone()] }, &pre, out, "table2");
            }
        }
    }
    // three arguments: thorough every triple of types of depth <= 1; quick every triple of leaves
    let d3: &Vec<T> = if thorough { &d1 } else { &d0 };
    for a in d3 {
        for b in d3 {
            for c in d3 {
                one_impl(ctx, &ImplT { upstream_trait: true, args: vec![a.clone(), b.clone(), c.clone()] }, &pre, out, "table3");
            }
        }
    }
    // local traits: every leaf tuple
    for a in &d0 {
        one_impl(ctx, &ImplT { upstream_trait: false, args: vec![a.clone()] }, &pre, out, "table_local");
        for b in &d0 {
            one_impl(ctx, &ImplT { upstream_trait: false, args: vec![a.clone(), b.clone()] }, &pre, out, "table_local");
        }
    }
    if thorough && first_shard {
        out.count("exhaustive");
        out.notes.push(format!(
            "exhaustive: remote trait with 1 argument over all {} types of depth <= 2, with 2 and 3 arguments over all types of depth <= 1 ({}^2, {}^3), from leaves L0, U0, u32, P0, () and constructors L1<_>, U1<_>, F1<_> (upstream fundamental), (_,), (_, _)",
            d2.len(),
            d1.len(),
            d1.len()
        ));
    }

    // ---- auxiliary goals: every predicate on every type of depth <= 2 (quick: <= 1)
    if let Some(env) = goal_env(&pre) {
        for t in if thorough { &d2 } else { &d1 } {
            for p in 0..PREDS.len() {
                one_goal(ctx, &env, p, t, out, "goal_table");
            }
        }
        let ng = ctx.budget(150, 3000);
        for i in 0..ng {
            let mut rng = ctx.rng(2, i as u64);
            let d = 1 + rng.usize_below(3);
            let t = random_ty(&mut rng, d);
            let p = rng.usize_below(PREDS.len());
            one_goal(ctx, &env, p, &t, out, "goal_random");
        }
    } else {
        out.notes.push("prelude did not lower".into());
    }

    // ---- programs with 2-4 impls (local and upstream traits mixed, random order)
    let nm = ctx.budget(150, 6000);
    for i in 0..nm {
        let mut rng = ctx.rng(3, i as u64);
        let k = 2 + rng.usize_below(3);
        let ims: Vec<ImplT> = (0..k)
            .map(|_| {
                let mut im = random_impl(&mut rng);
                // local-trait impls are frequent here (1/8 in `random_impl`): their position matters
                if rng.chance(1, 3) {
                    im.upstream_trait = false;
                }
                im
            })
            .collect();
        multi_program(ctx, &ims, &pre, out, "multi");
    }

    // ---- random impls over the whole constructor pool (F2, LF1, U2, 3-tuples, six scalars, two parameters)
    let n = ctx.budget(400, 30000);
    for i in 0..n {
        let mut rng = ctx.rng(1, i as u64);
        let im = random_impl(&mut rng);
        one_impl(ctx, &im, &pre, out, "random");
    }
}
