//! C26: `TyKind::compute_flags` (as stored by `Ty::new` in `TyData.flags`) vs `Ty.computeFlags`.
use crate::gen::{heads, Gen, GenCfg};
use crate::wire::*;
use crate::{Ctx, Out};

/// Independent oracle: the occurrence flags computed from the *serialised term* by a plain walk
/// over its leaves (the table of `Flag.reports` in lean/ChalkModel/Flags.lean).
pub fn spec_bits(s: &Sexp) -> usize {
    match s {
        Sexp::Atom(a) => match a.as_str() {
            "error" => 1 << 10,
            "lerror" => 1 << 11,
            "static" => 1 << 12,
            "erased" => 1 << 14,
            _ => 0,
        },
        Sexp::List(xs) => {
            let own = match xs.first().and_then(|x| x.as_atom()) {
                Some("infer") => 1,
                Some("linfer") => (1 << 1) | (1 << 6) | (1 << 12),
                Some("cinfer") => 1 << 2,
                Some("ph") => 1 << 3,
                Some("lph") => (1 << 4) | (1 << 6) | (1 << 12),
                Some("cph") => 1 << 5,
                Some("proj") | Some("aeq-proj") => 1 << 7,
                Some("opaque") | Some("aeq-opaque") => 1 << 8,
                Some("lbound") => 1 << 13,
                _ => 0,
            };
            let skip = if matches!(xs.first(), Some(Sexp::Atom(_))) { 1 } else { 0 };
            own | xs.iter().skip(skip).map(spec_bits).fold(0, |a, b| a | b)
        }
    }
}

pub fn one(req_ty: &Sexp, out: &mut Out, tags: &str) {
    let ty = match dec_ty(req_ty) {
        Some(t) => t,
        None => {
            out.count("undecodable");
            return;
        }
    };
    let bits = ty.data(I).flags.bits() as usize;
    let enc = enc_ty(&ty);
    if (bits & 0x7fff) != spec_bits(&enc) {
        out.fail(
            &format!("stored flags {:#x} differ from the leaves that occur {:#x} (bit 15 ignored)", bits, spec_bits(&enc)),
            &tagged("flags", vec![enc.clone()]).to_string(),
            "flags_vs_leaves",
        );
    }
    let request = tagged("flags", vec![enc]).to_string();
    let expected = ok(nat(bits)).to_string();
    out.count(&format!("flags_popcount_{}", bits.count_ones()));
    out.case(request, expected, bits != 0, tags);
}

pub fn run(ctx: &Ctx, out: &mut Out) {
    for l in ctx.corpus_lines() {
        if let Some(s) = parse(&l) {
            if let Some(("flags", [t])) = s.tagged() {
                one(t, out, "corpus");
            }
        }
    }
    if let Some(f) = &ctx.replay {
        for l in std::fs::read_to_string(f).unwrap_or_default().lines() {
            if let Some(s) = parse(l) {
                if let Some(("flags", [t])) = s.tagged() {
                    one(t, out, "replay");
                }
            }
        }
        return;
    }
    let n = ctx.budget(6000, 300000);
    let mut hist = std::collections::BTreeMap::new();
    for i in 0..n {
        let mut rng = ctx.rng(0, i as u64);
        let depth = 1 + rng.usize_below(5);
        let mut g = Gen::new(&mut rng, GenCfg { max_depth: depth, const_ty_any: true, ..GenCfg::default() });
        let t = g.ty(depth, 0);
        heads(&t, &mut hist);
        one(&t, out, "gen");
    }
    for (k, v) in hist {
        out.count_n(&format!("head_{}", k), v);
    }
}
