//! C08: built-in traits (Sized, Copy, Clone, Tuple, FnPtr) follow the language's structural rules.
//!
//! Real code: both solvers on closed goals `T: Trait` over generated programs that declare the
//! lang-item traits, structs and enums with fields, and a few explicit impls; the clauses come from
//! `chalk_solve::clauses::builtin_traits::add_builtin_program_clauses` and the impls.
//! Model: lean/ChalkModel/Builtin.lean (`decideGoal` = resolution over `clausesFor`), driver op
//! `builtin`.  The request is built from what chalk *lowered*: every ADT's kind and fields, every
//! impl's header and where-clauses, and the goal's type are read off the `Program` / `Goal` and
//! turned into first-order terms (lifetimes, array lengths and fn-pointer ABI dropped).
//! Independently the property's rules are evaluated in Rust on the generator's AST (`spec_holds`);
//! a real answer that differs is reported with a classifier naming trait and type constructor.
use crate::solver::*;
use crate::wire::*;
use crate::{Ctx, Out};
use chalk_integration::interner::ChalkIr;
use chalk_integration::program::Program;
use chalk_integration::{tls, SolverChoice};
use chalk_ir::*;
use chalk_solve::rust_ir::{AdtKind, ImplType, Polarity, WellKnownTrait};
use chalk_solve::{RustIrDatabase, Solution};
use std::collections::BTreeMap;
use std::panic::AssertUnwindSafe;

pub const FUEL: usize = 40;
const WIDE: usize = 100_000;

// ---------------------------------------------------------------------------------------------
// generator AST
// ---------------------------------------------------------------------------------------------

#[derive(Clone, Debug, PartialEq, Eq)]
enum T {
    Adt(usize, Vec<T>),
    Scalar(usize),
    Tuple(Vec<T>),
    Array(Box<T>, usize),
    Slice(Box<T>),
    Ref(bool, Box<T>),
    Raw(bool, Box<T>),
    FnPtr(Vec<T>, Box<T>),
    Str,
    Never,
    Dyn,
    FnDef,
    Param(usize),
}

const SCALARS: &[&str] = &["u8", "i32", "bool", "char", "f64", "usize"];
const TRAITS: &[(&str, &str, &str)] = &[
    ("Sized", "sized", "sized"),
    ("Copy", "copy", "copy"),
    ("Clone", "clone", "clone"),
    ("Tuple", "tuple_trait", "tuple"),
    ("FnPtr", "fn_ptr_trait", "fnptr"),
];
const SIZED: usize = 0;
const COPY: usize = 1;
const CLONE: usize = 2;
const TUPLE: usize = 3;
const FNPTR: usize = 4;

#[derive(Clone, Debug)]
struct AdtDef {
    is_enum: bool,
    nparams: usize,
    /// a struct has exactly one variant
    variants: Vec<Vec<T>>,
}

#[derive(Clone, Debug)]
struct ImplDef {
    tr: usize,
    nparams: usize,
    self_ty: T,
    wcs: Vec<(usize, T)>,
}

#[derive(Clone, Debug)]
struct Prog {
    adts: Vec<AdtDef>,
    impls: Vec<ImplDef>,
}

/// ADTs also carry non-type parameters in front of their type parameters, as a function of the
/// ADT's index: (a lifetime `'a`?, a constant `const N`?).  They do not occur in field types; what
/// they exercise is the numbering of parameters (`struct A1<'a, P0> { f0: P0 }`: `P0` is parameter
/// number 1 of the ADT but its first TYPE parameter).
fn lead_of(i: usize) -> (bool, bool) {
    match i % 4 {
        1 => (true, false),
        2 => (false, true),
        3 => (true, true),
        _ => (false, false),
    }
}

fn ty_text(t: &T) -> String {
    match t {
        T::Adt(i, args) => {
            let (lt, ct) = lead_of(*i);
            let mut a: Vec<String> = vec![];
            if lt {
                a.push("'static".into());
            }
            if ct {
                a.push("3".into());
            }
            a.extend(args.iter().map(ty_text));
            if a.is_empty() {
                format!("A{}", i)
            } else {
                format!("A{}<{}>", i, a.join(", "))
            }
        }
        T::Scalar(i) => SCALARS[*i % SCALARS.len()].to_string(),
        T::Tuple(args) => match args.len() {
            0 => "()".into(),
            1 => format!("({},)", ty_text(&args[0])),
            _ => format!("({})", args.iter().map(ty_text).collect::<Vec<_>>().join(", ")),
        },
        T::Array(e, n) => format!("[{}; {}]", ty_text(e), n),
        T::Slice(e) => format!("[{}]", ty_text(e)),
        T::Ref(m, e) => format!("&'static {}{}", if *m { "mut " } else { "" }, ty_text(e)),
        T::Raw(m, e) => format!("*{} {}", if *m { "mut" } else { "const" }, ty_text(e)),
        T::FnPtr(args, ret) => format!("fn({}) -> {}", args.iter().map(ty_text).collect::<Vec<_>>().join(", "), ty_text(ret)),
        T::Str => "str".into(),
        T::Never => "!".into(),
        T::Dyn => "dyn Obj + 'static".into(),
        T::FnDef => "fd0".into(),
        T::Param(i) => format!("P{}", i),
    }
}

/// declaration of an ADT's parameters: lead parameters, then `P0 ..`
fn adt_params_text(i: usize, n: usize) -> String {
    let (lt, ct) = lead_of(i);
    let mut a: Vec<String> = vec![];
    if lt {
        a.push("'a".into());
    }
    if ct {
        a.push("const N".into());
    }
    a.extend((0..n).map(|k| format!("P{}", k)));
    if a.is_empty() {
        String::new()
    } else {
        format!("<{}>", a.join(", "))
    }
}

fn params_text(n: usize) -> String {
    if n == 0 {
        String::new()
    } else {
        format!("<{}>", (0..n).map(|i| format!("P{}", i)).collect::<Vec<_>>().join(", "))
    }
}

impl Prog {
    fn render(&self) -> String {
        let mut s = String::new();
        for (name, lang, _) in TRAITS {
            s.push_str(&format!("#[lang({})] trait {} {{ }} ", lang, name));
        }
        s.push_str("trait Obj { } fn fd0(); ");
        for (i, a) in self.adts.iter().enumerate() {
            if a.is_enum {
                let vs: Vec<String> = a
                    .variants
                    .iter()
                    .enumerate()
                    .map(|(k, fs)| {
                        if fs.is_empty() {
                            format!("V{}", k)
                        } else {
                            format!("V{} {{ {} }}", k, fs.iter().enumerate().map(|(j, t)| format!("f{}: {}", j, ty_text(t))).collect::<Vec<_>>().join(", "))
                        }
                    })
                    .collect();
                s.push_str(&format!("enum A{}{} {{ {} }} ", i, adt_params_text(i, a.nparams), vs.join(", ")));
            } else {
                let fs = &a.variants[0];
                s.push_str(&format!(
                    "struct A{}{} {{ {} }} ",
                    i,
                    adt_params_text(i, a.nparams),
                    fs.iter().enumerate().map(|(j, t)| format!("f{}: {}", j, ty_text(t))).collect::<Vec<_>>().join(", ")
                ));
            }
        }
        for im in &self.impls {
            let wcs = if im.wcs.is_empty() {
                String::new()
            } else {
                format!(" where {}", im.wcs.iter().map(|(tr, t)| format!("{}: {}", ty_text(t), TRAITS[*tr].0)).collect::<Vec<_>>().join(", "))
            };
            s.push_str(&format!("impl{} {} for {}{} {{ }} ", params_text(im.nparams), TRAITS[im.tr].0, ty_text(&im.self_ty), wcs));
        }
        s.trim_end().to_string()
    }
}

// ---------------------------------------------------------------------------------------------
// the rules of the property, evaluated on the generator's AST
// ---------------------------------------------------------------------------------------------

fn subst(t: &T, args: &[T]) -> T {
    match t {
        T::Param(i) => args.get(*i).cloned().unwrap_or_else(|| t.clone()),
        T::Adt(i, a) => T::Adt(*i, a.iter().map(|x| subst(x, args)).collect()),
        T::Tuple(a) => T::Tuple(a.iter().map(|x| subst(x, args)).collect()),
        T::Array(e, n) => T::Array(Box::new(subst(e, args)), *n),
        T::Slice(e) => T::Slice(Box::new(subst(e, args))),
        T::Ref(m, e) => T::Ref(*m, Box::new(subst(e, args))),
        T::Raw(m, e) => T::Raw(*m, Box::new(subst(e, args))),
        T::FnPtr(a, r) => T::FnPtr(a.iter().map(|x| subst(x, args)).collect(), Box::new(subst(r, args))),
        T::Scalar(_) | T::Str | T::Never | T::Dyn | T::FnDef => t.clone(),
    }
}

/// references replaced by raw pointers
fn strip_refs(t: &T) -> T {
    match t {
        T::Ref(m, e) => T::Raw(*m, Box::new(strip_refs(e))),
        T::Adt(i, a) => T::Adt(*i, a.iter().map(strip_refs).collect()),
        T::Tuple(a) => T::Tuple(a.iter().map(strip_refs).collect()),
        T::Array(e, n) => T::Array(Box::new(strip_refs(e)), *n),
        T::Slice(e) => T::Slice(Box::new(strip_refs(e))),
        T::Raw(m, e) => T::Raw(*m, Box::new(strip_refs(e))),
        T::FnPtr(a, r) => T::FnPtr(a.iter().map(strip_refs).collect(), Box::new(strip_refs(r))),
        _ => t.clone(),
    }
}

/// one-sided matching of an impl header against a closed type
fn match_ty(pat: &T, t: &T, binds: &mut Vec<Option<T>>) -> bool {
    match (pat, t) {
        (T::Param(i), _) => match &binds[*i] {
            Some(b) => b == t,
            None => {
                binds[*i] = Some(t.clone());
                true
            }
        },
        (T::Adt(i, a), T::Adt(j, b)) => i == j && a.len() == b.len() && a.iter().zip(b).all(|(x, y)| match_ty(x, y, binds)),
        (T::Scalar(i), T::Scalar(j)) => i % SCALARS.len() == j % SCALARS.len(),
        (T::Tuple(a), T::Tuple(b)) => a.len() == b.len() && a.iter().zip(b).all(|(x, y)| match_ty(x, y, binds)),
        (T::Array(a, n), T::Array(b, m)) => n == m && match_ty(a, b, binds),
        (T::Slice(a), T::Slice(b)) => match_ty(a, b, binds),
        (T::Ref(m, a), T::Ref(n, b)) | (T::Raw(m, a), T::Raw(n, b)) => m == n && match_ty(a, b, binds),
        (T::FnPtr(a, r), T::FnPtr(b, s)) => a.len() == b.len() && a.iter().zip(b).all(|(x, y)| match_ty(x, y, binds)) && match_ty(r, s, binds),
        (T::Str, T::Str) | (T::Never, T::Never) | (T::Dyn, T::Dyn) | (T::FnDef, T::FnDef) => true,
        _ => false,
    }
}

/// `Some(b)`: the rules decide; `None`: out of fuel
fn spec_holds(p: &Prog, tr: usize, t: &T, stack: &mut Vec<(usize, T)>, fuel: usize) -> Option<bool> {
    if fuel == 0 {
        return None;
    }
    let key = (tr, t.clone());
    if stack.contains(&key) {
        // an inductive cycle proves nothing
        return Some(false);
    }
    stack.push(key);
    let r = spec_holds_inner(p, tr, t, stack, fuel - 1);
    stack.pop();
    r
}

fn all_hold(p: &Prog, goals: &[(usize, T)], stack: &mut Vec<(usize, T)>, fuel: usize) -> Option<bool> {
    let mut unknown = false;
    for (tr, t) in goals {
        match spec_holds(p, *tr, t, stack, fuel) {
            Some(true) => {}
            Some(false) => return Some(false),
            None => unknown = true,
        }
    }
    if unknown {
        None
    } else {
        Some(true)
    }
}

fn spec_holds_inner(p: &Prog, tr: usize, t: &T, stack: &mut Vec<(usize, T)>, fuel: usize) -> Option<bool> {
    let mut unknown = false;
    // the language's structural rules
    let structural: Option<Vec<(usize, T)>> = match tr {
        SIZED => match t {
            T::Scalar(_) | T::Ref(..) | T::Raw(..) | T::Array(..) | T::FnPtr(..) | T::Never | T::FnDef => Some(vec![]),
            T::Tuple(args) => Some(args.last().map(|l| vec![(SIZED, l.clone())]).unwrap_or_default()),
            T::Adt(i, args) => {
                let a = &p.adts[*i];
                if a.is_enum {
                    Some(vec![])
                } else {
                    Some(a.variants[0].last().map(|f| vec![(SIZED, subst(f, args))]).unwrap_or_default())
                }
            }
            T::Str | T::Slice(_) | T::Dyn | T::Param(_) => None,
        },
        COPY | CLONE => match t {
            T::Tuple(args) => Some(args.iter().map(|a| (tr, a.clone())).collect()),
            T::Array(e, _) => Some(vec![(tr, (**e).clone())]),
            T::FnPtr(..) | T::FnDef => Some(vec![]),
            _ => None,
        },
        TUPLE => match t {
            T::Tuple(_) => Some(vec![]),
            _ => None,
        },
        FNPTR => match t {
            T::FnPtr(..) => Some(vec![]),
            _ => None,
        },
        _ => None,
    };
    if let Some(conds) = structural {
        match all_hold(p, &conds, stack, fuel) {
            Some(true) => return Some(true),
            Some(false) => {}
            None => unknown = true,
        }
    }
    // the program's explicit impls
    for im in &p.impls {
        if im.tr != tr {
            continue;
        }
        let mut binds = vec![None; im.nparams];
        if !match_ty(&im.self_ty, t, &mut binds) {
            continue;
        }
        let args: Vec<T> = binds.into_iter().map(|b| b.unwrap_or(T::Never)).collect();
        let conds: Vec<(usize, T)> = im.wcs.iter().map(|(tr, w)| (*tr, subst(w, &args))).collect();
        match all_hold(p, &conds, stack, fuel) {
            Some(true) => return Some(true),
            Some(false) => {}
            None => unknown = true,
        }
    }
    if unknown {
        None
    } else {
        Some(false)
    }
}

fn ctor_name(t: &T) -> &'static str {
    match t {
        T::Adt(..) => "adt",
        T::Scalar(_) => "scalar",
        T::Tuple(_) => "tuple",
        T::Array(..) => "array",
        T::Slice(_) => "slice",
        T::Ref(..) => "ref",
        T::Raw(..) => "raw",
        T::FnPtr(..) => "fnptr",
        T::Str => "str",
        T::Never => "never",
        T::Dyn => "dyn",
        T::FnDef => "fndef",
        T::Param(_) => "param",
    }
}

// ---------------------------------------------------------------------------------------------
// wire encoding of what chalk lowered
// ---------------------------------------------------------------------------------------------

struct Enc {
    ctors: BTreeMap<String, Sexp>,
    /// for the item being encoded: binder index -> rank among the item's TYPE parameters (the terms
    /// carry type arguments only)
    ty_rank: Vec<usize>,
}

fn ty_ranks(kinds: &VariableKinds<ChalkIr>) -> Vec<usize> {
    let mut n = 0;
    kinds
        .iter(I)
        .map(|k| {
            let r = n;
            if matches!(k, VariableKind::Ty(_)) {
                n += 1;
            }
            r
        })
        .collect()
}

impl Enc {
    fn app(&mut self, name: String, kind: Sexp, args: Vec<Sexp>) -> Sexp {
        self.ctors.insert(name.clone(), kind);
        let mut v = vec![atom("app"), atom(&name)];
        v.extend(args);
        Sexp::List(v)
    }

    fn subst(&mut self, s: &Substitution<ChalkIr>, depth: u32) -> Option<Vec<Sexp>> {
        let mut v = vec![];
        for a in s.iter(I) {
            match a.data(I) {
                GenericArgData::Ty(t) => v.push(self.ty(t, depth)?),
                // lifetimes and consts are not part of the term
                _ => {}
            }
        }
        Some(v)
    }

    /// `depth`: de Bruijn depth at which the item's own parameters are bound
    fn ty(&mut self, t: &Ty<ChalkIr>, depth: u32) -> Option<Sexp> {
        Some(match t.kind(I) {
            TyKind::Adt(id, s) => {
                let args = self.subst(s, depth)?;
                self.app(format!("adt{}", id.0.index), tagged("adt", vec![nat(id.0.index as usize)]), args)
            }
            TyKind::Scalar(sc) => self.app(format!("scalar{}", scalar_code(*sc)), atom("scalar"), vec![]),
            TyKind::Tuple(_, s) => {
                let args = self.subst(s, depth)?;
                self.app("tuple".into(), atom("tuple"), args)
            }
            TyKind::Array(e, _) => {
                let e = self.ty(e, depth)?;
                self.app("array".into(), atom("array"), vec![e])
            }
            TyKind::Slice(e) => {
                let e = self.ty(e, depth)?;
                self.app("slice".into(), atom("slice"), vec![e])
            }
            TyKind::Ref(m, _, e) => {
                let e = self.ty(e, depth)?;
                self.app(if *m == Mutability::Mut { "refmut" } else { "ref" }.into(), atom("ref"), vec![e])
            }
            TyKind::Raw(m, e) => {
                let e = self.ty(e, depth)?;
                self.app(if *m == Mutability::Mut { "rawmut" } else { "rawconst" }.into(), atom("raw"), vec![e])
            }
            TyKind::Function(f) => {
                // the argument and return types live under the pointer's own binder
                let args = self.subst(&f.substitution.0, depth + 1)?;
                self.app(format!("fnptr{}", f.num_binders), atom("fnptr"), args)
            }
            TyKind::Str => self.app("str".into(), atom("str"), vec![]),
            TyKind::Never => self.app("never".into(), atom("never"), vec![]),
            TyKind::Dyn(_) => self.app("dyn".into(), atom("dyn"), vec![]),
            TyKind::FnDef(id, s) => {
                let args = self.subst(s, depth)?;
                self.app(format!("fndef{}", id.0.index), atom("fndef"), args)
            }
            TyKind::BoundVar(bv) if bv.debruijn.depth() == depth => tagged("var", vec![nat(self.ty_rank.get(bv.index).copied().unwrap_or(bv.index))]),
            _ => return None,
        })
    }
}

fn trait_wire(p: &Program, id: TraitId<ChalkIr>) -> Option<&'static str> {
    match p.trait_data.get(&id)?.well_known? {
        WellKnownTrait::Sized => Some("sized"),
        WellKnownTrait::Copy => Some("copy"),
        WellKnownTrait::Clone => Some("clone"),
        WellKnownTrait::Tuple => Some("tuple"),
        WellKnownTrait::FnPtr => Some("fnptr"),
        _ => None,
    }
}

/// `(adts, impls)`; `None` when the program leaves the fragment
fn enc_program(p: &Program, enc: &mut Enc) -> Option<(Sexp, Sexp)> {
    let mut adts = vec![];
    for (id, d) in &p.adt_data {
        let b = d.binders.skip_binders();
        enc.ty_rank = ty_ranks(&d.binders.binders);
        let mut vs = vec![];
        for v in &b.variants {
            let mut fs = vec![];
            for f in &v.fields {
                fs.push(enc.ty(f, 0)?);
            }
            vs.push(list(fs));
        }
        let idx = nat(id.0.index as usize);
        adts.push(match d.kind {
            AdtKind::Struct => list(vec![idx, atom("struct"), vs.into_iter().next().unwrap_or_else(|| list(vec![]))]),
            AdtKind::Union => list(vec![idx, atom("union"), vs.into_iter().next().unwrap_or_else(|| list(vec![]))]),
            AdtKind::Enum => list(vec![idx, atom("enum"), list(vs)]),
        });
    }
    let mut impls = vec![];
    for (_, d) in &p.impl_data {
        if d.polarity != Polarity::Positive || d.impl_type != ImplType::Local {
            return None;
        }
        let b = d.binders.skip_binders();
        enc.ty_rank = ty_ranks(&d.binders.binders);
        let tr = trait_wire(p, b.trait_ref.trait_id)?;
        let self_ty = enc.ty(&b.trait_ref.self_type_parameter(I), 0)?;
        let mut wcs = vec![];
        for q in &b.where_clauses {
            if q.binders.len(I) != 0 {
                return None;
            }
            match q.skip_binders() {
                WhereClause::Implemented(t) => {
                    let w = trait_wire(p, t.trait_id)?;
                    // one binder level for the (empty) quantifier of the where-clause
                    wcs.push(list(vec![atom(w), enc.ty(&t.self_type_parameter(I), 1)?]));
                }
                _ => return None,
            }
        }
        impls.push(tagged("impl", vec![atom(tr), self_ty, list(wcs)]));
    }
    Some((list(adts), list(impls)))
}

// ---------------------------------------------------------------------------------------------
// generator
// ---------------------------------------------------------------------------------------------

struct Gen<'a> {
    rng: &'a mut crate::rng::Rng,
}

impl<'a> Gen<'a> {
    /// `nparams`: parameters in scope; `adts`: (index, arity, leaf_args) of the ADTs that may be
    /// mentioned; an ADT that can be part of a cycle of declarations is only applied to leaves, so
    /// that no cycle makes types grow (polymorphic recursion makes the solvers run until their size
    /// limit and is C09's subject)
    fn ty(&mut self, adts: &[(usize, usize, bool)], nparams: usize, depth: usize, unsized_ok: bool) -> T {
        let leaf = depth == 0 || self.rng.chance(1, 4);
        if leaf {
            let w_param = if nparams > 0 { 4 } else { 0 };
            let w_unsized = if unsized_ok { 1 } else { 0 };
            let zero: Vec<usize> = adts.iter().filter(|(_, a, _)| *a == 0).map(|(i, _, _)| *i).collect();
            let w_adt = if zero.is_empty() { 0 } else { 4 };
            return match self.rng.weighted(&[6, w_param, w_adt, 1, 1, 1, w_unsized, w_unsized]) {
                0 => T::Scalar(self.rng.usize_below(SCALARS.len())),
                1 => T::Param(self.rng.usize_below(nparams)),
                2 => T::Adt(*self.rng.pick(&zero), vec![]),
                3 => T::Tuple(vec![]),
                4 => T::Never,
                5 => T::FnDef,
                6 => T::Str,
                _ => T::Dyn,
            };
        }
        let w_adt = if adts.is_empty() { 0 } else { 8 };
        let w_slice = if unsized_ok { 2 } else { 1 };
        match self.rng.weighted(&[w_adt, 6, 3, w_slice, 3, 2, 2]) {
            0 => {
                let (i, ar, leaf_args) = *self.rng.pick(adts);
                T::Adt(i, (0..ar).map(|_| self.ty(adts, nparams, if leaf_args { 0 } else { depth - 1 }, true)).collect())
            }
            1 => {
                let n = 1 + self.rng.usize_below(3);
                T::Tuple((0..n).map(|_| self.ty(adts, nparams, depth - 1, true)).collect())
            }
            2 => T::Array(Box::new(self.ty(adts, nparams, depth - 1, true)), 1 + self.rng.usize_below(3)),
            3 => T::Slice(Box::new(self.ty(adts, nparams, depth - 1, true))),
            4 => T::Ref(self.rng.chance(1, 3), Box::new(self.ty(adts, nparams, depth - 1, true))),
            5 => T::Raw(self.rng.chance(1, 2), Box::new(self.ty(adts, nparams, depth - 1, true))),
            _ => {
                let n = self.rng.usize_below(3);
                // no item parameters inside fn pointers (their types live under the pointer's binder),
                // and no references: a lifetime under a fn pointer is generalized into a lifetime
                // variable with region constraints, and two derivations with different constraints
                // make the recursive solver answer Ambiguous ("unless lifetimes make it so")
                T::FnPtr(
                    (0..n).map(|_| strip_refs(&self.ty(adts, 0, depth - 1, false))).collect(),
                    Box::new(strip_refs(&self.ty(adts, 0, depth - 1, false))),
                )
            }
        }
    }

    fn program(&mut self) -> Prog {
        let nadts = 2 + self.rng.usize_below(4);
        let arities: Vec<usize> = (0..nadts).map(|_| self.rng.weighted(&[4, 4, 2])).collect();
        // ADTs that may refer to later ADTs and to themselves (recursive, mutually recursive types)
        let recursive: Vec<bool> = (0..nadts).map(|_| self.rng.chance(1, 4)).collect();
        let all: Vec<(usize, usize, bool)> = (0..nadts).map(|i| (i, arities[i], recursive[i])).collect();
        let mut adts = vec![];
        for i in 0..nadts {
            let is_enum = self.rng.chance(1, 3);
            let visible: Vec<(usize, usize, bool)> = if recursive[i] { all.iter().map(|(j, a, r)| (*j, *a, *r || *j >= i)).collect() } else { all[..i].to_vec() };
            let nvar = if is_enum { self.rng.usize_below(4) } else { 1 };
            let mut variants = vec![];
            for _ in 0..nvar {
                let nf = self.rng.weighted(&[2, 4, 3, 1]);
                let d = self.rng.usize_below(3);
                variants.push((0..nf).map(|_| self.ty(&visible, arities[i], d, true)).collect());
            }
            adts.push(AdtDef { is_enum, nparams: arities[i], variants });
        }
        let mut impls = vec![];
        let nimpls = self.rng.weighted(&[1, 2, 3, 3, 2, 1]);
        for _ in 0..nimpls {
            let tr = *self.rng.pick(&[COPY, COPY, CLONE, CLONE, CLONE, SIZED, TUPLE]);
            match self.rng.weighted(&[5, 6, 2, 2, 1, 1]) {
                0 => impls.push(ImplDef { tr, nparams: 0, self_ty: T::Scalar(self.rng.usize_below(SCALARS.len())), wcs: vec![] }),
                1 => {
                    // impl<P..> Tr for Ak<P..> where some P: Tr'
                    let (i, ar, _) = *self.rng.pick(&all);
                    let concrete = ar > 0 && self.rng.chance(1, 4);
                    let args: Vec<T> = (0..ar).map(|k| if concrete { self.ty(&all, 0, 1, false) } else { T::Param(k) }).collect();
                    let np = if concrete { 0 } else { ar };
                    let mut wcs = vec![];
                    for k in 0..np {
                        if self.rng.chance(2, 3) {
                            let wtr = if self.rng.chance(3, 4) { tr } else { *self.rng.pick(&[COPY, CLONE, SIZED]) };
                            wcs.push((wtr, T::Param(k)));
                        }
                    }
                    if self.rng.chance(1, 6) {
                        // a condition on a concrete or compound type
                        let w = self.ty(&all, np, 1, true);
                        wcs.push((*self.rng.pick(&[COPY, CLONE, SIZED]), w));
                    }
                    impls.push(ImplDef { tr, nparams: np, self_ty: T::Adt(i, args), wcs });
                }
                2 => impls.push(ImplDef { tr, nparams: 1, self_ty: T::Raw(self.rng.chance(1, 2), Box::new(T::Param(0))), wcs: vec![] }),
                3 => impls.push(ImplDef { tr, nparams: 1, self_ty: T::Ref(false, Box::new(T::Param(0))), wcs: vec![] }),
                4 => impls.push(ImplDef { tr: CLONE, nparams: 1, self_ty: T::Param(0), wcs: vec![(COPY, T::Param(0))] }),
                _ => impls.push(ImplDef { tr, nparams: 0, self_ty: self.rng.pick(&[T::Never, T::Str, T::Tuple(vec![])]).clone(), wcs: vec![] }),
            }
        }
        Prog { adts, impls }
    }
}

// ---------------------------------------------------------------------------------------------
// one program
// ---------------------------------------------------------------------------------------------

fn answer(r: &Result<Option<Solution<ChalkIr>>, String>) -> &'static str {
    match r {
        Ok(None) => "no",
        Ok(Some(Solution::Unique(_))) => "yes",
        Ok(Some(Solution::Ambig(_))) => "ambig",
        Err(_) => "panic",
    }
}

fn one_program(ctx: &Ctx, prog: Option<&Prog>, text: &str, goals: &[(usize, Option<T>, String)], out: &mut Out, tags: &str) {
    let (db, program) = match lower_program(text, SolverChoice::slg_default()) {
        Ok(x) => x,
        Err(e) => {
            out.count("program_rejected");
            out.notes.push(format!("program rejected: {} :: {}", e, text));
            return;
        }
    };
    let mut enc = Enc { ctors: BTreeMap::new(), ty_rank: vec![] };
    let (adts, impls) = match enc_program(&program, &mut enc) {
        Some(x) => x,
        None => {
            out.count("program_out_of_fragment");
            return;
        }
    };
    out.count("programs");
    for (tr, t, gtext) in goals {
        let goal = match lower_goal_text(&program, gtext) {
            Ok(g) => g,
            Err(e) => {
                out.count("goal_rejected");
                out.notes.push(format!("goal rejected: {} :: {} ;; {}", e, text, gtext));
                continue;
            }
        };
        let lowered = match goal.data(I) {
            GoalData::DomainGoal(DomainGoal::Holds(WhereClause::Implemented(trf))) => {
                trait_wire(&program, trf.trait_id).and_then(|w| enc.ty(&trf.self_type_parameter(I), 1_000_000).map(|t| (w, t)))
            }
            _ => None,
        };
        let (wtr, wty) = match lowered {
            Some(x) => x,
            None => {
                out.count("goal_out_of_fragment");
                continue;
            }
        };
        let ctors: Vec<Sexp> = enc.ctors.iter().map(|(n, k)| list(vec![atom(n), k.clone()])).collect();
        let req = tagged("builtin", vec![list(ctors), adts.clone(), impls.clone(), atom(wtr), wty, nat(FUEL)]).to_string();
        let peeled = peel(&goal);
        let spec = match (prog, t) {
            (Some(p), Some(t)) => spec_holds(p, *tr, t, &mut vec![], FUEL),
            _ => None,
        };
        match spec {
            Some(true) => out.count(&format!("spec_{}_holds", TRAITS[*tr].2)),
            Some(false) => out.count(&format!("spec_{}_fails", TRAITS[*tr].2)),
            None => out.count("spec_undecided"),
        }
        let input = format!("{} ;; goal {}", text, gtext);
        let mut wide_agrees = true;
        for (name, choice, wide) in [
            ("slg-wide", SolverChoice::slg(WIDE, None), true),
            ("recursive-wide", SolverChoice::recursive(WIDE, 100), true),
            ("slg", SolverChoice::slg_default(), false),
            ("recursive", SolverChoice::recursive_default(), false),
        ] {
            if !ctx.inflight(&format!("{} | {}", name, input)) {
                continue;
            }
            if std::env::var("VERIF_TRACE").is_ok() {
                eprintln!("{} | {}", name, input);
            }
            let r = catch(AssertUnwindSafe(|| {
                let mut solver = choice.into_solver();
                let dbr: &dyn RustIrDatabase<ChalkIr> = &db;
                tls::set_current_program(&program, || solver.solve(dbr, &peeled))
            }));
            let v = answer(&r);
            out.count(&format!("{}_{}", name, v));
            if wide {
                out.case(req.clone(), v.to_string(), true, &format!("{} {} | {}", tags, name, input));
            }
            out.evaluations_extra += 1;
            let ctor = t.as_ref().map(ctor_name).unwrap_or("type");
            let trn = TRAITS[*tr].2;
            match (v, spec) {
                ("panic", _) => out.fail(&format!("{} solver panicked on a closed built-in goal", name), &input, "builtin_solver_panic"),
                ("yes", Some(false)) => {
                    if wide {
                        wide_agrees = false;
                    }
                    out.fail(&format!("{} solver: Unique, but the rules deny {} for this {}", name, TRAITS[*tr].0, ctor), &input, &format!("builtin_{}_{}_wrongly_holds", trn, ctor))
                }
                ("no", Some(true)) => {
                    if wide {
                        wide_agrees = false;
                    }
                    out.fail(&format!("{} solver: no solution, but the rules grant {} for this {}", name, TRAITS[*tr].0, ctor), &input, &format!("builtin_{}_{}_wrongly_fails", trn, ctor))
                }
                ("ambig", Some(_)) => {
                    if !wide && wide_agrees {
                        // the goal exceeds the solver's default size limit and is truncated: the
                        // documented behaviour of a search cut off at max_size, outside the property
                        out.count(&format!("dropped_{}_default_size_limit", name));
                    } else {
                        if wide {
                            wide_agrees = false;
                        }
                        out.fail(
                            &format!("{} solver: Ambiguous on a closed goal the rules decide ({} for this {})", name, TRAITS[*tr].0, ctor),
                            &input,
                            // F36: several derivations of a closed goal whose type mentions a lifetime give answers
                            // that differ only in region constraints; make_solution does not merge them (its FIXME,
                            // rust-lang/rust#21974) and answers Ambiguous
                            &(if name.starts_with("slg") && input.rsplit(";; goal").next().map_or(false, |g| g.contains('\'')) {
                                "slg_closed_goal_ambiguous_by_region_constraints".to_string()
                            } else {
                                format!("builtin_{}_{}_ambiguous", trn, ctor)
                            }),
                        )
                    }
                }
                _ => {}
            }
        }
    }
}

fn one_line(ctx: &Ctx, line: &str, out: &mut Out, tags: &str) {
    // `program text ;; goal T: Trait`
    if let Some((p, g)) = line.split_once(";; goal ") {
        let g = g.trim();
        let tr = TRAITS.iter().position(|(n, _, _)| g.ends_with(&format!(": {}", n))).unwrap_or(0);
        one_program(ctx, None, p.trim(), &[(tr, None, g.to_string())], out, tags);
    }
}

pub fn run(ctx: &Ctx, out: &mut Out) {
    if let Some(f) = &ctx.replay {
        for l in std::fs::read_to_string(f).unwrap_or_default().lines() {
            one_line(ctx, l, out, "replay");
        }
        return;
    }
    if ctx.shard.map_or(true, |(k, _)| k == 0) {
        for l in ctx.corpus_lines() {
            one_line(ctx, &l, out, "corpus");
        }
    }
    let nprog = ctx.budget(1000, 40000);
    for i in 0..nprog {
        if !ctx.mine(i) {
            continue;
        }
        let mut rng = ctx.rng(0, i as u64);
        let mut g = Gen { rng: &mut rng };
        let prog = g.program();
        let all: Vec<(usize, usize, bool)> = prog.adts.iter().enumerate().map(|(i, a)| (i, a.nparams, false)).collect();
        let mut goals = vec![];
        for _ in 0..10 {
            let tr = g.rng.weighted(&[5, 5, 4, 1, 1]);
            let depth = 1 + g.rng.usize_below(4);
            let t = if g.rng.chance(1, 6) {
                // a leaf or a bare ADT: the shallow cases of every rule
                g.ty(&all, 0, 0, true)
            } else {
                g.ty(&all, 0, depth, true)
            };
            out.count(&format!("goal_{}_{}", TRAITS[tr].2, ctor_name(&t)));
            goals.push((tr, Some(t.clone()), format!("{}: {}", ty_text(&t), TRAITS[tr].0)));
        }
        one_program(ctx, Some(&prog), &prog.render(), &goals, out, "gen");
    }
}
