//! C01: every answer of either solver for goals with unknowns is judged by the certified checker
//! `judgeAnswer` (lean/ChalkModel/Contract.lean) on the Horn clauses read off chalk's lowered Program.
use crate::horn::*;
use crate::progen::*;
use crate::solver::*;
use crate::wire::*;
use crate::{Ctx, Out};

pub const FUEL: usize = 10;

pub fn judge_request(horn: &Sexp, sig: &Sexp, hgoal: &Sexp, nvars: usize, slg: bool, ans: Sexp) -> Sexp {
    let (depth, maxc) = if nvars <= 1 { (2, 120) } else { (1, 150) };
    tagged(
        "judge-answer",
        vec![horn.clone(), hgoal.clone(), nat(nvars), nat(FUEL), sig.clone(), nat(depth), nat(maxc), nat(slg as usize), ans],
    )
}

pub fn run(ctx: &Ctx, out: &mut Out) {
    // corpus: `program-text ;; goal-text` lines (known findings first)
    let mut fixed: Vec<(String, String)> = vec![];
    for l in ctx.corpus_lines() {
        if let Some((p, g)) = l.split_once(";;") {
            fixed.push((p.trim().replace(" | ", "\n"), g.trim().to_string()));
        }
    }
    let nprog = ctx.budget(120, 5000);
    let mut work: Vec<(String, Vec<String>, bool)> = fixed.into_iter().map(|(p, g)| { let co = p.contains("#[coinductive]"); (p, vec![g], co) }).collect();
    for i in 0..nprog {
        let mut rng = ctx.rng(0, i as u64);
        // coinductive traits with unknowns can make the recursive solver diverge and abort the
        // process (F12, checked under C09 in a child process): for those programs only SLG is run here
        let coinductive = rng.chance(1, 4);
        let mut pg = ProgGen { rng: &mut rng, cfg: ProgCfg { coinductive, growing: false, ..ProgCfg::default() } };
        let prog = pg.program();
        let goals: Vec<String> = (0..6)
            .map(|k| if k < 4 { goal_text(&pg.exists_goal_from_impl(&prog)) } else { goal_text(&pg.exists_goal(&prog, 2)) })
            .collect();
        work.push((prog.render(), goals, coinductive));
    }
    // ground dependency graphs built around the provisional-result motif (progen::provisional_program):
    // the closed goals of the sequence, and the same with one unknown
    let nprov = ctx.budget(100, 4000);
    for i in 0..nprov {
        let mut rng = ctx.rng(4, i as u64);
        let co = rng.chance(1, 2);
        let (text, _n, mut goals) = provisional_program(&mut rng, co);
        let head = goals[0].clone();
        goals.push(format!("exists<X> {{ not {{ {} }}, X: G }}", head));
        goals.push(format!("exists<X> {{ X: G, {} }}", head));
        work.push((text, goals, co));
    }
    // blanket impls over marker traits: positive cycles through several tables sharing one unknown
    let nbl = ctx.budget(150, 5000);
    for i in 0..nbl {
        let mut rng = ctx.rng(5, i as u64);
        let (text, ex, gr) = blanket_program(&mut rng);
        let mut goals = ex;
        goals.extend(gr.into_iter().take(3));
        work.push((text, goals, false));
    }
    for (widx, (text, goals, coinductive)) in work.into_iter().enumerate() {
        if !ctx.mine(widx) {
            continue;
        }
        let (_db, program) = match lower_program(&text, chalk_integration::SolverChoice::slg_default()) {
            Ok(x) => x,
            Err(e) => {
                out.count("program_rejected");
                out.notes.push(format!("program rejected: {} :: {}", e, text.replace('\n', " ")));
                continue;
            }
        };
        let horn = match program_to_horn(&program) {
            Some(h) => h,
            None => {
                out.count("program_out_of_fragment");
                continue;
            }
        };
        if has_mixed_trait_cycle(&program) {
            // outside the property's fragment ("no mixed cycles")
            out.count("program_with_mixed_cycle_skipped");
            continue;
        }
        let two_growing = crate::ops::fp::growing_wrappers(&text) >= 2;
        let sig = signature(&program);
        out.count("programs");
        for gtext in goals {
            let goal = match lower_goal_text(&program, &gtext) {
                Ok(g) => g,
                Err(e) => {
                    out.count("goal_rejected");
                    out.notes.push(format!("goal rejected: {} :: {}", e, gtext));
                    continue;
                }
            };
            let peeled = peel(&goal);
            let (hgoal, nvars) = match peeled_to_horn(&peeled) {
                Some(x) => x,
                None => {
                    out.count("goal_out_of_fragment");
                    continue;
                }
            };
            for (name, choice) in solver_choices() {
                if name == "recursive" && two_growing {
                    // F34 (C09's): the recursive solver does not return in practice
                    out.count("recursive_skipped_two_growing_impls");
                    continue;
                }
                let _ = coinductive; // (F12 is fixed: the recursive solver now gives up with Ambiguous instead of diverging)
                if !ctx.inflight(&format!("{} | {} | goal {{ {} }}", name, text.replace('\n', " | "), gtext)) {
                    out.count("skipped_crashed_earlier");
                    continue;
                }
                // graph family: a work budget (the SLG solver does not return on some of them, F32)
                let graph = text.contains("impl G for N");
                let budget = if graph { Some(if name == "slg" { 2500 } else { 200_000 }) } else { None };
                let r = solve_fresh_budget(&text, &peeled, choice, budget);
                out.count(&format!("{}_{}", name, answer_kind(&r)));
                let label = format!("{} | {} | goal {{ {} }}", name, text.replace('\n', " | "), gtext);
                match r {
                    Err(site) if site.contains("Negative subgoal had delayed_subgoals") => {
                        out.fail(&format!("{} solver panicked: {}", name, site), &label, "slg_negative_subgoal_delayed_panic")
                    }
                    Err(site) if site == BUDGET_PANIC => out.fail(
                        &format!("{} solver exceeded its work budget", name),
                        &label,
                        &format!("{}_work_budget_exceeded@{}", name, if graph { graph_shape(&text, &gtext) } else { "" }),
                    ),
                    // (the recursive solver's documented behaviour beyond its overflow depth; resource limits are C09's)
                    Err(site) if name == "recursive" && site.contains("overflow depth reached") => out.count("recursive_overflow_panic"),
                    Err(site) => out.fail(&format!("{} solver panicked: {}", name, site), &label, "solver_panic"),
                    Ok(sol) => match answer_to_horn(&sol) {
                        None => out.count("answer_out_of_fragment"),
                        Some(ans) => {
                            let mut req = judge_request(&horn, &sig, &hgoal, nvars, name == "slg", ans);
                            if graph {
                                let shape = graph_shape(&text, &gtext);
                                out.count(&format!("graph_shape_{}", shape));
                                if let Sexp::List(v) = &mut req {
                                    v.push(atom(&format!("{}-{}", name, shape)));
                                }
                            }
                            out.case(req.to_string(), "ACCEPT".to_string(), true, &label);
                        }
                    },
                }
            }
        }
    }
}
