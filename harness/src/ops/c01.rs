//! C01: every answer of either solver for goals with unknowns is judged by the certified checker
//! `judgeAnswer` (lean/ChalkModel/Contract.lean) on the Horn clauses read off chalk's lowered Program.
use crate::horn::*;
use crate::progen::*;
use crate::solver::*;
use crate::wire::*;
use crate::{Ctx, Out};

pub const FUEL: usize = 10;

pub fn judge_request(horn: &Sexp, sig: &Sexp, hgoal: &Sexp, nvars: usize, slg: bool, ans: Sexp) -> Sexp {
    let (depth, maxc) = if nvars <= 1 { (2, 120) } else { (1, 150) };
    tagged(
        "judge-answer",
        vec![horn.clone(), hgoal.clone(), nat(nvars), nat(FUEL), sig.clone(), nat(depth), nat(maxc), nat(slg as usize), ans],
    )
}

pub fn run(ctx: &Ctx, out: &mut Out) {
    // corpus: `program-text ;; goal-text` lines (known findings first)
    let mut fixed: Vec<(String, String)> = vec![];
    for l in ctx.corpus_lines() {
        if let Some((p, g)) = l.split_once(";;") {
            fixed.push((p.trim().replace(" | ", "\n"), g.trim().to_string()));
        }
    }
    let nprog = ctx.budget(120, 5000);
    let mut work: Vec<(String, Vec<String>, bool)> = fixed.into_iter().map(|(p, g)| { let co = p.contains("#[coinductive]"); (p, vec![g], co) }).collect();
    for i in 0..nprog {
        let mut rng = ctx.rng(0, i as u64);
        // coinductive traits with unknowns can make the recursive solver diverge and abort the
        // process (F12, checked under C09 in a child process): for those programs only SLG is run here
        let coinductive = rng.chance(1, 4);
        let mut pg = ProgGen { rng: &mut rng, cfg: ProgCfg { coinductive, ..ProgCfg::default() } };
        let prog = pg.program();
        let goals: Vec<String> = (0..6)
            .map(|k| if k < 4 { goal_text(&pg.exists_goal_from_impl(&prog)) } else { goal_text(&pg.exists_goal(&prog, 2)) })
            .collect();
        work.push((prog.render(), goals, coinductive));
    }
    for (widx, (text, goals, coinductive)) in work.into_iter().enumerate() {
        if !ctx.mine(widx) {
            continue;
        }
        let (_db, program) = match lower_program(&text, chalk_integration::SolverChoice::slg_default()) {
            Ok(x) => x,
            Err(e) => {
                out.count("program_rejected");
                out.notes.push(format!("program rejected: {} :: {}", e, text.replace('\n', " ")));
                continue;
            }
        };
        let horn = match program_to_horn(&program) {
            Some(h) => h,
            None => {
                out.count("program_out_of_fragment");
                continue;
            }
        };
        let sig = signature(&program);
        out.count("programs");
        for gtext in goals {
            let goal = match lower_goal_text(&program, &gtext) {
                Ok(g) => g,
                Err(e) => {
                    out.count("goal_rejected");
                    out.notes.push(format!("goal rejected: {} :: {}", e, gtext));
                    continue;
                }
            };
            let peeled = peel(&goal);
            let (hgoal, nvars) = match peeled_to_horn(&peeled) {
                Some(x) => x,
                None => {
                    out.count("goal_out_of_fragment");
                    continue;
                }
            };
            for (name, choice) in solver_choices() {
                let _ = coinductive; // (F12 is fixed: the recursive solver now gives up with Ambiguous instead of diverging)
                if !ctx.inflight(&format!("{} | {} | goal {{ {} }}", name, text.replace('\n', " | "), gtext)) {
                    out.count("skipped_crashed_earlier");
                    continue;
                }
                let r = solve_fresh(&text, &peeled, choice);
                out.count(&format!("{}_{}", name, answer_kind(&r)));
                let label = format!("{} | {} | goal {{ {} }}", name, text.replace('\n', " | "), gtext);
                match r {
                    Err(site) => out.fail(&format!("{} solver panicked: {}", name, site), &label, "solver_panic"),
                    Ok(sol) => match answer_to_horn(&sol) {
                        None => out.count("answer_out_of_fragment"),
                        Some(ans) => {
                            let req = judge_request(&horn, &sig, &hgoal, nvars, name == "slg", ans);
                            out.case(req.to_string(), "ACCEPT".to_string(), true, &label);
                        }
                    },
                }
            }
        }
    }
}
