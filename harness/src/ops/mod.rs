use crate::{Ctx, Out};

pub mod c01;
pub mod c02;
pub mod c03;
pub mod c04;
pub mod c05;
pub mod c06;
pub mod c07;
pub mod c08;
pub mod c13;
pub mod c16;
pub mod c17;
pub mod c17_ms;
pub mod c18;
pub mod c18_impls;
pub mod c19;
pub mod c20;
pub mod c21;
pub mod c22;
pub mod c22_model;
pub mod c23;
pub mod c24;
pub mod c25;
pub mod c26;
pub mod c27;
pub mod c28;
pub mod unify;
pub mod fp;
pub mod trunc;

/// properties whose harness run is split over child processes (see main.rs `run_sharded`)
pub fn sharded(prop: &str) -> bool {
    matches!(prop, "C01" | "C02" | "C03" | "C04" | "C05" | "C07" | "C13" | "C28" | "C20" | "C08" | "C09" | "C10" | "C11" | "C12")
}

pub fn run(ctx: &Ctx, out: &mut Out) -> bool {
    match ctx.prop.as_str() {
        "C01" => c01::run(ctx, out),
        "C02" => c02::run(ctx, out),
        "C16" => c16::run(ctx, out),
        "C03" => c03::run(ctx, out),
        "C04" => c04::run(ctx, out),
        "C05" => c05::run(ctx, out),
        "C06" => c06::run(ctx, out),
        "C07" => c07::run(ctx, out),
        "C21" => c21::run(ctx, out),
        "C28" => c28::run(ctx, out),
        "C08" => c08::run(ctx, out),
        "C09" => {
            // fp::run replaces `out` by its own thread's output: the size-limit cases come after it
            fp::run(ctx, out);
            trunc::run(ctx, out);
        }
        "C10" | "C11" | "C12" => fp::run(ctx, out),
        "C13" => c13::run(ctx, out),
        "C17" => {
            c17::run(ctx, out);
            if ctx.replay.is_none() {
                c17_ms::run(ctx, out);
            }
        }
        "C18" => c18::run(ctx, out),
        "C19" => c19::run(ctx, out),
        "C20" => c20::run(ctx, out),
        "C22" => c22::run(ctx, out),
        "C23" => c23::run(ctx, out),
        "C24" => c24::run(ctx, out),
        "C25" => c25::run(ctx, out),
        "C26" => c26::run(ctx, out),
        "C27" => c27::run(ctx, out),
        "C14" | "C15" | "C29" => unify::run(ctx, out),
        _ => return false,
    }
    true
}
