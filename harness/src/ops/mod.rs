use crate::{Ctx, Out};

pub mod c25;
pub mod c26;

pub fn run(ctx: &Ctx, out: &mut Out) -> bool {
    match ctx.prop.as_str() {
        "C25" => c25::run(ctx, out),
        "C26" => c26::run(ctx, out),
        _ => return false,
    }
    true
}
