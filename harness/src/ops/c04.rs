//! C04: the SLG and the recursive solver never contradict each other — on generated programs and on
//! every program/goal of the repository's own test suite (extracted at run time), far beyond the
//! Horn fragment: the comparator needs no reference semantics (Props/C04.lean).
use crate::progen::*;
use crate::solver::*;
use crate::suite;
use crate::wire::*;
use crate::{Ctx, Out};
use chalk_integration::interner::ChalkIr;
use chalk_ir::*;
use chalk_solve::{Guidance, Solution};

/// generic first-order encoding of a wire term: heads become function symbols, `^0.i` variables
pub fn sexp_to_tm(s: &Sexp) -> Sexp {
    match s {
        Sexp::Atom(a) if matches!(a.as_str(), "static" | "erased" | "lerror") => list(vec![atom("app"), atom("k:lifetime")]),
        Sexp::Atom(a) => list(vec![atom("app"), atom(&format!("k:{}", a))]),
        Sexp::List(xs) => {
            // lifetimes are equated through region constraints, which the property does not compare:
            // every lifetime is one and the same constant here
            if let Some((t, _)) = s.tagged() {
                if matches!(t, "lbound" | "linfer" | "lph") {
                    return list(vec![atom("app"), atom("k:lifetime")]);
                }
            }
            if let Some((t, [d, i])) = s.tagged() {
                if t == "bound" && d.as_nat() == Some(0) {
                    return tagged("var", vec![i.clone()]);
                }
            }
            if let Some(("const", [_, v])) = s.tagged() {
                if let Some(("cbound", [d, i])) = v.tagged() {
                    if d.as_nat() == Some(0) {
                        return tagged("var", vec![i.clone()]);
                    }
                }
            }
            let mut v = vec![atom("app")];
            match xs.first() {
                Some(Sexp::Atom(h)) => {
                    v.push(atom(&format!("f:{}", h)));
                    v.extend(xs[1..].iter().map(sexp_to_tm));
                }
                _ => {
                    v.push(atom("list"));
                    v.extend(xs.iter().map(sexp_to_tm));
                }
            }
            Sexp::List(v)
        }
    }
}

fn subst_tms(s: &Substitution<ChalkIr>) -> Sexp {
    list(s.iter(I).map(|a| sexp_to_tm(&enc_garg(a))).collect())
}

pub fn answer_generic(r: &Option<Solution<ChalkIr>>) -> Sexp {
    match r {
        None => atom("none"),
        Some(Solution::Unique(c)) => tagged("unique", vec![subst_tms(&c.value.subst)]),
        Some(Solution::Ambig(Guidance::Definite(c))) => tagged("definite", vec![subst_tms(&c.value)]),
        Some(Solution::Ambig(_)) => atom("ambig"),
    }
}

pub fn compare(ctx: &Ctx, out: &mut Out, text: &str, gtext: &str, origin: &str) {
    let (_db, program) = match lower_program(text, chalk_integration::SolverChoice::slg_default()) {
        Ok(x) => x,
        Err(_) => {
            out.count("program_rejected");
            return;
        }
    };
    let goal = match lower_goal_text(&program, gtext) {
        Ok(g) => g,
        Err(_) => {
            out.count("goal_rejected");
            return;
        }
    };
    let peeled = peel(&goal);
    let label = format!("{} | {} | goal {{ {} }}", origin, text.split_whitespace().collect::<Vec<_>>().join(" "), gtext);
    if !ctx.inflight(&label) {
        out.count("skipped_crashed_earlier");
        return;
    }
    // graph family: a work budget (the SLG solver does not return on some of them, F32), and the
    // shape of the cycles the goal reaches refines the classifiers
    let graph = origin == "graph";
    let shape = if graph { graph_shape(text, gtext) } else { "" };
    let budget: Option<u64> = if graph { Some(2500) } else { None };
    let unknowns = peeled.canonical.binders.len(I) > 0;
    let co = text.contains("#[coinductive]") || text.contains("#[auto]");
    let mut answers = vec![];
    for (name, choice) in solver_choices() {
        if name == "recursive" && crate::ops::fp::growing_wrappers(text) >= 2 {
            // F34 (C09's): two growing impls, the recursive solver does not return in practice
            out.count("recursive_skipped_two_growing_impls");
            return;
        }
        if name == "recursive" && text.contains("if not") {
            // F18 (C09): the recursive solver does not return on negative cycles
            out.count("skipped_negative_clauses");
            return;
        }
        let _ = (unknowns, co); // F12 (C09) is fixed: no need to skip coinductive goals with unknowns any more
        let r = solve_fresh_budget(text, &peeled, choice, budget.map(|b| if name == "slg" { b } else { 80 * b }));
        out.count(&format!("{}_{}", name, answer_kind(&r)));
        match r {
            Ok(sol) => answers.push(sol),
            Err(site) => {
                // recursive-solver overflow panics are the documented behaviour beyond its depth limit
                if name == "recursive" && site.contains("overflow depth reached") {
                    out.count("recursive_overflow_panic");
                } else if name == "slg" && site.contains("negative cycle") {
                    // documented behaviour of SLG on non-stratified negation (tests expect this panic)
                    out.count("slg_negative_cycle_panic");
                } else if site.contains("Negative subgoal had delayed_subgoals") {
                    out.fail(&format!("{} solver panicked: {}", name, site), &label, "slg_negative_subgoal_delayed_panic");
                } else if site == BUDGET_PANIC {
                    out.count(&format!("{}_budget_exceeded_{}", name, shape));
                    out.fail(&format!("{} solver exceeded its work budget", name), &label, &format!("{}_work_budget_exceeded@{}", name, shape));
                } else {
                    out.fail(&format!("{} solver panicked: {}", name, site), &label, &format!("{}_panic", name));
                }
                return;
            }
        }
    }
    // A contradiction on a goal with a negated conjunct: is it still there when the negated conjuncts
    // are dropped?  Then the negation plays no part (e.g. F31: SLG's false negative on an atom solved
    // as a sub-goal), and the classifier says so.
    let mut neg_tag = if gtext.contains("not {") { "-neg" } else { "" };
    if graph && !neg_tag.is_empty() && answer_kind(&Ok(answers[0].clone())) != answer_kind(&Ok(answers[1].clone())) {
        // the same goal with its negated conjuncts dropped (a single positive conjunct is doubled, so
        // that it is still solved as a SUB-goal of a conjunction, not as the root)
        let positives: Vec<&str> = gtext.split(", ").map(|c| c.trim()).filter(|c| !c.is_empty() && !c.starts_with("not")).collect();
        if !positives.is_empty() {
            let g2 = if positives.len() == 1 { format!("{}, {}", positives[0], positives[0]) } else { positives.join(", ") };
            if let Ok(g1) = lower_goal_text(&program, &g2) {
                let p1 = peel(&g1);
                let ks: Vec<&'static str> = solver_choices()
                    .into_iter()
                    .map(|(name, choice)| answer_kind(&solve_fresh_budget(text, &p1, choice, budget.map(|b| if name == "slg" { b } else { 80 * b }))))
                    .collect();
                if ks[0] == answer_kind(&Ok(answers[0].clone())) && ks[1] == answer_kind(&Ok(answers[1].clone())) && ks[0] != ks[1] {
                    neg_tag = "";
                    out.count("contradiction_without_the_negated_conjuncts");
                }
            }
        }
    }
    let req = if graph {
        out.count(&format!("graph_shape_{}", shape));
        tagged("compatible", vec![answer_generic(&answers[0]), answer_generic(&answers[1]), atom(&format!(
            "graph-{}{}-slg_{}-rec_{}",
            shape,
            neg_tag,
            answer_kind(&Ok(answers[0].clone())),
            answer_kind(&Ok(answers[1].clone()))
        ))])
    } else {
        tagged("compatible", vec![answer_generic(&answers[0]), answer_generic(&answers[1])])
    };
    let nontrivial = answers[0].is_some() || answers[1].is_some();
    out.case(req.to_string(), "ACCEPT".to_string(), nontrivial, &label);
}

pub fn run(ctx: &Ctx, out: &mut Out) {
    let mut idx = 0usize;
    // 0. corpus lines `program | lines ;; goal ; goal` (minimised past failures, replayed first)
    for l in ctx.corpus_lines() {
        if let Some((p, g)) = l.split_once(";;") {
            idx += 1;
            if !ctx.mine(idx) {
                continue;
            }
            let text = p.trim().replace(" | ", "\n");
            let origin = if text.contains("impl G for N") { "graph" } else { "corpus" };
            for gtext in g.split(';') {
                compare(ctx, out, &text, gtext.trim(), origin);
            }
        }
    }
    // 1. the repository's own programs and goals
    for case in suite::load("/repo/tests/test") {
        for g in &case.goals {
            idx += 1;
            if !ctx.mine(idx) {
                continue;
            }
            out.count("suite_goals");
            compare(ctx, out, &case.program, g, &format!("suite:{}", case.file));
        }
    }
    // 2a. dense dependency graphs over ground atoms (inductive and coinductive), single goals and
    //     goals re-reading a sibling after a cycle head (`Na: G, not { Nb: G }`)
    let ngraph = ctx.budget(150, 6000);
    for i in 0..ngraph {
        idx += 1;
        if !ctx.mine(idx) {
            continue;
        }
        let mut rng = ctx.rng(3, i as u64);
        let co = rng.chance(1, 2);
        let (text, n) = graph_program(&mut rng, co);
        out.count("graph_programs");
        for _ in 0..6 {
            compare(ctx, out, &text, &graph_goal(&mut rng, n), "graph");
        }
    }
    // 2b. provisional-result motif (see progen::provisional_program), inductive and coinductive
    let nprov = ctx.budget(100, 4000);
    for i in 0..nprov {
        idx += 1;
        if !ctx.mine(idx) {
            continue;
        }
        let mut rng = ctx.rng(4, i as u64);
        let co = rng.chance(1, 2);
        let (text, _n, goals) = provisional_program(&mut rng, co);
        out.count("provisional_programs");
        for g in &goals {
            compare(ctx, out, &text, g, "graph");
        }
    }
    // 2c. blanket impls over marker traits: positive cycles through several tables sharing one unknown
    let nbl = ctx.budget(150, 5000);
    for i in 0..nbl {
        idx += 1;
        if !ctx.mine(idx) {
            continue;
        }
        let mut rng = ctx.rng(5, i as u64);
        let (text, ex, gr) = blanket_program(&mut rng);
        out.count("blanket_programs");
        for g in ex.iter().chain(gr.iter()) {
            compare(ctx, out, &text, g, "blanket");
        }
    }
    // 2. generated programs (with and without coinductive traits; ground and existential goals)
    let nprog = ctx.budget(150, 6000);
    for i in 0..nprog {
        idx += 1;
        if !ctx.mine(idx) {
            continue;
        }
        let mut rng = ctx.rng(0, i as u64);
        let coinductive = rng.chance(1, 3);
        let mut pg = ProgGen { rng: &mut rng, cfg: ProgCfg { coinductive, growing: false, ..ProgCfg::default() } };
        let prog = pg.program();
        let text = prog.render();
        out.count("programs");
        for k in 0..6 {
            let g = if k < 2 {
                pg.ground_goal(&prog, 2)
            } else if k < 5 {
                pg.exists_goal_from_impl(&prog)
            } else {
                pg.exists_goal(&prog, 2)
            };
            // the recursive solver diverges on coinductive goals with unknowns (F12, see C09)
            compare(ctx, out, &text, &goal_text(&g), "gen");
        }
    }
}
