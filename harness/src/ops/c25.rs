//! C25: `Shift::{shifted_in_from, shifted_out_to}`, `Subst::apply`, `Binders::substitute`,
//! `Binders::identity_substitution`, folding with a no-op folder — real code vs the Lean model,
//! plus the property's laws evaluated directly on the implementation.
use crate::gen::{heads, Gen, GenCfg};
use crate::wire::*;
use crate::{Ctx, Out};
use chalk_integration::interner::ChalkIr;
use chalk_ir::fold::shift::Shift;
use chalk_ir::fold::{Subst, TypeFoldable, TypeFolder};
use chalk_ir::interner::Interner;
use chalk_ir::*;

#[derive(chalk_derive::FallibleTypeFolder)]
struct Noop<I: Interner>(I);
impl<I: Interner> TypeFolder<I> for Noop<I> {
    fn as_dyn(&mut self) -> &mut dyn TypeFolder<I> {
        self
    }
    fn interner(&self) -> I {
        self.0
    }
}

fn res_ty(r: Result<Result<Ty<ChalkIr>, NoSolution>, String>) -> Sexp {
    match r {
        Ok(Ok(t)) => ok(enc_ty(&t)),
        Ok(Err(NoSolution)) => err_no_solution(),
        Err(site) if site.contains("assertion") => panic_resp("assert_eq binders.len parameters.len"),
        Err(site) => panic_resp(&site),
    }
}

pub fn exec(req: &Sexp, out: &mut Out, tags: &str) {
    let (op, xs) = match req.tagged() {
        Some(x) => x,
        None => return,
    };
    let resp = match (op, xs) {
        ("shift-in", [k, t]) => {
            let (k, t) = (k.as_nat().unwrap(), dec_ty(t).unwrap());
            res_ty(catch(move || Ok(t.shifted_in_from(I, DebruijnIndex::new(k as u32)))))
        }
        ("shift-out", [k, t]) => {
            let (k, t) = (k.as_nat().unwrap(), dec_ty(t).unwrap());
            res_ty(catch(move || t.shifted_out_to(I, DebruijnIndex::new(k as u32))))
        }
        ("shift-in-out", [k, t]) => {
            let (k, t) = (k.as_nat().unwrap(), dec_ty(t).unwrap());
            let t0 = t.clone();
            let r = catch(move || {
                t.shifted_in_from(I, DebruijnIndex::new(k as u32)).shifted_out_to(I, DebruijnIndex::new(k as u32))
            });
            // the law itself, on the implementation
            match &r {
                Ok(Ok(t2)) if *t2 == t0 => {}
                _ => out.fail("shifted_out_to(shifted_in_from(t,k),k) != t", &req.to_string(), "shift_out_in"),
            }
            res_ty(r)
        }
        ("subst", [ps, t]) => {
            let (ps, t) = (dec_args(ps).unwrap(), dec_ty(t).unwrap());
            res_ty(catch(move || Ok(Subst::apply(I, &ps, t))))
        }
        ("subst-wc", [ps, w]) => {
            let (ps, w) = (dec_args(ps).unwrap(), dec_wc(w).unwrap());
            match catch(move || Subst::apply(I, &ps, w)) {
                Ok(w2) => ok(enc_wc(&w2)),
                Err(site) => panic_resp(&site),
            }
        }
        ("substitute", [ks, t, ps]) => {
            let b = Binders::new(dec_kinds(ks).unwrap(), dec_ty(t).unwrap());
            let ps = dec_args(ps).unwrap();
            res_ty(catch(move || Ok(b.substitute(I, &ps))).map_err(|s| {
                if s.contains("assertion") {
                    "assert_eq binders.len parameters.len".to_string()
                } else {
                    s
                }
            }))
        }
        ("identity-subst", [ks]) => {
            let b = Binders::new(dec_kinds(ks).unwrap(), TyKind::<ChalkIr>::Never.intern(I));
            let s = b.identity_substitution(I);
            ok(enc_subst(&s))
        }
        ("subst-identity", [ks, t]) => {
            // law: Binders(kinds, t).substitute(identity_substitution) == t
            let b = Binders::new(dec_kinds(ks).unwrap(), dec_ty(t).unwrap());
            let t0 = b.skip_binders().clone();
            let r = catch(move || {
                let id = b.identity_substitution(I);
                Ok(b.substitute(I, &id))
            });
            match &r {
                Ok(Ok(t2)) if *t2 == t0 => {}
                _ => out.fail("substituting a binder's own variables is not the identity", &req.to_string(), "subst_identity"),
            }
            res_ty(r)
        }
        ("subst-shift-comm", [k, ks, t, ps]) => {
            // law: substitute(σ).shifted_in_from(k) == (Binders(t) shifted by k).substitute(σ shifted by k)
            let k = DebruijnIndex::new(k.as_nat().unwrap() as u32);
            let b = Binders::new(dec_kinds(ks).unwrap(), dec_ty(t).unwrap());
            let ps = dec_args(ps).unwrap();
            let (b2, ps2) = (b.clone(), ps.clone());
            let lhs = catch(move || Ok(b.substitute(I, &ps).shifted_in_from(I, k)));
            let rhs = catch(move || {
                let ps_shifted: Vec<GenericArg<ChalkIr>> = ps2.iter().map(|p| p.clone().shifted_in_from(I, k)).collect();
                Ok(b2.shifted_in_from(I, k).substitute(I, &ps_shifted))
            });
            if lhs != rhs {
                out.fail("substitution does not commute with shifting", &req.to_string(), "subst_shift_comm");
            }
            res_ty(lhs)
        }
        ("fold-noop", [t]) => {
            let t = dec_ty(t).unwrap();
            let t0 = t.clone();
            let r = catch(move || Ok(t.fold_with(&mut Noop(I), DebruijnIndex::INNERMOST)));
            match &r {
                Ok(Ok(t2)) if *t2 == t0 => {}
                _ => out.fail("folding with a no-op folder changed the term", &req.to_string(), "fold_noop"),
            }
            res_ty(r)
        }
        _ => {
            out.count("unknown_op");
            return;
        }
    };
    let rs = resp.to_string();
    let kind = match resp.tagged() {
        Some((k, _)) => k.to_string(),
        None => "?".into(),
    };
    out.count(&format!("{}_{}", op, kind));
    // non-trivial: the operation changed the term or failed
    let nontrivial = match (op, xs) {
        ("shift-in", [_, t]) | ("shift-out", [_, t]) | ("subst", [_, t]) | ("substitute", [_, t, _]) | ("subst-shift-comm", [_, _, t, _]) => {
            rs != ok(t.clone()).to_string()
        }
        ("subst-wc", [_, w]) => rs != ok(w.clone()).to_string(),
        _ => true,
    };
    out.case(req.to_string(), rs, nontrivial, tags);
}

fn canon_req(req: &Sexp) -> Option<Sexp> {
    // re-serialise the request from the decoded chalk-ir values
    let (op, xs) = req.tagged()?;
    Some(match (op, xs) {
        ("shift-in", [k, t]) | ("shift-out", [k, t]) | ("shift-in-out", [k, t]) => {
            tagged(op, vec![k.clone(), enc_ty(&dec_ty(t)?)])
        }
        ("subst", [ps, t]) => tagged(op, vec![enc_args(&dec_args(ps)?), enc_ty(&dec_ty(t)?)]),
        ("subst-wc", [ps, w]) => tagged(op, vec![enc_args(&dec_args(ps)?), enc_wc(&dec_wc(w)?)]),
        ("substitute", [ks, t, ps]) => {
            tagged(op, vec![enc_kinds(&dec_kinds(ks)?), enc_ty(&dec_ty(t)?), enc_args(&dec_args(ps)?)])
        }
        ("identity-subst", [ks]) => tagged(op, vec![enc_kinds(&dec_kinds(ks)?)]),
        ("subst-identity", [ks, t]) => tagged(op, vec![enc_kinds(&dec_kinds(ks)?), enc_ty(&dec_ty(t)?)]),
        ("subst-shift-comm", [k, ks, t, ps]) => {
            tagged(op, vec![k.clone(), enc_kinds(&dec_kinds(ks)?), enc_ty(&dec_ty(t)?), enc_args(&dec_args(ps)?)])
        }
        ("fold-noop", [t]) => tagged(op, vec![enc_ty(&dec_ty(t)?)]),
        _ => return None,
    })
}

/// a parameter list matching `kinds` (well-kinded) or, on the malformed stream, arbitrary
fn params_for(g: &mut Gen, kinds: &[Sexp], depth: usize, malformed: bool) -> Vec<Sexp> {
    let mut ps = vec![];
    for k in kinds {
        if malformed && g.rng.chance(1, 3) {
            ps.push(g.garg(depth, 0));
            continue;
        }
        ps.push(match k {
            Sexp::Atom(_) => tagged("lt", vec![g.lifetime(0)]),
            Sexp::List(xs) if xs[0].as_atom() == Some("kty") => tagged("ty", vec![g.ty(depth, 0)]),
            _ => tagged("ct", vec![g.konst(0)]),
        });
    }
    if malformed && g.rng.chance(1, 3) {
        if g.rng.chance(1, 2) {
            ps.pop();
        } else {
            ps.push(g.garg(depth, 0));
        }
    }
    ps
}

pub fn run(ctx: &Ctx, out: &mut Out) {
    let mut lines = ctx.corpus_lines();
    if let Some(f) = &ctx.replay {
        lines = std::fs::read_to_string(f).unwrap_or_default().lines().map(|s| s.to_string()).collect();
    }
    for l in lines {
        if let Some(r) = parse(&l).and_then(|s| canon_req(&s)) {
            exec(&r, out, "corpus");
        }
    }
    if ctx.replay.is_some() {
        return;
    }
    let n = ctx.budget(4000, 200000);
    let mut hist = std::collections::BTreeMap::new();
    for i in 0..n {
        let mut rng = ctx.rng(0, i as u64);
        let depth = 1 + rng.usize_below(4);
        let malformed = rng.chance(1, 8);
        let mut g = Gen::new(&mut rng, GenCfg { max_depth: depth, ..GenCfg::default() });
        let op = g.rng.weighted(&[3, 3, 3, 4, 1, 3, 1, 2, 3, 3]);
        let req = match op {
            0 => tagged("shift-in", vec![nat(g.rng.usize_below(4)), g.ty(depth, 0)]),
            1 => tagged("shift-out", vec![nat(g.rng.usize_below(3)), g.ty(depth, 0)]),
            2 => tagged("shift-in-out", vec![nat(g.rng.usize_below(4)), g.ty(depth, 0)]),
            3 => {
                // parameters are generated for the kinds the term's innermost variables need
                let kinds = g.kinds(3);
                let t = g.ty(depth, 0);
                let ps = params_for(&mut g, &kinds, 2, malformed);
                tagged("subst", vec![list(ps), t])
            }
            4 => {
                let kinds = g.kinds(3);
                let w = g.wc(depth, 0);
                let ps = params_for(&mut g, &kinds, 2, malformed);
                tagged("subst-wc", vec![list(ps), w])
            }
            5 => {
                let kinds = g.kinds(3);
                let t = g.ty(depth, 0);
                let ps = params_for(&mut g, &kinds, 2, malformed);
                tagged("substitute", vec![list(kinds), t, list(ps)])
            }
            6 => tagged("identity-subst", vec![list(g.kinds(4))]),
            8 => {
                let kinds = g.kinds(3);
                g.cfg.scope_kinds = Some(kinds.clone());
                let t = g.ty(depth, 0);
                g.cfg.scope_kinds = None;
                tagged("subst-identity", vec![list(kinds), t])
            }
            9 => {
                let kinds = g.kinds(3);
                if !malformed {
                    g.cfg.scope_kinds = Some(kinds.clone());
                }
                let t = g.ty(depth, 0);
                g.cfg.scope_kinds = None;
                let ps = params_for(&mut g, &kinds, 2, malformed);
                tagged("subst-shift-comm", vec![nat(g.rng.usize_below(3)), list(kinds), t, list(ps)])
            }
            _ => tagged("fold-noop", vec![g.ty(depth, 0)]),
        };
        heads(&req, &mut hist);
        match canon_req(&req) {
            Some(r) => exec(&r, out, if malformed { "malformed" } else { "gen" }),
            None => out.count("undecodable"),
        }
    }
    for (k, v) in hist {
        out.count_n(&format!("head_{}", k), v);
    }
}
