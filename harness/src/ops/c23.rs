//! C23: the program printed by the recording wrapper `LoggingRustIrDatabase` reproduces the
//! solver's answers.  For every generated program and goal sequence, per solver:
//!   1. every goal is solved through one wrapper (fresh real solver per goal),
//!   2. the wrapper's `Display` text must parse and lower,
//!   3. every goal must lower against it,
//!   4. a fresh solver on the lowered log must give the same answer (compared by the `Display`
//!      of the `Solution`, which prints item *names*, so ids may differ),
//!   5. what the wrapper must additionally record for auto traits (Logging.lean,
//!      `SuppressionFaithful`): for every auto trait and ADT that both appear in the log, the log
//!      contains an explicit impl of that trait for that ADT iff the original program does,
//!   6. for ground goals of the Horn fragment the answer obtained on the ORIGINAL program is
//!      judged by the certified Stage-A evaluator against the Horn clauses of the LOGGED program
//!      (`judge-ground`, expected `ACCEPT`): the log's declarative meaning must carry the answer.
//! Corpus lines: `item | item | ... ;; goal ;; goal ...`.
use crate::horn::*;
use crate::progen::*;
use crate::rng::Rng;
use crate::solver::*;
use crate::wire::*;
use crate::{Ctx, Out};
use chalk_integration::interner::ChalkIr;
use chalk_integration::program::Program;
use chalk_integration::{tls, SolverChoice};
use chalk_ir::*;
use chalk_solve::logging_db::LoggingRustIrDatabase;
use chalk_solve::Solution;
use std::collections::BTreeSet;
use std::sync::Arc;

pub const FUEL: usize = 12;

pub struct Work {
    pub text: String,
    pub goals: Vec<String>,
    /// the recursive solver may diverge on coinductive goals with unknowns (F12)
    pub coinductive: bool,
    pub family: &'static str,
}

pub fn format_solution(mut result: Option<Solution<ChalkIr>>) -> String {
    if let Some(Solution::Unique(solution)) = &mut result {
        let mut sorted = solution.value.constraints.as_slice(I).to_vec();
        sorted.sort_by_key(|c| format!("{:?}", c));
        solution.value.constraints = Constraints::from_iter(I, sorted);
    }
    match result {
        Some(v) => v.display(I).to_string(),
        None => "No possible solution".to_string(),
    }
}

/// names of (auto trait, ADT) pairs for which an explicit (positive or negative) impl exists
fn explicit_auto_impls(p: &Program) -> BTreeSet<(String, String)> {
    let mut s = BTreeSet::new();
    for (_, d) in &p.impl_data {
        let tid = d.trait_id();
        if !p.trait_data[&tid].flags.auto {
            continue;
        }
        if let Some(aid) = d.self_type_adt_id(I) {
            s.insert((p.trait_kinds[&tid].name.to_string(), p.adt_kinds[&aid].name.to_string()));
        }
    }
    s
}

fn auto_trait_names(p: &Program) -> BTreeSet<String> {
    p.trait_data.iter().filter(|(_, d)| d.flags.auto).map(|(id, _)| p.trait_kinds[id].name.to_string()).collect()
}

fn adt_names(p: &Program) -> BTreeSet<String> {
    p.adt_kinds.values().map(|k| k.name.to_string()).collect()
}

/// suppressing impls of the original that the log lacks although it declares both the trait and the ADT
fn missing_suppressors(orig: &Program, logged: &Program) -> Vec<(String, String)> {
    let lo = explicit_auto_impls(logged);
    let lt = auto_trait_names(logged);
    let la = adt_names(logged);
    explicit_auto_impls(orig).into_iter().filter(|(t, a)| lt.contains(t) && la.contains(a) && !lo.contains(&(t.clone(), a.clone()))).collect()
}

fn idents(s: &str) -> Vec<String> {
    let mut v = vec![];
    let mut cur = String::new();
    for c in s.chars() {
        if c.is_ascii_alphanumeric() || c == '_' {
            cur.push(c);
        } else {
            if !cur.is_empty() {
                v.push(std::mem::take(&mut cur));
            }
        }
    }
    if !cur.is_empty() {
        v.push(cur);
    }
    v
}

fn item_names(p: &Program) -> BTreeSet<String> {
    let mut s = adt_names(p);
    s.extend(p.trait_kinds.values().map(|k| k.name.to_string()));
    s.extend(p.fn_def_kinds.values().map(|k| k.name.to_string()));
    s.extend(p.opaque_ty_kinds.values().map(|k| k.name.to_string()));
    s
}

fn has_unknowns(goal: &str) -> bool {
    goal.contains("exists")
}

/// does some permutation of the original program's items (one per line) make the solver give
/// `target`?  Then the difference between original and log is the solver's dependence on
/// declaration order, not missing information.
fn order_explains(text: &str, goal: &str, choice: &SolverChoice, target: &str) -> bool {
    let lines: Vec<&str> = text.lines().filter(|l| !l.trim().is_empty()).collect();
    let idx: Vec<usize> = (0..lines.len()).filter(|i| lines[*i].trim_start().starts_with("impl")).collect();
    if idx.len() < 2 {
        return false;
    }
    let mut rng = Rng::for_case(17, "C23-order", 0, text.len() as u64);
    let mut perm: Vec<usize> = idx.clone();
    for round in 0..200 {
        if round == 0 {
            perm.reverse();
        } else {
            for k in (1..perm.len()).rev() {
                let j = rng.usize_below(k + 1);
                perm.swap(k, j);
            }
        }
        let mut ls: Vec<&str> = lines.clone();
        for (slot, src) in idx.iter().zip(perm.iter()) {
            ls[*slot] = lines[*src];
        }
        let t = ls.join("\n");
        if let Ok((_db, p)) = lower_program(&t, choice.clone()) {
            if let Ok(goal) = lower_goal_text(&p, goal) {
                let peeled = peel(&goal);
                let r = catch(std::panic::AssertUnwindSafe(|| {
                    tls::set_current_program(&p, || {
                        let mut solver = choice.clone().into_solver();
                        format_solution(solver.solve(&*p, &peeled))
                    })
                }));
                if r.as_deref() == Ok(target) {
                    return true;
                }
            }
        }
    }
    false
}

pub fn check_one(out: &mut Out, w: &Work, horn_judge: bool) {
    let (_db, program) = match lower_program(&w.text, SolverChoice::slg_default()) {
        Ok(x) => x,
        Err(e) => {
            out.count("program_rejected");
            out.notes.push(format!("program rejected: {} :: {}", e, w.text.replace('\n', " ")));
            return;
        }
    };
    out.count("programs");
    out.count(&format!("programs_{}", w.family));
    let label0 = format!("{} ;; {}", w.text.replace('\n', " | "), w.goals.join(" ;; "));
    for (sname, choice) in solver_choices() {
        // 1. solve every goal through one wrapper
        let wrapped = LoggingRustIrDatabase::<ChalkIr, Program, Arc<Program>>::new(program.clone());
        let mut first: Vec<(String, String)> = vec![]; // (goal text, answer)
        for g in &w.goals {
            if sname == "recursive" && w.coinductive && has_unknowns(g) {
                out.count("recursive_skipped_coinductive_unknowns");
                continue;
            }
            let goal = match lower_goal_text(&program, g) {
                Ok(x) => x,
                Err(e) => {
                    out.count("goal_rejected");
                    out.notes.push(format!("goal rejected: {} :: {}", e, g));
                    continue;
                }
            };
            let peeled = peel(&goal);
            let r = catch(std::panic::AssertUnwindSafe(|| {
                tls::set_current_program(&program, || {
                    let mut solver = choice.clone().into_solver();
                    format_solution(solver.solve(&wrapped, &peeled))
                })
            }));
            match r {
                Ok(s) => first.push((g.clone(), s)),
                Err(site) => {
                    out.count("original_solver_panicked");
                    out.notes.push(format!("{} panicked on the original program ({}): {} ;; {}", sname, site, w.text.replace('\n', " | "), g));
                }
            }
        }
        if first.is_empty() {
            continue;
        }
        out.evaluations_extra += 1;
        let label = format!("{} | {}", sname, label0);
        let logged_text = match catch(std::panic::AssertUnwindSafe(|| tls::set_current_program(&program, || wrapped.to_string()))) {
            Ok(t) => t,
            Err(site) => {
                out.fail(&format!("printing the logged program panicked: {}", site), &label, "logged_program_print_panic");
                continue;
            }
        };
        // 2. the log must parse and lower
        let (_db2, logged) = match lower_program(&logged_text, choice.clone()) {
            Ok(x) => x,
            Err(e) => {
                out.fail(&format!("the logged program does not lower: {} ;; logged: {}", e, logged_text.replace('\n', " ")), &label, "logged_program_does_not_lower");
                continue;
            }
        };
        out.count_n("logged_items", (logged.adt_data.len() + logged.trait_data.len() + logged.impl_data.len()) as u64);
        out.count_n("original_items", (program.adt_data.len() + program.trait_data.len() + program.impl_data.len()) as u64);
        if logged.impl_data.len() < program.impl_data.len() || logged.adt_data.len() < program.adt_data.len() {
            out.count("log_is_strict_subprogram");
        }
        let horn_orig = if horn_judge { program_to_horn(&program) } else { None };
        // 5. suppression faithfulness (what the wrapper must record for auto traits)
        let missing = missing_suppressors(&program, &logged);
        let horn_logged = if horn_judge { program_to_horn(&logged) } else { None };
        let mut any_diff = false;
        for (g, ans1) in &first {
            out.evaluations_extra += 1;
            // 3. the goal must lower against the log
            let goal2 = match lower_goal_text(&logged, g) {
                Ok(x) => x,
                Err(e) => {
                    let orig_names = item_names(&program);
                    let log_names = item_names(&logged);
                    let lost: Vec<String> = idents(g).into_iter().filter(|n| orig_names.contains(n) && !log_names.contains(n)).collect();
                    let what = format!("goal `{}` does not lower against the logged program ({}); names of the goal missing from the log: {:?}; logged: {}", g, e, lost, logged_text.replace('\n', " "));
                    if !lost.is_empty() {
                        out.fail(&what, &label, "logging_misses_goal_only_type");
                        // secondary comparison: declare the missing items (their original
                        // declarations) and replay the goal; a mismatch here is only noted, the
                        // blame between the missing declaration and the rest of the log is open
                        let extra: Vec<&str> = w
                            .text
                            .lines()
                            .filter(|l| lost.iter().any(|n| l.contains(&format!("struct {} ", n)) || l.contains(&format!("struct {}<", n)) || l.contains(&format!("trait {} ", n)) || l.contains(&format!("trait {}<", n))))
                            .collect();
                        let patched = format!("{}\n{}", logged_text, extra.join("\n"));
                        if let Ok((_db3, logged3)) = lower_program(&patched, choice.clone()) {
                            if let Ok(goal3) = lower_goal_text(&logged3, g) {
                                let peeled3 = peel(&goal3);
                                let r3 = catch(std::panic::AssertUnwindSafe(|| {
                                    tls::set_current_program(&logged3, || {
                                        let mut solver = choice.clone().into_solver();
                                        format_solution(solver.solve(&*logged3, &peeled3))
                                    })
                                }));
                                match r3 {
                                    Ok(a3) if &a3 == ans1 => out.count("answers_equal_after_declaring_goal_only_items"),
                                    Ok(a3) => {
                                        out.count("answers_differ_after_declaring_goal_only_items");
                                        out.notes.push(format!("after declaring the goal-only items the replay answers `{}` instead of `{}`: {} ;; goal {}", a3, ans1, label, g));
                                    }
                                    Err(_) => out.count("replay_panicked_after_declaring_goal_only_items"),
                                }
                            }
                        }
                    } else {
                        out.fail(&what, &label, "logged_program_goal_does_not_lower");
                    }
                    any_diff = true;
                    continue;
                }
            };
            // 4. same answer
            let peeled2 = peel(&goal2);
            let r2 = catch(std::panic::AssertUnwindSafe(|| {
                tls::set_current_program(&logged, || {
                    let mut solver = choice.clone().into_solver();
                    format_solution(solver.solve(&*logged, &peeled2))
                })
            }));
            let kind = if ans1.starts_with("Unique") { "unique" } else if ans1.starts_with("No possible") { "none" } else { "ambig" };
            out.count(&format!("{}_{}", sname, kind));
            match r2 {
                Err(site) => {
                    out.fail(&format!("{} panicked on the logged program: {} ;; goal {} ;; logged: {}", sname, site, g, logged_text.replace('\n', " ")), &label, "logged_program_solver_panic");
                    any_diff = true;
                }
                Ok(ans2) => {
                    if &ans2 != ans1 {
                        any_diff = true;
                        let what = format!("goal `{}`: `{}` on the original program, `{}` on the logged program; logged: {}", g, ans1, ans2, logged_text.replace('\n', " "));
                        if !missing.is_empty() {
                            out.fail(&format!("{}; suppressing explicit auto-trait impls not recorded: {:?}", what, missing), &label, "logging_misses_suppressing_auto_impl");
                        } else if order_explains(&w.text, g, &choice, &ans2) {
                            out.fail(
                                &format!("{}; some permutation of the ORIGINAL program's items gives the log's answer: the solver's answer depends on declaration order (C13: F2 / F13) and the log lists the items in look-up order", what),
                                &label,
                                "log_item_order_changes_answer",
                            );
                        } else {
                            out.fail(&what, &label, "logged_program_answers_differ");
                        }
                    } else {
                        out.count("answers_equal");
                    }
                }
            }
            // 6'. the same answer judged against the model's log: the original program restricted
            //     to the predicates the goal needs (Logging.restrict / needs, theorem restrict_needs)
            if let Some(h) = &horn_orig {
                if !has_unknowns(g) {
                    if let Ok(goal1) = lower_goal_text(&program, g) {
                        if let Some(hg) = goal_to_horn(&goal1, &mut vec![], &mut 0) {
                            let req = tagged("judge-restricted", vec![h.clone(), hg, nat(FUEL), atom(kind)]);
                            out.case(req.to_string(), "ACCEPT".to_string(), true, &format!("{} ;; judged (restricted original) goal {}", label, g));
                        }
                    }
                }
            }
            // 6. certified judgement of the original answer against the logged program's meaning
            if let Some(h) = &horn_logged {
                if !has_unknowns(g) {
                    if let Some(hg) = goal_to_horn(&goal2, &mut vec![], &mut 0) {
                        let req = tagged("judge-ground", vec![h.clone(), hg, nat(FUEL), atom(kind)]);
                        out.case(req.to_string(), "ACCEPT".to_string(), true, &format!("{} ;; judged goal {}", label, g));
                    }
                }
            }
        }
        if !missing.is_empty() && !any_diff {
            out.count("suppressor_missing_but_never_consulted");
        }
        if missing.is_empty() && !explicit_auto_impls(&program).is_empty() {
            out.count("suppression_faithful_logs");
        }
    }
}

// ---------------------------------------------------------------------------------------------
// generators

fn pick_str<'a>(rng: &mut Rng, xs: &[&'a str]) -> &'a str {
    xs[rng.usize_below(xs.len())]
}

/// auto-trait programs: `#[auto] trait Send {}` (optionally a second one), unit structs, generic
/// structs with fields, explicit positive / conditional / negative impls for *instantiations*
/// of the generic structs, an ordinary trait whose impls depend on the auto trait
pub fn auto_program(rng: &mut Rng) -> Work {
    let two = rng.chance(1, 3);
    let autos: Vec<&str> = if two { vec!["Send", "Sync"] } else { vec!["Send"] };
    let mut items: Vec<String> = autos.iter().map(|a| format!("#[auto] trait {} {{}}", a)).collect();
    items.push("trait Other {}".to_string());
    let units = ["A", "B", "C"];
    let nunits = 2 + rng.usize_below(2);
    let gens = ["Foo", "Bar"];
    let ngens = 1 + rng.usize_below(2);
    let ground = |rng: &mut Rng, depth: usize| -> String {
        fn go(rng: &mut Rng, depth: usize, nunits: usize, ngens: usize) -> String {
            if depth == 0 || rng.chance(1, 2) {
                ["A", "B", "C"][rng.usize_below(nunits)].to_string()
            } else if rng.chance(1, 8) {
                "u32".to_string()
            } else {
                format!("{}<{}>", ["Foo", "Bar"][rng.usize_below(ngens)], go(rng, depth - 1, nunits, ngens))
            }
        }
        go(rng, depth, nunits, ngens)
    };
    for u in &units[..nunits] {
        items.push(format!("struct {} {{}}", u));
    }
    for (k, g) in gens[..ngens].iter().enumerate() {
        let nf = rng.usize_below(3);
        let mut fields = vec![];
        for j in 0..nf {
            let t = match rng.weighted(&[4, 2, 2, 1]) {
                0 => "T".to_string(),
                1 => ground(rng, 0),
                2 if k > 0 => format!("{}<T>", gens[0]),
                _ => "u32".to_string(),
            };
            fields.push(format!("f{}: {}", j, t));
        }
        items.push(format!("struct {}<T> {{ {} }}", g, fields.join(", ")));
    }
    // explicit impls of the auto traits
    let nex = rng.usize_below(4);
    for _ in 0..nex {
        let a = pick_str(rng, &autos);
        let neg = rng.chance(1, 3);
        let g = gens[rng.usize_below(ngens)];
        let it = match rng.weighted(&[5, 2, 2]) {
            0 => format!("impl {}{} for {}<{}> {{}}", if neg { "!" } else { "" }, a, g, ground(rng, 1)),
            1 => format!("impl {}{} for {} {{}}", if neg { "!" } else { "" }, a, units[rng.usize_below(nunits)]),
            _ => {
                if neg {
                    format!("impl<T> !{} for {}<T> {{}}", a, g)
                } else {
                    format!("impl<T> {} for {}<T> where T: Other {{}}", a, g)
                }
            }
        };
        items.push(it);
    }
    // ordinary impls
    let nor = rng.usize_below(3);
    for _ in 0..nor {
        let it = match rng.weighted(&[3, 2]) {
            0 => format!("impl Other for {} {{}}", ground(rng, 1)),
            _ => format!("impl<T> Other for {}<T> where T: {} {{}}", gens[rng.usize_below(ngens)], pick_str(rng, &autos)),
        };
        items.push(it);
    }
    let ngoals = 1 + rng.usize_below(4);
    let mut goals = vec![];
    for _ in 0..ngoals {
        let a = pick_str(rng, &autos);
        let g = match rng.weighted(&[6, 3, 2, 2, 2, 1]) {
            0 => format!("{}: {}", ground(rng, 2), a),
            1 => format!("{}: {}, {}: {}", ground(rng, 1), a, ground(rng, 2), a),
            2 => format!("exists<X> {{ {}<X>: {} }}", gens[rng.usize_below(ngens)], a),
            3 => format!("not {{ {}: {} }}", ground(rng, 2), a),
            4 => format!("{}: Other", ground(rng, 2)),
            _ => format!("forall<X> {{ if (X: {}) {{ {}<X>: {} }} }}", a, gens[rng.usize_below(ngens)], a),
        };
        goals.push(g);
    }
    Work { text: items.join("\n"), goals, coinductive: true, family: "auto" }
}

/// associated-type programs (C07 fragment): a trait with `type Item;`, impls with values,
/// projection / normalization goals
pub fn assoc_program(rng: &mut Rng) -> Work {
    let mut items = vec![
        "trait Tr { type Item; }".to_string(),
        "trait Other {}".to_string(),
        "struct A {}".to_string(),
        "struct B {}".to_string(),
        "struct C {}".to_string(),
        "struct V<T> {}".to_string(),
    ];
    let units = ["A", "B", "C"];
    let mut have = vec![];
    for u in units.iter() {
        if rng.chance(2, 3) {
            let v = match rng.weighted(&[3, 2, 1]) {
                0 => units[rng.usize_below(3)].to_string(),
                1 => format!("V<{}>", units[rng.usize_below(3)]),
                _ => "u32".to_string(),
            };
            items.push(format!("impl Tr for {} {{ type Item = {}; }}", u, v));
            have.push(u.to_string());
        }
    }
    match rng.weighted(&[3, 2, 2]) {
        0 => items.push("impl<T> Tr for V<T> where T: Tr { type Item = V<<T as Tr>::Item>; }".to_string()),
        1 => items.push("impl<T> Tr for V<T> { type Item = T; }".to_string()),
        _ => {}
    }
    for u in units.iter() {
        if rng.chance(1, 2) {
            items.push(format!("impl Other for {} {{}}", u));
        }
    }
    if rng.chance(1, 3) {
        items.push("impl<T> Other for V<T> where T: Tr<Item = B> {}".to_string());
    }
    let ty = |rng: &mut Rng| -> String {
        let u = units[rng.usize_below(3)];
        match rng.weighted(&[3, 2, 1]) {
            0 => u.to_string(),
            1 => format!("V<{}>", u),
            _ => format!("V<V<{}>>", u),
        }
    };
    let ngoals = 1 + rng.usize_below(4);
    let mut goals = vec![];
    for _ in 0..ngoals {
        let g = match rng.weighted(&[4, 3, 2, 2, 2]) {
            0 => format!("exists<U> {{ Normalize(<{} as Tr>::Item -> U) }}", ty(rng)),
            1 => format!("exists<U> {{ <{} as Tr>::Item = U }}", ty(rng)),
            2 => format!("<{} as Tr>::Item: Other", ty(rng)),
            3 => format!("{}: Tr<Item = {}>", ty(rng), ty(rng)),
            _ => format!("{}: Other", ty(rng)),
        };
        goals.push(g);
    }
    Work { text: items.join("\n"), goals, coinductive: false, family: "assoc" }
}

pub fn horn_program(rng: &mut Rng) -> Work {
    let coinductive = rng.chance(1, 4);
    let mut pg = ProgGen { rng, cfg: ProgCfg { coinductive, ..ProgCfg::default() } };
    let prog = pg.program();
    let ngoals = 1 + pg.rng.usize_below(4);
    let goals: Vec<String> = (0..ngoals)
        .map(|_| match pg.rng.weighted(&[4, 2, 2]) {
            0 => goal_text(&pg.ground_goal(&prog, 2)),
            1 => goal_text(&pg.exists_goal_from_impl(&prog)),
            _ => goal_text(&pg.exists_goal(&prog, 2)),
        })
        .collect();
    Work { text: prog.render(), goals, coinductive, family: "horn" }
}

fn one_line(l: &str, out: &mut Out, family: &'static str) {
    let l = l.trim();
    if l.is_empty() || l.starts_with('#') {
        return;
    }
    let mut parts = l.split(";;").map(|s| s.trim().to_string());
    let text = parts.next().unwrap_or_default().replace(" | ", "\n");
    let goals: Vec<String> = parts.filter(|g| !g.is_empty()).collect();
    let coinductive = text.contains("#[coinductive]") || text.contains("#[auto]");
    check_one(out, &Work { text, goals, coinductive, family }, true);
}

pub fn run(ctx: &Ctx, out: &mut Out) {
    if let Some(f) = &ctx.replay {
        for l in std::fs::read_to_string(f).unwrap_or_default().lines() {
            one_line(l, out, "replay");
        }
        return;
    }
    for l in ctx.corpus_lines() {
        one_line(&l, out, "corpus");
    }
    let n = ctx.budget(240, 6000);
    for i in 0..n {
        let mut rng = ctx.rng(0, i as u64);
        let w = match i % 4 {
            0 | 1 => auto_program(&mut rng),
            2 => horn_program(&mut rng),
            _ => assoc_program(&mut rng),
        };
        check_one(out, &w, true);
    }
}
