//! C28: every solution either solver returns (unique, ambiguous with guidance, and every answer the
//! SLG solver enumerates) is a well-formed answer for its query: judged by `wfAnswer` in Lean, and
//! actually applied to the query in Rust under catch_unwind.
use crate::progen::*;
use crate::solver::*;
use crate::suite;
use crate::wire::*;
use crate::wire_sol::*;
use crate::{Ctx, Out};
use chalk_integration::db::ChalkDatabase;
use chalk_integration::interner::ChalkIr;
use chalk_ir::*;
use chalk_solve::{Guidance, Solution, SubstitutionResult};

fn check_one(
    out: &mut Out,
    label: &str,
    query: &UCanonical<InEnvironment<Goal<ChalkIr>>>,
    binders: &CanonicalVarKinds<ChalkIr>,
    subst: &Substitution<ChalkIr>,
    kind: &str,
) {
    out.count(&format!("answers_{}", kind));
    // really apply it (the property's last sentence)
    let (q, s) = (query.canonical.value.clone(), subst.clone());
    if let Err(site) = catch(std::panic::AssertUnwindSafe(move || s.apply(q, I))) {
        out.fail(&format!("applying the returned substitution to the query panicked: {}", site), label, "answer_apply_panics");
    }
    // kinds whose types we cannot put on the wire (non-scalar const types) are skipped
    let kinds = match catch(std::panic::AssertUnwindSafe(|| {
        list(query.canonical.binders.iter(I).map(|b| enc_varkind(&b.kind)).collect())
    })) {
        Ok(k) => k,
        Err(_) => return,
    };
    let ans = tagged("canon", vec![enc_binders(binders), enc_subst(subst)]);
    let req = tagged("wf-answer", vec![kinds, nat(query.universes), ans]);
    out.case(req.to_string(), "ACCEPT".to_string(), subst.len(I) > 0, label);
}

pub fn examine(ctx: &Ctx, out: &mut Out, text: &str, gtext: &str, origin: &str) {
    let (_db, program) = match lower_program(text, chalk_integration::SolverChoice::slg_default()) {
        Ok(x) => x,
        Err(_) => return,
    };
    let goal = match lower_goal_text(&program, gtext) {
        Ok(g) => g,
        Err(_) => return,
    };
    let peeled = peel(&goal);
    let label0 = format!("{} | {} | goal {{ {} }}", origin, text.split_whitespace().collect::<Vec<_>>().join(" "), gtext);
    if !ctx.inflight(&label0) {
        return;
    }
    let unknowns = peeled.canonical.binders.len(I) > 0;
    let co = text.contains("#[coinductive]") || text.contains("#[auto]");
    for (name, choice) in solver_choices() {
        let _ = (unknowns, co);
        if name == "recursive" && text.contains("if not") {
            // F12 (coinductive unknowns) / F18 (negative cycles): the recursive solver does not return
            out.count("recursive_skipped_known_divergence");
            continue;
        }
        let label = format!("{} {}", name, label0);
        match solve_fresh(text, &peeled, choice) {
            Ok(Some(Solution::Unique(c))) => check_one(out, &label, &peeled, &c.binders, &c.value.subst, "unique"),
            Ok(Some(Solution::Ambig(Guidance::Definite(c)))) => check_one(out, &label, &peeled, &c.binders, &c.value, "definite"),
            Ok(Some(Solution::Ambig(Guidance::Suggested(c)))) => check_one(out, &label, &peeled, &c.binders, &c.value, "suggested"),
            _ => {}
        }
    }
    // enumerated SLG answers (at most 6); programs with negation in custom clauses can contain
    // negative cycles, on which the SLG engine panics in `solve` and does not return from
    // `solve_multiple` (documented limitation; counted, not enumerated)
    if text.contains("if not") {
        out.count("skipped_enumeration_negative_clauses");
        return;
    }
    let db = ChalkDatabase::with(text, chalk_integration::SolverChoice::slg_default());
    let mut got: Vec<Canonical<ConstrainedSubst<ChalkIr>>> = vec![];
    let q = peeled.clone();
    let mut calls = 0;
    let _ = catch(std::panic::AssertUnwindSafe(|| {
        db.solve_multiple(&q, &mut |r, _more| {
            calls += 1;
            if let SubstitutionResult::Definite(c) | SubstitutionResult::Ambiguous(c) = r {
                got.push(c);
            }
            // (a floundered stream yields `Floundered` for as long as the callback asks)
            calls < 6
        })
    }));
    for c in &got {
        check_one(out, &format!("slg-multiple {}", label0), &peeled, &c.binders, &c.value.subst, "enumerated");
    }
}

pub fn run(ctx: &Ctx, out: &mut Out) {
    let mut idx = 0usize;
    for case in suite::load("/repo/tests/test") {
        for g in &case.goals {
            idx += 1;
            if !ctx.mine(idx) {
                continue;
            }
            examine(ctx, out, &case.program, g, &format!("suite:{}", case.file));
        }
    }
    let nprog = ctx.budget(100, 4000);
    for i in 0..nprog {
        idx += 1;
        if !ctx.mine(idx) {
            continue;
        }
        let mut rng = ctx.rng(0, i as u64);
        let mut pg = ProgGen { rng: &mut rng, cfg: ProgCfg::default() };
        let prog = pg.program();
        let text = prog.render();
        for k in 0..5 {
            let g = if k < 4 { pg.exists_goal_from_impl(&prog) } else { pg.exists_goal(&prog, 2) };
            // nested forall around the unknowns now and then
            let gt = goal_text(&g);
            let gt = if k == 3 { format!("forall<Y> {{ {} }}", gt) } else { gt };
            examine(ctx, out, &text, &gt, "gen");
        }
    }
}
