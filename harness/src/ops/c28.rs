//! C28: every solution either solver returns (unique, ambiguous with guidance, and every answer the
//! SLG solver enumerates) is a well-formed answer for its query: judged by `wfAnswer` in Lean, and
//! actually applied to the query in Rust under catch_unwind.
use crate::progen::*;
use crate::solver::*;
use crate::suite;
use crate::wire::*;
use crate::wire_sol::*;
use crate::{Ctx, Out};
use chalk_integration::db::ChalkDatabase;
use chalk_integration::interner::ChalkIr;
use chalk_ir::*;
use chalk_solve::{Guidance, Solution, SubstitutionResult};

fn check_one(
    out: &mut Out,
    label: &str,
    query: &UCanonical<InEnvironment<Goal<ChalkIr>>>,
    binders: &CanonicalVarKinds<ChalkIr>,
    subst: &Substitution<ChalkIr>,
    kind: &str,
) {
    out.count(&format!("answers_{}", kind));
    // really apply it (the property's last sentence)
    let (q, s) = (query.canonical.value.clone(), subst.clone());
    if let Err(site) = catch(std::panic::AssertUnwindSafe(move || s.apply(q, I))) {
        out.fail(&format!("applying the returned substitution to the query panicked: {}", site), label, "answer_apply_panics");
    }
    // kinds whose types we cannot put on the wire (non-scalar const types) are skipped
    let kinds = match catch(std::panic::AssertUnwindSafe(|| {
        list(query.canonical.binders.iter(I).map(|b| enc_varkind(&b.kind)).collect())
    })) {
        Ok(k) => k,
        Err(_) => return,
    };
    let ans = tagged("canon", vec![enc_binders(binders), enc_subst(subst)]);
    let req = tagged("wf-answer", vec![kinds, nat(query.universes), ans]);
    out.case(req.to_string(), "ACCEPT".to_string(), subst.len(I) > 0, label);
}

pub fn examine(ctx: &Ctx, out: &mut Out, text: &str, gtext: &str, origin: &str) {
    let (_db, program) = match lower_program(text, chalk_integration::SolverChoice::slg_default()) {
        Ok(x) => x,
        Err(_) => return,
    };
    let goal = match lower_goal_text(&program, gtext) {
        Ok(g) => g,
        Err(_) => return,
    };
    let peeled = peel(&goal);
    let label0 = format!("{} | {} | goal {{ {} }}", origin, text.split_whitespace().collect::<Vec<_>>().join(" "), gtext);
    if !ctx.inflight(&label0) {
        return;
    }
    let unknowns = peeled.canonical.binders.len(I) > 0;
    let co = text.contains("#[coinductive]") || text.contains("#[auto]");
    for (name, choice) in solver_choices() {
        let _ = (unknowns, co);
        if name == "recursive" && crate::ops::fp::growing_wrappers(text) >= 2 {
            // F34 (C09's): two growing impls, the recursive solver does not return in practice
            out.count("recursive_skipped_two_growing_impls");
            continue;
        }
        if name == "recursive" && text.contains("if not") {
            // F12 (coinductive unknowns) / F18 (negative cycles): the recursive solver does not return
            out.count("recursive_skipped_known_divergence");
            continue;
        }
        let label = format!("{} {}", name, label0);
        match solve_fresh(text, &peeled, choice) {
            Ok(Some(Solution::Unique(c))) => check_one(out, &label, &peeled, &c.binders, &c.value.subst, "unique"),
            Ok(Some(Solution::Ambig(Guidance::Definite(c)))) => check_one(out, &label, &peeled, &c.binders, &c.value, "definite"),
            Ok(Some(Solution::Ambig(Guidance::Suggested(c)))) => check_one(out, &label, &peeled, &c.binders, &c.value, "suggested"),
            _ => {}
        }
    }
    // enumerated SLG answers (at most 6); programs with negation in custom clauses can contain
    // negative cycles, on which the SLG engine panics in `solve` and does not return from
    // `solve_multiple` (documented limitation; counted, not enumerated)
    if text.contains("if not") {
        out.count("skipped_enumeration_negative_clauses");
        return;
    }
    let db = ChalkDatabase::with(text, chalk_integration::SolverChoice::slg_default());
    let mut got: Vec<Canonical<ConstrainedSubst<ChalkIr>>> = vec![];
    let q = peeled.clone();
    let mut calls = 0;
    let _ = with_default_budgets(|| catch(std::panic::AssertUnwindSafe(|| {
        db.solve_multiple(&q, &mut |r, _more| {
            calls += 1;
            if let SubstitutionResult::Definite(c) | SubstitutionResult::Ambiguous(c) = r {
                got.push(c);
            }
            // (a floundered stream yields `Floundered` for as long as the callback asks)
            calls < 6
        })
    })));
    for c in &got {
        check_one(out, &format!("slg-multiple {}", label0), &peeled, &c.binders, &c.value.subst, "enumerated");
    }
}

/// Program and goals that mix universes: unknowns of every kind (type, const, lifetime) created by the
/// solver under a `forall` that is NOT peeled into the query (it sits below a conjunction) and
/// equated with, or resolved into, unknowns of the query's own universe.
const UNIVERSE_PROGRAM: &str = "trait Foo<U> {}\ntrait Bar {}\ntrait Baz {}\nstruct A {}\nstruct S<const N> {}\nstruct G<Y> {}\nstruct L<'a> {}\n\
impl<const N, X> Foo<X> for S<N> {}\nimpl<const N> Bar for S<N> {}\nimpl<Y, X> Foo<X> for G<Y> {}\nimpl<Y> Bar for G<Y> {}\n\
impl<'a, X> Foo<X> for L<'a> {}\nimpl<'a> Bar for L<'a> {}\nimpl Baz for A {}\nimpl<Y> Baz for G<Y> where Y: Baz {}\n";

struct UScope {
    tys: Vec<String>,
    consts: Vec<String>,
    lts: Vec<String>,
    fresh: usize,
}

fn u_term(rng: &mut crate::rng::Rng, sc: &UScope, depth: usize) -> String {
    let mut opts: Vec<String> = vec!["A".into(), "u32".into()];
    for t in &sc.tys {
        opts.push(t.clone());
        opts.push(t.clone());
    }
    for c in &sc.consts {
        opts.push(format!("S<{}>", c));
        opts.push(format!("[u32; {}]", c));
    }
    for l in &sc.lts {
        opts.push(format!("L<{}>", l));
    }
    if depth > 0 {
        opts.push(format!("G<{}>", u_term(rng, sc, depth - 1)));
        opts.push(format!("G<{}>", u_term(rng, sc, depth - 1)));
    }
    opts[rng.usize_below(opts.len())].clone()
}

fn u_goal(rng: &mut crate::rng::Rng, sc: &mut UScope, depth: usize) -> String {
    let pick = if depth == 0 { rng.weighted(&[5, 4, 0, 0, 0]) } else { rng.weighted(&[3, 3, 3, 4, 5]) };
    match pick {
        0 => {
            // equation between a variable in scope and a term
            if sc.tys.is_empty() {
                return "A: Baz".into();
            }
            let x = sc.tys[rng.usize_below(sc.tys.len())].clone();
            format!("{} = {}", x, u_term(rng, sc, 1))
        }
        1 => {
            let x = u_term(rng, sc, 1);
            match rng.usize_below(3) {
                0 => format!("{}: Foo<{}>", x, u_term(rng, sc, 1)),
                1 => format!("{}: Bar", x),
                _ => format!("{}: Baz", x),
            }
        }
        2 => format!("{}, {}", u_goal(rng, sc, depth - 1), u_goal(rng, sc, depth - 1)),
        3 => {
            sc.fresh += 1;
            let v = format!("U{}", sc.fresh);
            sc.tys.push(v.clone());
            let g = u_goal(rng, sc, depth - 1);
            sc.tys.retain(|t| *t != v);
            format!("forall<{}> {{ {} }}", v, g)
        }
        _ => {
            sc.fresh += 1;
            match rng.weighted(&[4, 4, 2]) {
                0 => {
                    let v = format!("V{}", sc.fresh);
                    sc.tys.push(v.clone());
                    let g = u_goal(rng, sc, depth - 1);
                    sc.tys.retain(|t| *t != v);
                    format!("exists<{}> {{ {} }}", v, g)
                }
                1 => {
                    let v = format!("N{}", sc.fresh);
                    sc.consts.push(v.clone());
                    let g = u_goal(rng, sc, depth - 1);
                    sc.consts.retain(|t| *t != v);
                    format!("exists<const {}> {{ {} }}", v, g)
                }
                _ => {
                    let v = format!("'l{}", sc.fresh);
                    sc.lts.push(v.clone());
                    let g = u_goal(rng, sc, depth - 1);
                    sc.lts.retain(|t| *t != v);
                    format!("exists<{}> {{ {} }}", v, g)
                }
            }
        }
    }
}

/// `exists<T> { T = T, .. }`: the outer unknown lives in the query's universe, what follows is not peeled
fn universe_goal(rng: &mut crate::rng::Rng) -> String {
    let mut sc = UScope { tys: vec!["T".into()], consts: vec![], lts: vec![], fresh: 0 };
    let two = rng.chance(1, 3);
    if two {
        sc.tys.push("T2".into());
    }
    let body = u_goal(rng, &mut sc, 3);
    let head = if rng.chance(1, 2) { "T = T, ".to_string() } else { "T: Bar, ".to_string() };
    format!("exists<T{}> {{ {}{} }}", if two { ", T2" } else { "" }, head, body)
}

pub fn run(ctx: &Ctx, out: &mut Out) {
    let mut idx = 0usize;
    // goals that mix universes (see UNIVERSE_PROGRAM)
    let nuni = ctx.budget(600, 20000);
    for i in 0..nuni {
        idx += 1;
        if !ctx.mine(idx) {
            continue;
        }
        let mut rng = ctx.rng(3, i as u64);
        let g = universe_goal(&mut rng);
        out.count("universe_goals");
        examine(ctx, out, UNIVERSE_PROGRAM, &g, "universes");
    }
    for case in suite::load("/repo/tests/test") {
        for g in &case.goals {
            idx += 1;
            if !ctx.mine(idx) {
                continue;
            }
            examine(ctx, out, &case.program, g, &format!("suite:{}", case.file));
        }
    }
    let nprog = ctx.budget(100, 4000);
    for i in 0..nprog {
        idx += 1;
        if !ctx.mine(idx) {
            continue;
        }
        let mut rng = ctx.rng(0, i as u64);
        let mut pg = ProgGen { rng: &mut rng, cfg: ProgCfg { growing: false, ..ProgCfg::default() } };
        let prog = pg.program();
        let text = prog.render();
        for k in 0..5 {
            let g = if k < 4 { pg.exists_goal_from_impl(&prog) } else { pg.exists_goal(&prog, 2) };
            // nested forall around the unknowns now and then
            let gt = goal_text(&g);
            let gt = if k == 3 { format!("forall<Y> {{ {} }}", gt) } else { gt };
            examine(ctx, out, &text, &gt, "gen");
        }
    }
}
