//! C22 model correspondence: serialisation of the lowered `Program` into the wire format of
//! lean/ChalkModel/OpsDisplay.lean and the tokeniser applied to the real writer's output.
use crate::Out;
use chalk_integration::program::Program;
use std::collections::BTreeMap;
use std::sync::Arc;

/// tokens of `.chalk` text: identifiers/keywords, `'lifetimes`, numbers, `::`, `->`, `...`,
/// and single punctuation characters; white space separates
pub fn tokenize(s: &str) -> Vec<String> {
    let cs: Vec<char> = s.chars().collect();
    let mut v = vec![];
    let mut i = 0;
    let idc = |c: char| c.is_ascii_alphanumeric() || c == '_';
    while i < cs.len() {
        let c = cs[i];
        if c.is_whitespace() {
            i += 1;
        } else if c == '/' && i + 1 < cs.len() && cs[i + 1] == '/' {
            while i < cs.len() && cs[i] != '\n' {
                i += 1;
            }
        } else if idc(c) {
            let st = i;
            while i < cs.len() && idc(cs[i]) {
                i += 1;
            }
            v.push(cs[st..i].iter().collect());
        } else if c == '\'' && i + 1 < cs.len() && idc(cs[i + 1]) {
            let st = i;
            i += 1;
            while i < cs.len() && idc(cs[i]) {
                i += 1;
            }
            v.push(cs[st..i].iter().collect());
        } else if c == ':' && i + 1 < cs.len() && cs[i + 1] == ':' {
            v.push("::".to_string());
            i += 2;
        } else if c == '-' && i + 1 < cs.len() && cs[i + 1] == '>' {
            v.push("->".to_string());
            i += 2;
        } else if c == '.' && i + 2 < cs.len() && cs[i + 1] == '.' && cs[i + 2] == '.' {
            v.push("...".to_string());
            i += 3;
        } else {
            v.push(c.to_string());
            i += 1;
        }
    }
    v
}


use crate::wire::*;
use chalk_integration::interner::{ChalkFnAbi, ChalkIr};
use chalk_ir::*;
use chalk_solve::rust_ir::*;

type R<T> = Result<T, &'static str>;

fn b(x: bool) -> Sexp {
    atom(if x { "1" } else { "0" })
}

struct Ser<'a> {
    p: &'a Program,
    names: BTreeMap<String, String>,
}

impl<'a> Ser<'a> {
    fn adt_key(&mut self, id: AdtId<ChalkIr>) -> R<Sexp> {
        let k = format!("a{}", id.0.index);
        let n = self.p.adt_kinds.get(&id).ok_or("unknown_adt")?.name.to_string();
        self.names.insert(k.clone(), n);
        Ok(atom(&k))
    }
    fn trait_key(&mut self, id: TraitId<ChalkIr>) -> R<Sexp> {
        let k = format!("d{}", id.0.index);
        let n = self.p.trait_kinds.get(&id).ok_or("unknown_trait")?.name.to_string();
        self.names.insert(k.clone(), n);
        Ok(atom(&k))
    }
    fn assoc_key(&mut self, id: AssocTypeId<ChalkIr>) -> R<Sexp> {
        let k = format!("d{}", id.0.index);
        let n = self.p.associated_ty_data.get(&id).ok_or("unknown_assoc_type")?.name.to_string();
        self.names.insert(k.clone(), n);
        Ok(atom(&k))
    }
    fn kinds(&self, ks: &VariableKinds<ChalkIr>) -> R<Sexp> {
        let mut v = vec![];
        for k in ks.iter(I) {
            v.push(match k {
                VariableKind::Ty(TyVariableKind::General) => atom("t"),
                VariableKind::Ty(_) => return Err("int_float_var_kind"),
                VariableKind::Lifetime => atom("l"),
                VariableKind::Const(_) => atom("c"),
            });
        }
        Ok(list(v))
    }
    fn lt(&self, l: &Lifetime<ChalkIr>) -> R<Sexp> {
        Ok(match l.data(I) {
            LifetimeData::BoundVar(bv) => tagged("lb", vec![nat(bv.debruijn.depth() as usize), nat(bv.index)]),
            LifetimeData::Static => atom("static"),
            LifetimeData::Erased => atom("erased"),
            _ => return Err("lifetime_other"),
        })
    }
    fn ct(&self, c: &Const<ChalkIr>) -> R<Sexp> {
        Ok(match &c.data(I).value {
            ConstValue::BoundVar(bv) => tagged("cb", vec![nat(bv.debruijn.depth() as usize), nat(bv.index)]),
            ConstValue::Concrete(v) => tagged("cv", vec![nat(v.interned as usize)]),
            _ => return Err("const_other"),
        })
    }
    fn garg(&mut self, a: &GenericArg<ChalkIr>) -> R<Sexp> {
        Ok(match a.data(I) {
            GenericArgData::Ty(t) => tagged("ty", vec![self.ty(t)?]),
            GenericArgData::Lifetime(l) => tagged("lt", vec![self.lt(l)?]),
            GenericArgData::Const(c) => tagged("ct", vec![self.ct(c)?]),
        })
    }
    fn gargs(&mut self, a: &[GenericArg<ChalkIr>]) -> R<Sexp> {
        let mut v = vec![];
        for x in a {
            v.push(self.garg(x)?);
        }
        Ok(list(v))
    }
    /// (trait key, assoc key, self, trait args, assoc args) of a projection
    fn split(&mut self, pr: &ProjectionTy<ChalkIr>) -> R<(Sexp, Sexp, GenericArg<ChalkIr>, Vec<GenericArg<ChalkIr>>, Vec<GenericArg<ChalkIr>>)> {
        let d = self.p.associated_ty_data.get(&pr.associated_ty_id).ok_or("unknown_assoc_type")?.clone();
        let n = self.p.trait_data.get(&d.trait_id).ok_or("unknown_trait")?.binders.len(I);
        let ps = pr.substitution.as_slice(I);
        if ps.len() < n || n == 0 {
            return Err("projection_arity");
        }
        let tk = self.trait_key(d.trait_id)?;
        let ak = self.assoc_key(pr.associated_ty_id)?;
        Ok((tk, ak, ps[0].clone(), ps[1..n].to_vec(), ps[n..].to_vec()))
    }
    fn is_dyn_self(&self, a: &GenericArg<ChalkIr>) -> bool {
        match a.data(I) {
            GenericArgData::Ty(t) => matches!(t.kind(I), TyKind::BoundVar(bv) if bv.debruijn.depth() == 1 && bv.index == 0),
            _ => false,
        }
    }
    fn dyn_bound(&mut self, q: &QuantifiedWhereClause<ChalkIr>) -> R<Sexp> {
        let ks = self.kinds(&q.binders)?;
        match q.skip_binders() {
            WhereClause::Implemented(tr) => {
                let ps = tr.substitution.as_slice(I);
                if ps.is_empty() || !self.is_dyn_self(&ps[0]) {
                    return Err("dyn_bound_self_type");
                }
                Ok(tagged("tb", vec![ks, self.trait_key(tr.trait_id)?, self.gargs(&ps[1..])?]))
            }
            WhereClause::AliasEq(ae) => match &ae.alias {
                AliasTy::Projection(pr) => {
                    let (tk, ak, s, ta, aa) = self.split(pr)?;
                    if !self.is_dyn_self(&s) {
                        return Err("dyn_bound_self_type");
                    }
                    Ok(tagged("ab", vec![ks, tk, ak, self.gargs(&ta)?, self.gargs(&aa)?, self.ty(&ae.ty)?]))
                }
                _ => Err("opaque_type"),
            },
            _ => Err("dyn_outlives_bound"),
        }
    }
    fn ty(&mut self, t: &Ty<ChalkIr>) -> R<Sexp> {
        Ok(match t.kind(I) {
            TyKind::Adt(id, s) => {
                let mut v = vec![self.adt_key(*id)?];
                for a in s.iter(I) {
                    v.push(self.garg(a)?);
                }
                tagged("adt", v)
            }
            TyKind::Scalar(sc) => tagged("sc", vec![atom(scalar_name(*sc))]),
            TyKind::Tuple(n, s) => {
                let mut v = vec![];
                for a in s.iter(I) {
                    match a.data(I) {
                        GenericArgData::Ty(t) => v.push(self.ty(t)?),
                        _ => return Err("tuple_non_type_arg"),
                    }
                }
                if v.len() != *n {
                    return Err("tuple_arity_mismatch");
                }
                tagged("tup", v)
            }
            TyKind::Ref(m, l, t) => tagged("ref", vec![b(*m == Mutability::Mut), self.lt(l)?, self.ty(t)?]),
            TyKind::Raw(m, t) => tagged("raw", vec![b(*m == Mutability::Mut), self.ty(t)?]),
            TyKind::Slice(t) => tagged("slice", vec![self.ty(t)?]),
            TyKind::Array(t, c) => tagged("arr", vec![self.ty(t)?, self.ct(c)?]),
            TyKind::Function(f) => {
                if f.sig.abi != ChalkFnAbi::Rust || f.sig.safety != Safety::Safe || f.sig.variadic {
                    return Err("fn_pointer_sig");
                }
                let ps = f.substitution.0.as_slice(I);
                let mut v = vec![];
                for a in ps {
                    match a.data(I) {
                        GenericArgData::Ty(t) => v.push(self.ty(t)?),
                        _ => return Err("fn_pointer_non_type_arg"),
                    }
                }
                let ret = v.pop().ok_or("fn_pointer_empty")?;
                tagged("fn", vec![nat(f.num_binders), list(v), ret])
            }
            TyKind::Alias(AliasTy::Projection(pr)) => {
                let (tk, ak, s, ta, aa) = self.split(pr)?;
                let st = match s.data(I) {
                    GenericArgData::Ty(t) => self.ty(t)?,
                    _ => return Err("projection_self_not_type"),
                };
                tagged("proj", vec![tk, ak, st, self.gargs(&ta)?, self.gargs(&aa)?])
            }
            TyKind::Dyn(d) => {
                let mut v = vec![];
                for q in d.bounds.skip_binders().iter(I) {
                    v.push(self.dyn_bound(q)?);
                }
                tagged("dyn", vec![list(v), self.lt(&d.lifetime)?])
            }
            TyKind::Never => atom("never"),
            TyKind::Str => atom("str"),
            TyKind::BoundVar(bv) => tagged("bv", vec![nat(bv.debruijn.depth() as usize), nat(bv.index)]),
            TyKind::Alias(AliasTy::Opaque(_)) | TyKind::OpaqueType(..) => return Err("opaque_type"),
            TyKind::FnDef(..) => return Err("fn_def_type"),
            TyKind::Closure(..) => return Err("closure"),
            TyKind::Coroutine(..) | TyKind::CoroutineWitness(..) => return Err("coroutine"),
            TyKind::Foreign(..) => return Err("foreign_type"),
            TyKind::AssociatedType(..) => return Err("applied_associated_type"),
            _ => return Err("type_other"),
        })
    }
    fn self_ty(&mut self, a: &GenericArg<ChalkIr>) -> R<Sexp> {
        match a.data(I) {
            GenericArgData::Ty(t) => self.ty(t),
            _ => Err("self_not_type"),
        }
    }
    fn qwc(&mut self, q: &QuantifiedWhereClause<ChalkIr>) -> R<Sexp> {
        let ks = self.kinds(&q.binders)?;
        let w = match q.skip_binders() {
            WhereClause::Implemented(tr) => {
                let ps = tr.substitution.as_slice(I);
                if ps.is_empty() {
                    return Err("trait_ref_without_self");
                }
                tagged("impl", vec![self.self_ty(&ps[0])?, self.trait_key(tr.trait_id)?, self.gargs(&ps[1..])?])
            }
            WhereClause::AliasEq(ae) => match &ae.alias {
                AliasTy::Projection(pr) => {
                    let (tk, ak, s, ta, aa) = self.split(pr)?;
                    tagged("aeq", vec![self.self_ty(&s)?, tk, ak, self.gargs(&ta)?, self.gargs(&aa)?, self.ty(&ae.ty)?])
                }
                _ => return Err("opaque_type"),
            },
            WhereClause::LifetimeOutlives(o) => tagged("lo", vec![self.lt(&o.a)?, self.lt(&o.b)?]),
            WhereClause::TypeOutlives(o) => tagged("to", vec![self.ty(&o.ty)?, self.lt(&o.lifetime)?]),
        };
        Ok(tagged("q", vec![ks, w]))
    }
    fn qwcs(&mut self, v: &[QuantifiedWhereClause<ChalkIr>]) -> R<Sexp> {
        let mut o = vec![];
        for q in v {
            o.push(self.qwc(q)?);
        }
        Ok(list(o))
    }
    fn inline_bound(&mut self, q: &QuantifiedInlineBound<ChalkIr>) -> R<Sexp> {
        let ks = self.kinds(&q.binders)?;
        Ok(match q.skip_binders() {
            InlineBound::TraitBound(tb) => tagged("tb", vec![ks, self.trait_key(tb.trait_id)?, self.gargs(&tb.args_no_self)?]),
            InlineBound::AliasEqBound(ab) => tagged(
                "ab",
                vec![ks, self.trait_key(ab.trait_bound.trait_id)?, self.assoc_key(ab.associated_ty_id)?, self.gargs(&ab.trait_bound.args_no_self)?, self.gargs(&ab.parameters)?, self.ty(&ab.value)?],
            ),
        })
    }
    fn adt(&mut self, id: AdtId<ChalkIr>, d: &AdtDatum<ChalkIr>) -> R<Sexp> {
        let repr = self.p.adt_reprs.get(&id).ok_or("no_repr")?.clone();
        let zst = self.p.adt_size_aligns.get(&id).ok_or("no_size_align")?.one_zst();
        let int = match &repr.int {
            None => atom("none"),
            Some(t) => match t.kind(I) {
                TyKind::Scalar(sc) => atom(scalar_name(*sc)),
                _ => return Err("repr_non_scalar"),
            },
        };
        let en = match d.kind {
            AdtKind::Struct => false,
            AdtKind::Enum => true,
            AdtKind::Union => return Err("union"),
        };
        let bd = d.binders.skip_binders();
        let mut vs = vec![];
        for v in &bd.variants {
            let mut fs = vec![];
            for f in &v.fields {
                fs.push(self.ty(f)?);
            }
            vs.push(list(fs));
        }
        Ok(tagged(
            "adt",
            vec![self.adt_key(id)?, b(d.flags.upstream), b(d.flags.fundamental), b(d.flags.phantom_data), b(zst), b(repr.c), b(repr.packed), int, b(en), self.kinds(&d.binders.binders)?, self.qwcs(&bd.where_clauses)?, list(vs)],
        ))
    }
    fn trait_(&mut self, id: TraitId<ChalkIr>, d: &TraitDatum<ChalkIr>) -> R<Sexp> {
        let lang = match d.well_known {
            None => "none",
            Some(w) => lang_word(w),
        };
        let mut assocs = vec![];
        for aid in &d.associated_ty_ids {
            let a = self.p.associated_ty_data.get(aid).ok_or("unknown_assoc_type")?.clone();
            let bd = a.binders.skip_binders();
            let mut bs = vec![];
            for q in &bd.bounds {
                bs.push(self.inline_bound(q)?);
            }
            assocs.push(tagged("assoc", vec![self.assoc_key(*aid)?, self.kinds(&a.binders.binders)?, list(bs), self.qwcs(&bd.where_clauses)?]));
        }
        let f = &d.flags;
        Ok(tagged(
            "trait",
            vec![
                self.trait_key(id)?,
                b(f.auto),
                b(f.marker),
                b(f.upstream),
                b(f.fundamental),
                b(f.non_enumerable),
                b(f.coinductive),
                b(self.p.object_safe_traits.contains(&id)),
                atom(lang),
                self.kinds(&d.binders.binders)?,
                self.qwcs(&d.binders.skip_binders().where_clauses)?,
                list(assocs),
            ],
        ))
    }
    fn impl_(&mut self, d: &ImplDatum<ChalkIr>) -> R<Sexp> {
        let bd = d.binders.skip_binders();
        let ps = bd.trait_ref.substitution.as_slice(I);
        if ps.is_empty() {
            return Err("trait_ref_without_self");
        }
        let mut vals = vec![];
        for vid in &d.associated_ty_value_ids {
            let v = self.p.associated_ty_values.get(vid).ok_or("unknown_assoc_value")?.clone();
            vals.push(tagged("val", vec![self.assoc_key(v.associated_ty_id)?, self.kinds(&v.value.binders)?, self.ty(&v.value.skip_binders().ty)?]));
        }
        Ok(tagged(
            "impl",
            vec![
                b(d.impl_type == ImplType::External),
                self.kinds(&d.binders.binders)?,
                b(d.polarity == Polarity::Negative),
                self.trait_key(bd.trait_ref.trait_id)?,
                self.gargs(&ps[1..])?,
                self.self_ty(&ps[0])?,
                self.qwcs(&bd.where_clauses)?,
                list(vals),
            ],
        ))
    }
}

pub fn scalar_name(s: Scalar) -> &'static str {
    match s {
        Scalar::Bool => "bool",
        Scalar::Char => "char",
        Scalar::Int(i) => match i {
            IntTy::Isize => "isize",
            IntTy::I8 => "i8",
            IntTy::I16 => "i16",
            IntTy::I32 => "i32",
            IntTy::I64 => "i64",
            IntTy::I128 => "i128",
        },
        Scalar::Uint(u) => match u {
            UintTy::Usize => "usize",
            UintTy::U8 => "u8",
            UintTy::U16 => "u16",
            UintTy::U32 => "u32",
            UintTy::U64 => "u64",
            UintTy::U128 => "u128",
        },
        Scalar::Float(f) => match f {
            FloatTy::F16 => "f16",
            FloatTy::F32 => "f32",
            FloatTy::F64 => "f64",
            FloatTy::F128 => "f128",
        },
    }
}

fn lang_word(w: WellKnownTrait) -> &'static str {
    match w {
        WellKnownTrait::Sized => "sized",
        WellKnownTrait::Copy => "copy",
        WellKnownTrait::Clone => "clone",
        WellKnownTrait::Drop => "drop",
        WellKnownTrait::FnOnce => "fn_once",
        WellKnownTrait::FnMut => "fn_mut",
        WellKnownTrait::Fn => "fn",
        WellKnownTrait::AsyncFnOnce => "async_fn_once",
        WellKnownTrait::AsyncFnMut => "async_fn_mut",
        WellKnownTrait::AsyncFn => "async_fn",
        WellKnownTrait::Unsize => "unsize",
        WellKnownTrait::Unpin => "unpin",
        WellKnownTrait::CoerceUnsized => "coerce_unsized",
        WellKnownTrait::DiscriminantKind => "discriminant_kind",
        WellKnownTrait::Coroutine => "coroutine",
        WellKnownTrait::DispatchFromDyn => "dispatch_from_dyn",
        WellKnownTrait::Tuple => "tuple_trait",
        WellKnownTrait::Pointee => "pointee_trait",
        WellKnownTrait::FnPtr => "fn_ptr_trait",
        WellKnownTrait::Future => "future",
    }
}

/// `(names ..) (items ..)` of a lowered program, or the name of the first feature outside the
/// modelled fragment
pub fn serialise(p: &Program) -> Result<(Sexp, Sexp), &'static str> {
    if !p.opaque_ty_data.is_empty() {
        return Err("opaque_type");
    }
    if !p.fn_def_data.is_empty() {
        return Err("fn_def");
    }
    if p.adt_variances.values().any(|vs| vs.iter().any(|v| *v != Variance::Invariant)) {
        // printed as #[variance(..)] by the writer; not part of the model's AdtDatum
        return Err("variance_attr");
    }
    if !p.well_known_assoc_types.is_empty() {
        // printed as #[lang(..)] in front of the associated type; not part of the model
        return Err("lang_assoc_type");
    }
    let mut ser = Ser { p, names: BTreeMap::new() };
    let mut items: Vec<(u32, Sexp)> = vec![];
    for (id, d) in &p.adt_data {
        items.push((id.0.index, ser.adt(*id, d)?));
    }
    for (id, d) in &p.trait_data {
        items.push((id.0.index, ser.trait_(*id, d)?));
    }
    for (id, d) in &p.impl_data {
        items.push((id.0.index, ser.impl_(d)?));
    }
    items.sort_by_key(|(i, _)| *i);
    let mut its = vec![atom("items")];
    its.extend(items.into_iter().map(|(_, s)| s));
    let mut ns = vec![atom("names")];
    for (k, v) in &ser.names {
        ns.push(list(vec![atom(k), atom(v)]));
    }
    Ok((Sexp::List(ns), Sexp::List(its)))
}

pub fn toks_line(text: &str) -> String {
    let mut v = vec!["toks".to_string()];
    v.extend(tokenize(text));
    v.join(" ")
}

/// model correspondence for one program: first and second rendering
pub fn correspond(program: &Arc<Program>, rendered: &str, rendered2: Option<&str>, text: &str, out: &mut Out, hist: &mut BTreeMap<String, u64>) {
    match serialise(program) {
        Err(f) => {
            out.count("unmodelled_programs");
            *hist.entry(format!("unmodelled_features.{}", f)).or_insert(0) += 1;
        }
        Ok((names, items)) => {
            out.count("modelled_programs");
            let tags = text.replace('\n', " | ");
            let nontrivial = rendered.len() > 40;
            out.case(tagged("print", vec![names.clone(), items.clone()]).to_string(), toks_line(rendered), nontrivial, &tags);
            if let Some(r2) = rendered2 {
                out.case(tagged("reprint", vec![names.clone(), items.clone()]).to_string(), toks_line(r2), nontrivial, &tags);
            }
            // every lowered program of the fragment must satisfy the hypotheses of the C22 theorems
            // (WfProgram, Lowered) and, evaluated by the model, their conclusions
            out.case(tagged("check-wf", vec![names, items]).to_string(), "wf 1 lowered 1 roundtrip 1 equiv 1".to_string(), nontrivial, &tags);
        }
    }
}
