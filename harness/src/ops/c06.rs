//! C06: hypotheses (`if`) and the bounds they imply through trait where-clauses (supertraits,
//! bounds on the trait's own parameters; diamonds and cycles), scoping of hypotheses, and
//! interleavings of hypothesised / hypothesis-free goals on ONE solver instance (leakage through
//! caches or tables shows as a rejected answer).
use crate::horn::*;
use crate::rng::Rng;
use crate::solver::*;
use crate::wire::*;
use crate::{Ctx, Out};
use chalk_integration::db::ChalkDatabase;

pub const FUEL: usize = 12;

struct Hier {
    ntraits: usize,
    nparams: Vec<usize>,
    /// per trait: its where-clauses as (subject `Self`/`P0`, trait, argument `S0`/`Self`/`P0`)
    wcs: Vec<Vec<(String, usize, Option<String>)>>,
    nstructs: usize,
    arities: Vec<usize>,
    text: String,
}

fn gen(rng: &mut Rng) -> Hier {
    let nt = 2 + rng.usize_below(4);
    let nparams: Vec<usize> = (0..nt).map(|_| if rng.chance(1, 3) { 1 } else { 0 }).collect();
    let mut all_wcs: Vec<Vec<(String, usize, Option<String>)>> = vec![];
    let ns = 2 + rng.usize_below(2);
    let arities: Vec<usize> = (0..ns).map(|i| if i == 0 { 0 } else { rng.usize_below(2) }).collect();
    let mut s = String::new();
    for (i, a) in arities.iter().enumerate() {
        s.push_str(&format!("struct S{}{} {{}}\n", i, if *a == 1 { "<P0>" } else { "" }));
    }
    for i in 0..nt {
        // where-clauses: supertraits (possibly cyclic / diamond), bounds on the trait's parameter
        let mut wcs = vec![];
        let mut structured = vec![];
        for _ in 0..rng.weighted(&[2, 4, 2]) {
            let j = rng.usize_below(nt);
            let subject = if nparams[i] == 1 && rng.chance(1, 3) { "P0" } else { "Self" };
            // the argument is S0, the subject itself, or the OTHER variable of the trait
            // (`trait T<P0> where P0: T<Self>`: a bound on the trait being declared, at other arguments)
            let other = if subject == "P0" { "Self" } else if nparams[i] == 1 { "P0" } else { "Self" };
            let arg: Option<String> = if nparams[j] == 1 { Some(rng.pick(&["S0", subject, other]).to_string()) } else { None };
            let args = arg.as_ref().map(|a| format!("<{}>", a)).unwrap_or_default();
            wcs.push(format!("{}: T{}{}", subject, j, args));
            structured.push((subject.to_string(), j, arg));
        }
        all_wcs.push(structured);
        s.push_str(&format!(
            "trait T{}{}{} {{}}\n",
            i,
            if nparams[i] == 1 { "<P0>" } else { "" },
            if wcs.is_empty() { String::new() } else { format!(" where {}", wcs.join(", ")) }
        ));
    }
    for _ in 0..rng.usize_below(4) {
        let t = rng.usize_below(nt);
        let targ = if nparams[t] == 1 { "<S0>" } else { "" };
        let i = rng.usize_below(ns);
        if arities[i] == 1 {
            let t2 = rng.usize_below(nt);
            let a2 = if nparams[t2] == 1 { "<S0>" } else { "" };
            s.push_str(&format!("impl<P0> T{}{} for S{}<P0> where P0: T{}{} {{}}\n", t, targ, i, t2, a2));
        } else {
            s.push_str(&format!("impl T{}{} for S{} {{}}\n", t, targ, i));
        }
    }
    Hier { ntraits: nt, nparams, wcs: all_wcs, nstructs: ns, arities, text: s }
}

fn bound(rng: &mut Rng, h: &Hier, subject: &str) -> String {
    let t = rng.usize_below(h.ntraits);
    // the trait's argument: S0, the subject, or one of the two universally quantified variables
    let a = if h.nparams[t] == 1 { format!("<{}>", *rng.pick(&["S0", subject, "X", "Y"])) } else { String::new() };
    format!("{}: T{}{}", subject, t, a)
}

fn goal_pair(rng: &mut Rng, h: &Hier) -> (String, String) {
    // conclusion about X, Y, S0 or about a struct applied to X (hypotheses about X or Y: with a trait
    // parameter the consequence of `X: T<Y>` may be a bound on Y or on S0, e.g. `Y: T<X>`)
    let unary: Vec<usize> = (0..h.nstructs).filter(|i| h.arities[*i] == 1).collect();
    let subject = if !unary.is_empty() && rng.chance(1, 4) {
        format!("S{}<X>", rng.pick(&unary))
    } else {
        rng.pick(&["X", "X", "Y", "S0"]).to_string()
    };
    let mut concl = bound(rng, h, &subject);
    let nh = 1 + rng.usize_below(2);
    let mut hyps: Vec<String> = (0..nh).map(|_| { let sub = *rng.pick(&["X", "X", "Y"]); bound(rng, h, sub) }).collect();
    // half of the pairs are DIRECTED by the program: the hypothesis is an instance `A: Ti<B>` of a trait
    // that has where-clauses and the conclusion is one of them at that instance (followed one step
    // further when the implied trait has where-clauses too), so that real consequences are frequent
    let with_wcs: Vec<usize> = (0..h.ntraits).filter(|i| !h.wcs[*i].is_empty()).collect();
    if !with_wcs.is_empty() && rng.chance(1, 2) {
        let i = *rng.pick(&with_wcs);
        let a = rng.pick(&["X", "Y", "S0"]).to_string();
        let b = rng.pick(&["Y", "X", "S0"]).to_string();
        let inst = |v: &str, a: &str, b: &str| -> String { match v { "Self" => a.to_string(), "P0" => b.to_string(), o => o.to_string() } };
        hyps[0] = format!("{}: T{}{}", a, i, if h.nparams[i] == 1 { format!("<{}>", b) } else { String::new() });
        let (sub, j, arg) = rng.pick(&h.wcs[i]).clone();
        let (mut ca, mut cj, mut cb) = (inst(&sub, &a, &b), j, arg.map(|x| inst(&x, &a, &b)));
        if !h.wcs[cj].is_empty() && rng.chance(1, 3) {
            let (sub2, j2, arg2) = rng.pick(&h.wcs[cj]).clone();
            let b2 = cb.clone().unwrap_or_else(|| "S0".to_string());
            let na = inst(&sub2, &ca, &b2);
            let nb = arg2.map(|x| inst(&x, &ca, &b2));
            ca = na; cj = j2; cb = nb;
        }
        concl = format!("{}: T{}{}", ca, cj, cb.map(|x| format!("<{}>", x)).unwrap_or_default());
    }
    (
        format!("forall<X, Y> {{ if ({}) {{ {} }} }}", hyps.join("; "), concl),
        format!("forall<X, Y> {{ {} }}", concl),
    )
}

pub fn run(ctx: &Ctx, out: &mut Out) {
    let nprog = ctx.budget(150, 5000);
    for i in 0..nprog {
        let mut rng = ctx.rng(0, i as u64);
        let h = gen(&mut rng);
        let text = h.text.clone();
        let (_db, program) = match lower_program(&text, chalk_integration::SolverChoice::slg_default()) {
            Ok(x) => x,
            Err(e) => {
                out.count("program_rejected");
                out.notes.push(format!("program rejected: {} :: {}", e, text.replace('\n', " ")));
                continue;
            }
        };
        let horn = match program_to_horn_env(&program) {
            Some(x) => x,
            None => {
                out.count("program_out_of_fragment");
                continue;
            }
        };
        out.count("programs");
        // an interleaving of hypothesised and hypothesis-free versions of the same conclusions
        let mut goals: Vec<String> = vec![];
        for _ in 0..3 {
            let (with, without) = goal_pair(&mut rng, &h);
            if rng.chance(1, 2) {
                goals.push(with.clone());
                goals.push(without);
                goals.push(with);
            } else {
                goals.push(without.clone());
                goals.push(with);
                goals.push(without);
            }
        }
        let mut lowered = vec![];
        for gtext in &goals {
            let g = match lower_goal_text(&program, gtext) {
                Ok(g) => g,
                Err(e) => {
                    out.count("goal_rejected");
                    out.notes.push(format!("goal rejected: {} :: {}", e, gtext));
                    continue;
                }
            };
            match goal_to_horn(&g, &mut vec![], &mut 0) {
                Some(hg) => lowered.push((gtext.clone(), peel(&g), env_hyps(&hg))),
                None => out.count("goal_out_of_fragment"),
            }
        }
        for (name, choice) in solver_choices() {
            let shared = ChalkDatabase::with(&text, choice);
            let mut dead = false;
            for (k, (gtext, peeled, hgoal)) in lowered.iter().enumerate() {
                for mode in ["shared", "fresh"] {
                    if mode == "shared" && dead {
                        continue;
                    }
                    let r = if mode == "shared" {
                        let q = peeled.clone();
                        catch(std::panic::AssertUnwindSafe(|| shared.solve(&q)))
                    } else {
                        solve_fresh(&text, peeled, choice)
                    };
                    let kind = answer_kind(&r);
                    out.count(&format!("{}_{}_{}", name, mode, kind));
                    let label = format!("{} {} #{} | {} | goal {{ {} }}", name, mode, k, text.replace('\n', " | "), gtext);
                    if let Err(site) = &r {
                        out.fail(&format!("{} solver panicked: {}", name, site), &label, &format!("{}_panic", name));
                        if mode == "shared" {
                            dead = true;
                        }
                        continue;
                    }
                    let req = tagged("judge-ground", vec![horn.clone(), hgoal.clone(), nat(FUEL), atom(kind)]);
                    out.case(req.to_string(), "ACCEPT".to_string(), true, &label);
                }
            }
        }
    }
}
