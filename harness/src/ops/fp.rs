//! Shared code of C09 (termination), C10 (history independence), C11 (interruption) and C12
//! (panics in database callbacks).
//!
//! (i) MODEL correspondence with lean/ChalkModel/FixedPoint.lean.  An abstract instance
//! (alternatives x sub-goals, coinductive flag, ground flag per u-canonical goal) is *read off the
//! real code*: for every goal reachable from the root goals the harness asks chalk for the clauses
//! `solve_from_clauses` would try (custom clauses, `program_clauses_that_could_match`,
//! `program_clauses_for_env`, filtered by `could_match`), instantiates each against the goal with
//! the real `InferenceTable` exactly as `Fulfill::new_with_clause` does and canonicalizes the
//! conditions as `Fulfill::prove` does.  Programs outside the abstraction stated in the header of
//! FixedPoint.lean are refused (counted).  A script of calls (plain solves, `solve_limited` with an
//! oracle, work budgets = injected panics) is then run on ONE real `RecursiveSolver` and on the
//! model; outcome kind, the hook's work counter and the hook-dumped cache are compared exactly
//! after every call.
//!
//! (ii) PROPERTY oracles on the real code (both solvers), see `oracle_c09` .. `oracle_c12`.
use crate::progen::*;
use crate::rng::Rng;
use crate::solver::*;
use crate::wire::*;
use crate::{Ctx, Out};
use chalk_integration::db::ChalkDatabase;
use chalk_integration::interner::ChalkIr;
use chalk_integration::program::Program;
use chalk_integration::SolverChoice;
use chalk_ir::could_match::CouldMatch;
use chalk_ir::*;
use chalk_recursive::{Cache, RecursiveSolver};
use chalk_solve::clauses::program_clauses_that_could_match;
use chalk_solve::coinductive_goal::IsCoinductive;
use chalk_solve::infer::InferenceTable;
use chalk_solve::rust_ir::*;
use chalk_solve::solve::truncate;
use chalk_solve::{RustIrDatabase, Solution, Solver};
use std::cell::Cell;
use std::panic::AssertUnwindSafe;
use std::sync::Arc;

pub type UGoal = UCanonical<InEnvironment<Goal<ChalkIr>>>;
pub type RSol = Fallible<Solution<ChalkIr>>;
pub type Answer = Result<Option<Solution<ChalkIr>>, String>;

pub const WORK_BUDGET: u64 = 50_000;
/// wall-clock limit of one solver call (last resort: the work budget is the reported reason
/// whenever the solver keeps ticking; a call that stops ticking is aborted and reported by the
/// parent process as the case in flight)
pub const CALL_SECONDS: u64 = 240;
/// the SLG engine's steps (iterations of ensure_root_answer) are much heavier than the recursive
/// solver's: clean solves of the generated subjects need < 2000 of them
pub const SLG_WORK_BUDGET: u64 = 6_000;
pub const ROUNDS: usize = 64;

// ------------------------------------------------------------------------------------------------
// abstract instance read off the real clauses
// ------------------------------------------------------------------------------------------------

pub struct Inst {
    pub keys: Vec<UGoal>,
    /// (coinductive, ground, alternatives)
    pub nodes: Vec<(bool, bool, Vec<Vec<usize>>)>,
}

fn is_ground(k: &UGoal) -> bool {
    k.canonical.binders.is_empty(I)
}

/// the alternatives of one goal, as sub-goal keys; Err = outside the abstraction
fn alternatives(db: &dyn RustIrDatabase<ChalkIr>, key: &UGoal, max_size: usize) -> Result<Vec<Vec<UGoal>>, String> {
    let UCanonical { universes, canonical: Canonical { binders, value: InEnvironment { environment, goal } } } = key.clone();
    let dg = match goal.data(I) {
        GoalData::DomainGoal(dg) => dg.clone(),
        _ => return Err("non-domain goal".into()),
    };
    let cgoal = UCanonical { universes, canonical: Canonical { binders, value: InEnvironment { environment, goal: dg.clone() } } };
    let ground = is_ground(key);
    // solve_from_clauses, preamble
    let mut clauses: Vec<ProgramClause<ChalkIr>> = vec![];
    let could_match = |c: &ProgramClause<ChalkIr>| c.could_match(I, db.unification_database(), &dg);
    clauses.extend(db.custom_clauses().into_iter().filter(could_match));
    match program_clauses_that_could_match(db, &cgoal) {
        Ok(cs) => clauses.extend(cs.into_iter().filter(could_match)),
        Err(Floundered) => return Err("floundered".into()),
    }
    let (infer, subst, g) = InferenceTable::from_canonical(I, cgoal.universes, cgoal.canonical.clone());
    clauses.extend(db.program_clauses_for_env(&g.environment).iter(I).cloned().filter(could_match));
    let mut alts = vec![];
    let mut fact_substs: Vec<Canonical<Substitution<ChalkIr>>> = vec![];
    for clause in clauses {
        let ProgramClauseData(implication) = clause.data(I);
        let mut infer = infer.clone();
        // Fulfill::new_with_clause
        let ProgramClauseImplication { consequence, conditions, constraints, priority } =
            infer.instantiate_binders_existentially(I, implication.clone());
        if priority != ClausePriority::High {
            return Err("low priority clause".into());
        }
        if !constraints.is_empty(I) {
            return Err("clause with constraints".into());
        }
        match infer.relate(I, db.unification_database(), &g.environment, Variance::Invariant, &g.goal, &consequence) {
            Err(_) => continue, // fails before any sub-goal is solved: no effect on the context
            Ok(r) => {
                if !r.goals.is_empty() {
                    return Err("unification produced goals".into());
                }
            }
        }
        let mut alt = vec![];
        // Fulfill::push_goal: flatten down to the leaf goals
        let mut leaves: Vec<Goal<ChalkIr>> = vec![];
        let mut todo: Vec<Goal<ChalkIr>> = conditions.as_slice(I).iter().rev().cloned().collect();
        while let Some(c) = todo.pop() {
            match c.data(I) {
                GoalData::DomainGoal(_) => leaves.push(c.clone()),
                GoalData::Quantified(_, sub) if sub.binders.is_empty(I) => todo.push(sub.skip_binders().clone()),
                GoalData::All(gs) => todo.extend(gs.as_slice(I).iter().rev().cloned()),
                _ => return Err("condition outside the abstraction".into()),
            }
        }
        for cond in leaves.iter() {
            let wc = InEnvironment::new(&g.environment, cond.clone());
            if truncate::needs_truncation(I, &mut infer, max_size, &wc) {
                return Err("truncation".into());
            }
            // Fulfill::prove
            let canon = infer.canonicalize(I, wc).quantified;
            let u = InferenceTable::u_canonicalize(I, &canon).quantified;
            alt.push(u);
        }
        let cs = infer.canonicalize(I, subst.clone()).quantified;
        let identity = cs.value.is_identity_subst(I);
        if !alt.is_empty() && !identity {
            return Err("alternative with conditions binds goal variables".into());
        }
        if alt.iter().any(|k| !is_ground(k)) && alt.len() > 1 {
            return Err("non-ground sub-goal next to other sub-goals".into());
        }
        if !ground && alt.is_empty() {
            if identity {
                return Err("trivially true answer to a goal with unknowns".into());
            }
            if fact_substs.contains(&cs) {
                return Err("two alternatives with the same substitution".into());
            }
            fact_substs.push(cs);
        }
        alts.push(alt);
    }
    Ok(alts)
}

/// closure of the root goals under "sub-goal of an alternative"
pub fn explore(db: &dyn RustIrDatabase<ChalkIr>, roots: &[UGoal], max_nodes: usize, max_size: usize) -> Result<Inst, String> {
    let mut keys: Vec<UGoal> = vec![];
    for r in roots {
        if !keys.contains(r) {
            keys.push(r.clone());
        }
    }
    let mut nodes = vec![];
    let mut i = 0;
    while i < keys.len() {
        if keys.len() > max_nodes {
            return Err("too many goals".into());
        }
        let key = keys[i].clone();
        let co = key.is_coinductive(db);
        let ground = is_ground(&key);
        if co && !ground {
            return Err("coinductive goal with unknowns".into());
        }
        let alts = alternatives(db, &key, max_size)?;
        let mut ialts = vec![];
        for alt in alts {
            let mut ia = vec![];
            for k in alt {
                let j = match keys.iter().position(|x| *x == k) {
                    Some(j) => j,
                    None => {
                        keys.push(k);
                        keys.len() - 1
                    }
                };
                ia.push(j);
            }
            ialts.push(ia);
        }
        nodes.push((co, ground, ialts));
        i += 1;
    }
    Ok(Inst { keys, nodes })
}

impl Inst {
    pub fn to_sexp(&self) -> Sexp {
        list(
            self.nodes
                .iter()
                .map(|(co, gr, alts)| {
                    list(vec![nat(*co as usize), nat(*gr as usize), list(alts.iter().map(|a| list(a.iter().map(|k| nat(*k)).collect())).collect())])
                })
                .collect(),
        )
    }
    pub fn has_cycle(&self) -> bool {
        // DFS colouring
        fn go(n: usize, nodes: &[(bool, bool, Vec<Vec<usize>>)], col: &mut Vec<u8>) -> bool {
            col[n] = 1;
            for a in &nodes[n].2 {
                for &m in a {
                    if col[m] == 1 || (col[m] == 0 && go(m, nodes, col)) {
                        return true;
                    }
                }
            }
            col[n] = 2;
            false
        }
        let mut col = vec![0u8; self.nodes.len()];
        (0..self.nodes.len()).any(|n| col[n] == 0 && go(n, &self.nodes, &mut col))
    }
}

// ------------------------------------------------------------------------------------------------
// scripts on one solver instance: the real RecursiveSolver
// ------------------------------------------------------------------------------------------------

#[derive(Clone, Debug)]
pub struct CallSpec {
    pub goal: usize,
    pub oracle: Vec<bool>,
    pub dflt: bool,
    pub budget: Option<u64>,
}

impl CallSpec {
    pub fn plain(goal: usize) -> CallSpec {
        CallSpec { goal, oracle: vec![], dflt: true, budget: None }
    }
    fn to_sexp(&self) -> Sexp {
        list(vec![
            nat(self.goal),
            list(self.oracle.iter().map(|b| nat(*b as usize)).collect()),
            nat(self.dflt as usize),
            match self.budget {
                Some(b) => nat(b as usize),
                None => atom("-"),
            },
        ])
    }
}

pub fn legacy() -> bool {
    std::env::var("VERIF_FP_LEGACY").is_ok()
}

pub fn request(inst: &Inst, caching: bool, overflow: usize, calls: &[CallSpec]) -> Sexp {
    let f = if legacy() { 0 } else { 1 };
    tagged(
        "fp-run",
        vec![
            list(vec![atom("cfg"), nat(overflow), nat(ROUNDS), nat(f), nat(f), nat(f), nat(f)]),
            nat(caching as usize),
            inst.to_sexp(),
            list(calls.iter().map(|c| c.to_sexp()).collect()),
        ],
    )
}

/// the model's site names for the panics of the recursive solver
pub fn recursive_panic_site(msg: &str) -> String {
    if msg.contains("overflow depth reached") {
        "overflow".into()
    } else if msg.contains("verif-work-budget-exceeded") {
        "budget".into()
    } else if msg.contains("self.stack.is_empty()") {
        "stack-not-empty".into()
    } else if msg.contains("called `Result::unwrap()` on an `Err` value: NoSolution") {
        "unwrap-no-solution".into()
    } else if msg.contains("mismatched stack push/pop") {
        "pop-mismatch".into()
    } else {
        msg.chars().map(|c| if c.is_whitespace() || c == '(' || c == ')' { '-' } else { c }).collect()
    }
}

pub fn kind_of(r: &Answer) -> String {
    match r {
        Ok(None) => "none".into(),
        Ok(Some(Solution::Unique(_))) => "unique".into(),
        Ok(Some(Solution::Ambig(_))) => "ambig".into(),
        Err(m) => format!("panic:{}", recursive_panic_site(m)),
    }
}

fn v1(v: &RSol) -> &'static str {
    match v {
        Err(_) => "n",
        Ok(Solution::Unique(_)) => "u",
        Ok(Solution::Ambig(_)) => "a",
    }
}

/// payload text of a caught panic (full text: the classification needs more than 60 characters)
pub fn catch_full<T>(f: impl FnOnce() -> T) -> Result<T, String> {
    std::panic::catch_unwind(AssertUnwindSafe(f)).map_err(|p| {
        if let Some(s) = p.downcast_ref::<&str>() {
            s.to_string()
        } else if let Some(s) = p.downcast_ref::<String>() {
            s.clone()
        } else {
            "non-string-payload".to_string()
        }
    })
}

/// run the script on one real RecursiveSolver; the answer line in the driver's format
pub fn run_script_real(db: &dyn RustIrDatabase<ChalkIr>, inst: &Inst, caching: bool, overflow: usize, max_size: usize, calls: &[CallSpec]) -> (String, Vec<String>) {
    let cache: Cache<UGoal, RSol> = Cache::default();
    let mut solver = RecursiveSolver::new(overflow, max_size, if caching { Some(cache.clone()) } else { None });
    let mut parts = vec![];
    let mut kinds = vec![];
    for c in calls {
        chalk_recursive::verif::reset_work(c.budget);
        let idx = Cell::new(0usize);
        let cb = || {
            let i = idx.get();
            idx.set(i + 1);
            c.oracle.get(i).copied().unwrap_or(c.dflt)
        };
        let r: Answer = catch_full(|| solver.solve_limited(db, &inst.keys[c.goal], &cb));
        let work = chalk_recursive::verif::work();
        chalk_recursive::verif::reset_work(None);
        let mut dump: Vec<(usize, &'static str)> = vec![];
        if caching {
            for (k, v) in cache.verif_entries() {
                let j = inst.keys.iter().position(|x| *x == k).unwrap_or(usize::MAX);
                dump.push((j, v1(&v)));
            }
            dump.sort();
        }
        let kind = kind_of(&r);
        parts.push(format!(
            "({} {} ({}))",
            kind,
            work,
            dump.iter().map(|(k, v)| format!("({} {})", if *k == usize::MAX { "?".to_string() } else { k.to_string() }, v)).collect::<Vec<_>>().join(" ")
        ));
        kinds.push(kind);
    }
    (format!("({})", parts.join(" ")), kinds)
}

// ------------------------------------------------------------------------------------------------
// program families
// ------------------------------------------------------------------------------------------------

/// ground dependency graph: node k = `struct Nk {}`, kind inductive (`Tind`) or coinductive (`Tco`),
/// alternative = `impl T for Nk where Ni: T', Nj: T'' {}`
#[derive(Clone, Debug)]
pub struct GraphProg {
    pub co: Vec<bool>,
    pub alts: Vec<Vec<Vec<usize>>>,
    pub shape: &'static str,
}

impl GraphProg {
    pub fn n(&self) -> usize {
        self.co.len()
    }
    fn tr(&self, k: usize) -> &'static str {
        if self.co[k] {
            "Tco"
        } else {
            "Tind"
        }
    }
    pub fn render(&self) -> String {
        let mut items = vec!["trait Tind {}".to_string(), "#[coinductive] trait Tco {}".to_string()];
        for k in 0..self.n() {
            items.push(format!("struct N{} {{}}", k));
        }
        for k in 0..self.n() {
            for a in &self.alts[k] {
                let wc = if a.is_empty() { String::new() } else { format!(" where {}", a.iter().map(|j| format!("N{}: {}", j, self.tr(*j))).collect::<Vec<_>>().join(", ")) };
                items.push(format!("impl {} for N{}{} {{}}", self.tr(k), k, wc));
            }
        }
        items.join("\n")
    }
    pub fn goal(&self, k: usize) -> String {
        format!("N{}: {}", k, self.tr(k))
    }
}

pub fn gen_graph(rng: &mut Rng) -> GraphProg {
    let shape = rng.weighted(&[3, 3, 4, 4, 4, 4, 8, 3]);
    let kind = rng.weighted(&[5, 3, 2]); // all inductive / all coinductive / mixed
    let mk_co = |rng: &mut Rng, n: usize| -> Vec<bool> {
        (0..n)
            .map(|_| match kind {
                0 => false,
                1 => true,
                _ => rng.chance(1, 2),
            })
            .collect()
    };
    match shape {
        // chain with / without base case
        0 => {
            let n = 1 + rng.usize_below(8);
            let mut alts: Vec<Vec<Vec<usize>>> = (0..n).map(|k| if k + 1 < n { vec![vec![k + 1]] } else { vec![] }).collect();
            if rng.chance(2, 3) {
                alts[n - 1] = vec![vec![]];
            }
            GraphProg { co: mk_co(rng, n), alts, shape: "chain" }
        }
        // diamond(s): k -> k+1, k+2 ; both -> k+3
        1 => {
            let layers = 1 + rng.usize_below(3);
            let n = layers * 3 + 1;
            let mut alts: Vec<Vec<Vec<usize>>> = vec![vec![]; n];
            for l in 0..layers {
                let b = l * 3;
                alts[b] = if rng.chance(1, 2) { vec![vec![b + 1, b + 2]] } else { vec![vec![b + 1], vec![b + 2]] };
                alts[b + 1] = vec![vec![b + 3]];
                alts[b + 2] = vec![vec![b + 3]];
            }
            if rng.chance(3, 4) {
                alts[n - 1] = vec![vec![]];
            }
            GraphProg { co: mk_co(rng, n), alts, shape: "diamond" }
        }
        // one cycle of length 1..5, with or without a base case somewhere, entered through a tail
        2 | 3 => {
            let len = 1 + rng.usize_below(5);
            let tail = rng.usize_below(3);
            let n = len + tail;
            let mut alts: Vec<Vec<Vec<usize>>> = vec![vec![]; n];
            for t in 0..tail {
                alts[t] = vec![vec![t + 1]];
            }
            for c in 0..len {
                alts[tail + c] = vec![vec![tail + (c + 1) % len]];
            }
            if shape == 3 {
                let b = tail + rng.usize_below(len);
                if rng.chance(1, 2) {
                    alts[b].push(vec![]);
                } else {
                    alts[b].insert(0, vec![]);
                }
            }
            GraphProg { co: mk_co(rng, n), alts, shape: if shape == 3 { "cycle_base" } else { "cycle" } }
        }
        // nested SCCs: outer cycle 0 -> 1 -> .. -> 0 whose members also run inner cycles
        4 | 5 => {
            let outer = 2 + rng.usize_below(3);
            let mut alts: Vec<Vec<Vec<usize>>> = vec![];
            for c in 0..outer {
                alts.push(vec![vec![(c + 1) % outer]]);
            }
            let mut n = outer;
            for c in 0..outer {
                if rng.chance(2, 3) && n + 2 <= 12 {
                    // inner cycle n -> n+1 -> n (optionally back into the outer cycle)
                    alts.push(vec![vec![n + 1]]);
                    alts.push(vec![vec![n]]);
                    if rng.chance(1, 2) {
                        alts[n + 1].push(vec![c]);
                    }
                    if rng.chance(1, 2) {
                        alts[n].push(vec![]);
                    }
                    if rng.chance(1, 2) {
                        alts[c][0].push(n);
                    } else {
                        alts[c].push(vec![n]);
                    }
                    n += 2;
                }
            }
            if shape == 5 {
                let b = rng.usize_below(n);
                alts[b].push(vec![]);
            }
            GraphProg { co: mk_co(rng, n), alts, shape: "nested_scc" }
        }
        // random graph
        6 => {
            let n = 2 + rng.usize_below(11);
            let alts: Vec<Vec<Vec<usize>>> = (0..n)
                .map(|_| {
                    let na = rng.weighted(&[2, 6, 4, 1]);
                    (0..na)
                        .map(|_| {
                            let ns = rng.weighted(&[3, 6, 4, 1]);
                            (0..ns).map(|_| rng.usize_below(n)).collect()
                        })
                        .collect()
                })
                .collect();
            GraphProg { co: mk_co(rng, n), alts, shape: "random" }
        }
        // two SCCs in sequence with a shared node
        _ => {
            let n = 6;
            let mut alts: Vec<Vec<Vec<usize>>> = vec![vec![vec![1]], vec![vec![2]], vec![vec![0], vec![3]], vec![vec![4]], vec![vec![5]], vec![vec![3]]];
            if rng.chance(1, 2) {
                alts[5].push(vec![]);
            }
            if rng.chance(1, 2) {
                alts[1].push(vec![5]);
            }
            GraphProg { co: mk_co(rng, n), alts, shape: "two_sccs" }
        }
    }
}

/// goals with unknowns (the F10 family): inductive traits Q0.., blanket impls
/// `impl<X> Qi for X where X: Qj {}`, and per trait either no or at least two facts
/// `impl Qi for Fi_j {}` over pairwise different structs; goals `exists<X> { X: Qi }`.
#[derive(Clone, Debug)]
pub struct UnkProg {
    pub edges: Vec<Vec<usize>>,
    pub facts: Vec<usize>,
    pub facts_first: Vec<bool>,
}

impl UnkProg {
    pub fn render(&self) -> String {
        let m = self.edges.len();
        let mut items = vec![];
        for i in 0..m {
            items.push(format!("trait Q{} {{}}", i));
            for j in 0..self.facts[i] {
                items.push(format!("struct F{}_{} {{}}", i, j));
            }
        }
        for i in 0..m {
            let blanket: Vec<String> = self.edges[i].iter().map(|j| format!("impl<X> Q{} for X where X: Q{} {{}}", i, j)).collect();
            let facts: Vec<String> = (0..self.facts[i]).map(|j| format!("impl Q{} for F{}_{} {{}}", i, i, j)).collect();
            if self.facts_first[i] {
                items.extend(facts);
                items.extend(blanket);
            } else {
                items.extend(blanket);
                items.extend(facts);
            }
        }
        items.join("\n")
    }
    pub fn goals(&self) -> Vec<String> {
        (0..self.edges.len()).map(|i| format!("exists<X> {{ X: Q{} }}", i)).collect()
    }
}

pub fn gen_unk(rng: &mut Rng) -> UnkProg {
    let m = 1 + rng.usize_below(4);
    let edges = (0..m)
        .map(|_| {
            let k = rng.weighted(&[2, 5, 2]);
            let mut e: Vec<usize> = (0..k).map(|_| rng.usize_below(m)).collect();
            e.dedup();
            e
        })
        .collect();
    let facts = (0..m).map(|_| if rng.chance(1, 2) { 0 } else { 2 + rng.usize_below(2) }).collect();
    let facts_first = (0..m).map(|_| rng.chance(1, 2)).collect();
    UnkProg { edges, facts, facts_first }
}

// ------------------------------------------------------------------------------------------------
// (i) model correspondence
// ------------------------------------------------------------------------------------------------

pub struct Lowered {
    pub text: String,
    pub db: ChalkDatabase,
    pub program: Arc<Program>,
    pub goals: Vec<(String, UGoal)>,
}

pub fn lower_all(text: &str, goal_texts: &[String]) -> Result<Lowered, String> {
    let (db, program) = lower_program(text, SolverChoice::recursive_default())?;
    let mut goals = vec![];
    for g in goal_texts {
        let goal = lower_goal_text(&program, g)?;
        goals.push((g.clone(), peel(&goal)));
    }
    Ok(Lowered { text: text.to_string(), db, program, goals })
}

/// what a property emphasises in the scripts of the model correspondence
#[derive(Clone, Copy, PartialEq)]
pub enum Focus {
    Work,      // C09: reduced overflow depths, work counters
    History,   // C10: sequences of plain solves, cache on / off
    Interrupt, // C11: should_continue oracles
    Panic,     // C12: budget panics inside a solve followed by further solves
}

fn monotone_only() -> bool {
    std::env::var("VERIF_FP_NONMONOTONE").is_err()
}

/// scripts for one instance with `nroots` root goals (goal indices 0..nroots)
fn scripts(rng: &mut Rng, focus: Focus, nroots: usize, clean_work: &dyn Fn(usize, bool) -> (u64, usize)) -> Vec<(bool, usize, Vec<CallSpec>)> {
    let mut v: Vec<(bool, usize, Vec<CallSpec>)> = vec![];
    let pick = |rng: &mut Rng| rng.usize_below(nroots);
    // every property: one history with the cache on and the same with the cache off
    let len = 1 + rng.usize_below(5);
    let hist: Vec<CallSpec> = (0..len).map(|_| CallSpec::plain(pick(rng))).collect();
    v.push((true, 100, hist.clone()));
    v.push((false, 100, hist));
    match focus {
        Focus::History => {
            for _ in 0..3 {
                let len = 2 + rng.usize_below(5);
                let hist: Vec<CallSpec> = (0..len).map(|_| CallSpec::plain(pick(rng))).collect();
                v.push((true, 100, hist));
            }
        }
        Focus::Work => {
            for od in [1usize, 2, 3, 5] {
                let hist: Vec<CallSpec> = (0..2).map(|_| CallSpec::plain(pick(rng))).collect();
                v.push((rng.chance(1, 2), od, hist));
            }
        }
        Focus::Interrupt => {
            for caching in [true, false] {
                let g = pick(rng);
                let (_, ncalls) = clean_work(g, caching);
                // false exactly at the k-th call / from the k-th call on, k = 0 .. calls+1
                for k in 0..=(ncalls + 1).min(12) {
                    let only_kth = !monotone_only() && rng.chance(1, 2);
                    let mut oracle = vec![true; k];
                    oracle.push(false);
                    let first = CallSpec { goal: g, oracle, dflt: only_kth, budget: None };
                    let second = CallSpec { goal: g, oracle: vec![true, false], dflt: false, budget: None };
                    v.push((caching, 100, vec![first, second, CallSpec::plain(g), CallSpec::plain(pick(rng))]));
                }
                let always = CallSpec { goal: g, oracle: vec![], dflt: false, budget: None };
                v.push((caching, 100, vec![always, CallSpec::plain(g), CallSpec::plain(pick(rng))]));
            }
        }
        Focus::Panic => {
            for caching in [true, false] {
                let g = pick(rng);
                let (w, _) = clean_work(g, caching);
                for b in 0..w.min(40) {
                    let first = CallSpec { goal: g, oracle: vec![], dflt: true, budget: Some(b) };
                    let mut calls = vec![first];
                    if rng.chance(1, 3) {
                        let g2 = pick(rng);
                        calls.push(CallSpec { goal: g2, oracle: vec![], dflt: true, budget: Some(rng.below(6)) });
                    }
                    calls.push(CallSpec::plain(g));
                    calls.push(CallSpec::plain(pick(rng)));
                    calls.push(CallSpec::plain(pick(rng)));
                    v.push((caching, 100, calls));
                }
            }
        }
    }
    v
}

fn model_cases_for(ctx: &Ctx, out: &mut Out, rng: &mut Rng, focus: Focus, family: &str, text: &str, goal_texts: &[String]) {
    let low = match lower_all(text, goal_texts) {
        Ok(l) => l,
        Err(e) => {
            out.count("program_rejected");
            out.notes.push(format!("program rejected: {} :: {}", e, text.replace('\n', " ")));
            return;
        }
    };
    let roots: Vec<UGoal> = low.goals.iter().map(|(_, g)| g.clone()).collect();
    let db: &dyn RustIrDatabase<ChalkIr> = &low.db;
    let inst = match catch_full(|| explore(db, &roots, 48, 30)) {
        Ok(Ok(i)) => i,
        Ok(Err(e)) => {
            out.count(&format!("outside_abstraction:{}", e));
            return;
        }
        Err(m) => {
            out.count("explore_panicked");
            out.notes.push(format!("explore panicked: {} :: {}", m, text.replace('\n', " ")));
            return;
        }
    };
    out.count("programs");
    out.count(&format!("family_{}", family));
    if inst.has_cycle() {
        out.count("instances_with_cycle");
    }
    if inst.nodes.iter().any(|n| n.0) && inst.nodes.iter().any(|n| !n.0 && !n.2.is_empty()) {
        out.count("instances_mixed_kinds");
    }
    out.count(&format!("instance_nodes_{:02}", (inst.nodes.len() / 4) * 4));
    // position of every root goal among the instance's keys (equal root goals share a key)
    let root_keys: Vec<usize> = roots.iter().map(|r| inst.keys.iter().position(|k| k == r).unwrap()).collect();
    let clean = |g: usize, caching: bool| -> (u64, usize) {
        let g = root_keys[g];
        let cache: Cache<UGoal, RSol> = Cache::default();
        let mut solver = RecursiveSolver::new(100, 30, if caching { Some(cache) } else { None });
        chalk_recursive::verif::reset_work(Some(WORK_BUDGET));
        let n = Cell::new(0usize);
        let cb = || {
            n.set(n.get() + 1);
            true
        };
        let _ = catch_full(|| solver.solve_limited(db, &inst.keys[g], &cb));
        let w = chalk_recursive::verif::work();
        chalk_recursive::verif::reset_work(None);
        (w, n.get())
    };
    let label_prog = text.replace('\n', " ");
    for (caching, overflow, mut calls) in scripts(rng, focus, roots.len(), &clean) {
        for c in calls.iter_mut() {
            c.goal = root_keys[c.goal];
        }
        let label = format!("fp-run caching={} overflow={} calls={:?} | {}", caching, overflow, calls.iter().map(|c| (c.goal, &c.oracle, c.dflt, c.budget)).collect::<Vec<_>>(), label_prog);
        if !ctx.inflight(&label) {
            continue;
        }
        let req = request(&inst, caching, overflow, &calls);
        let (expected, kinds) = run_script_real(db, &inst, caching, overflow, 30, &calls);
        for k in &kinds {
            out.count(&format!("model_outcome_{}", k.split(':').next().unwrap_or("")));
            if k.starts_with("panic:") {
                out.count(&format!("model_{}", k));
            }
        }
        let nontrivial = inst.has_cycle() || kinds.iter().any(|k| k != "unique");
        out.case(req.to_string(), expected, nontrivial, &label);
    }
}

pub fn model_correspondence(ctx: &Ctx, out: &mut Out, focus: Focus, n: usize) {
    for i in 0..n {
        if !ctx.mine(i) {
            continue;
        }
        let mut rng = ctx.rng(10, i as u64);
        match rng.weighted(&[12, 4, 3]) {
            0 => {
                let g = gen_graph(&mut rng);
                let goals: Vec<String> = (0..g.n()).map(|k| g.goal(k)).collect();
                let fam = format!("graph_{}", g.shape);
                model_cases_for(ctx, out, &mut rng, focus, &fam, &g.render(), &goals);
            }
            1 => {
                let u = gen_unk(&mut rng);
                model_cases_for(ctx, out, &mut rng, focus, "unknowns", &u.render(), &u.goals());
            }
            _ => {
                // ProgGen programs, closed atomic goals (instances of finite closure only)
                let mut pg = ProgGen { rng: &mut rng, cfg: ProgCfg { coinductive: i % 3 == 0, growing: false, ..ProgCfg::default() } };
                let prog = pg.program();
                let goals: Vec<String> = (0..4).map(|_| goal_text(&GoalT::Atom(pg_wc(&mut pg, &prog)))).collect();
                let text = prog.render();
                model_cases_for(ctx, out, &mut rng, focus, "progen_ground", &text, &goals);
            }
        }
    }
}

fn pg_wc(pg: &mut ProgGen, p: &ProgT) -> WcT {
    let tr = pg.rng.usize_below(p.traits.len());
    let args = (0..p.traits[tr].nparams).map(|_| pg.ty(p, 0, &[], 1)).collect();
    WcT { ty: pg.ty(p, 0, &[], 2), tr, args }
}

/// corpus lines `fp ;; caching ;; overflow ;; program ;; goal | goal ;; call call ..` with
/// call = goal-index[:budget][/oracle bits[+|-]]  (replayed first, through the model too)
pub fn corpus_model_cases(ctx: &Ctx, out: &mut Out) {
    for l in ctx.corpus_lines() {
        let parts: Vec<&str> = l.split(";;").map(|s| s.trim()).collect();
        if parts.len() != 6 || parts[0] != "fp" {
            continue;
        }
        let caching = parts[1] == "1";
        let overflow: usize = parts[2].parse().unwrap_or(100);
        let text = parts[3].replace(" | ", "\n");
        let goal_texts: Vec<String> = parts[4].split(" | ").map(|s| s.trim().to_string()).collect();
        let mut calls = vec![];
        for c in parts[5].split_whitespace() {
            let (head, orc) = match c.split_once('/') {
                Some((h, o)) => (h, Some(o)),
                None => (c, None),
            };
            let (g, b) = match head.split_once(':') {
                Some((g, b)) => (g, b.parse::<u64>().ok()),
                None => (head, None),
            };
            let mut oracle = vec![];
            let mut dflt = true;
            if let Some(o) = orc {
                for ch in o.chars() {
                    match ch {
                        '1' => oracle.push(true),
                        '0' => oracle.push(false),
                        '-' => dflt = false,
                        _ => {}
                    }
                }
            }
            calls.push(CallSpec { goal: g.parse().unwrap_or(0), oracle, dflt, budget: b });
        }
        let low = match lower_all(&text, &goal_texts) {
            Ok(l) => l,
            Err(e) => {
                out.notes.push(format!("corpus program rejected: {}", e));
                continue;
            }
        };
        let roots: Vec<UGoal> = low.goals.iter().map(|(_, g)| g.clone()).collect();
        let db: &dyn RustIrDatabase<ChalkIr> = &low.db;
        match explore(db, &roots, 48, 30) {
            Ok(inst) => {
                let root_keys: Vec<usize> = roots.iter().map(|r| inst.keys.iter().position(|k| k == r).unwrap()).collect();
                let calls: Vec<CallSpec> = calls.into_iter().map(|c| CallSpec { goal: root_keys[c.goal.min(root_keys.len() - 1)], ..c }).collect();
                let req = request(&inst, caching, overflow, &calls);
                let (expected, _) = run_script_real(db, &inst, caching, overflow, 30, &calls);
                out.count("corpus_model_cases");
                out.case(req.to_string(), expected, true, &format!("corpus {}", l));
            }
            Err(e) => out.notes.push(format!("corpus case outside abstraction: {}", e)),
        }
    }
}

/// One exact correspondence line for a plain history: the goals (single trait atoms) posed in order
/// to ONE recursive solver with caching on — the real `RecursiveContext` vs the FixedPoint model on
/// the instance read off chalk's own clauses.  Used by C02/C05 on the ground dependency-graph
/// families, the class of instances for which Props/C05fp.lean proves the model's answers to be the
/// least / greatest fixed point.
pub fn plain_history_case(out: &mut Out, text: &str, goal_texts: &[String], label: &str) {
    let low = match lower_all(text, goal_texts) {
        Ok(l) => l,
        Err(_) => {
            out.count("fp_program_or_goal_rejected");
            return;
        }
    };
    let roots: Vec<UGoal> = low.goals.iter().map(|(_, g)| g.clone()).collect();
    if roots.is_empty() {
        return;
    }
    let db: &dyn RustIrDatabase<ChalkIr> = &low.db;
    match explore(db, &roots, 48, 30) {
        Ok(inst) => {
            let calls: Vec<CallSpec> = roots.iter().map(|r| CallSpec::plain(inst.keys.iter().position(|k| k == r).unwrap())).collect();
            let req = request(&inst, true, 100, &calls);
            let (expected, _) = run_script_real(db, &inst, true, 100, 30, &calls);
            out.count("fp_plain_history_cases");
            out.case(req.to_string(), expected, true, &format!("fp-history {} | {}", label, text.replace('\n', " | ")));
        }
        Err(_) => out.count("fp_outside_abstraction"),
    }
}

// ------------------------------------------------------------------------------------------------
// (ii) property oracles on the real code, both solvers
// ------------------------------------------------------------------------------------------------

/// a database wrapper that counts every callback and panics at the n-th (tests/integration/panic.rs
/// approach, with chalk-solve/src/logging_db.rs as the list of methods to delegate)
pub struct CountingDb {
    pub program: Arc<Program>,
    pub count: Cell<usize>,
    pub panic_at: Cell<usize>, // 0 = never
}

pub const INJECTED: &str = "verif-injected-db-panic";

impl CountingDb {
    pub fn new(program: Arc<Program>) -> Self {
        CountingDb { program, count: Cell::new(0), panic_at: Cell::new(0) }
    }
    fn tick(&self) {
        let n = self.count.get() + 1;
        self.count.set(n);
        if n == self.panic_at.get() {
            panic!("{}", INJECTED);
        }
    }
    pub fn arm(&self, n: usize) {
        self.count.set(0);
        self.panic_at.set(n);
    }
}

impl std::fmt::Debug for CountingDb {
    fn fmt(&self, f: &mut std::fmt::Formatter<'_>) -> std::fmt::Result {
        write!(f, "CountingDb")
    }
}

impl UnificationDatabase<ChalkIr> for CountingDb {
    fn fn_def_variance(&self, id: FnDefId<ChalkIr>) -> Variances<ChalkIr> {
        self.tick();
        self.program.fn_def_variance(id)
    }
    fn adt_variance(&self, id: AdtId<ChalkIr>) -> Variances<ChalkIr> {
        self.tick();
        self.program.adt_variance(id)
    }
}

impl RustIrDatabase<ChalkIr> for CountingDb {
    fn custom_clauses(&self) -> Vec<ProgramClause<ChalkIr>> {
        self.tick();
        self.program.custom_clauses()
    }
    fn associated_ty_data(&self, ty: AssocTypeId<ChalkIr>) -> Arc<AssociatedTyDatum<ChalkIr>> {
        self.tick();
        self.program.associated_ty_data(ty)
    }
    fn trait_datum(&self, id: TraitId<ChalkIr>) -> Arc<TraitDatum<ChalkIr>> {
        self.tick();
        self.program.trait_datum(id)
    }
    fn adt_datum(&self, id: AdtId<ChalkIr>) -> Arc<AdtDatum<ChalkIr>> {
        self.tick();
        self.program.adt_datum(id)
    }
    fn coroutine_datum(&self, id: CoroutineId<ChalkIr>) -> Arc<CoroutineDatum<ChalkIr>> {
        self.tick();
        self.program.coroutine_datum(id)
    }
    fn coroutine_witness_datum(&self, id: CoroutineId<ChalkIr>) -> Arc<CoroutineWitnessDatum<ChalkIr>> {
        self.tick();
        self.program.coroutine_witness_datum(id)
    }
    fn adt_repr(&self, id: AdtId<ChalkIr>) -> Arc<AdtRepr<ChalkIr>> {
        self.tick();
        self.program.adt_repr(id)
    }
    fn adt_size_align(&self, id: AdtId<ChalkIr>) -> Arc<AdtSizeAlign> {
        self.tick();
        self.program.adt_size_align(id)
    }
    fn fn_def_datum(&self, id: FnDefId<ChalkIr>) -> Arc<FnDefDatum<ChalkIr>> {
        self.tick();
        self.program.fn_def_datum(id)
    }
    fn impl_datum(&self, id: ImplId<ChalkIr>) -> Arc<ImplDatum<ChalkIr>> {
        self.tick();
        self.program.impl_datum(id)
    }
    fn associated_ty_from_impl(&self, impl_id: ImplId<ChalkIr>, assoc_type_id: AssocTypeId<ChalkIr>) -> Option<AssociatedTyValueId<ChalkIr>> {
        self.tick();
        self.program.associated_ty_from_impl(impl_id, assoc_type_id)
    }
    fn associated_ty_value(&self, id: AssociatedTyValueId<ChalkIr>) -> Arc<AssociatedTyValue<ChalkIr>> {
        self.tick();
        self.program.associated_ty_value(id)
    }
    fn opaque_ty_data(&self, id: OpaqueTyId<ChalkIr>) -> Arc<OpaqueTyDatum<ChalkIr>> {
        self.tick();
        self.program.opaque_ty_data(id)
    }
    fn hidden_opaque_type(&self, id: OpaqueTyId<ChalkIr>) -> Ty<ChalkIr> {
        self.tick();
        self.program.hidden_opaque_type(id)
    }
    fn impls_for_trait(&self, trait_id: TraitId<ChalkIr>, parameters: &[GenericArg<ChalkIr>], binders: &CanonicalVarKinds<ChalkIr>) -> Vec<ImplId<ChalkIr>> {
        self.tick();
        self.program.impls_for_trait(trait_id, parameters, binders)
    }
    fn local_impls_to_coherence_check(&self, trait_id: TraitId<ChalkIr>) -> Vec<ImplId<ChalkIr>> {
        self.tick();
        self.program.local_impls_to_coherence_check(trait_id)
    }
    fn impl_provided_for(&self, auto_trait_id: TraitId<ChalkIr>, ty: &TyKind<ChalkIr>) -> bool {
        self.tick();
        self.program.impl_provided_for(auto_trait_id, ty)
    }
    fn well_known_trait_id(&self, t: WellKnownTrait) -> Option<TraitId<ChalkIr>> {
        self.tick();
        self.program.well_known_trait_id(t)
    }
    fn well_known_assoc_type_id(&self, t: WellKnownAssocType) -> Option<AssocTypeId<ChalkIr>> {
        self.tick();
        self.program.well_known_assoc_type_id(t)
    }
    fn program_clauses_for_env(&self, environment: &Environment<ChalkIr>) -> ProgramClauses<ChalkIr> {
        self.tick();
        chalk_solve::program_clauses_for_env(self, environment)
    }
    fn interner(&self) -> ChalkIr {
        self.tick();
        ChalkIr
    }
    fn is_object_safe(&self, trait_id: TraitId<ChalkIr>) -> bool {
        self.tick();
        self.program.is_object_safe(trait_id)
    }
    fn closure_kind(&self, closure_id: ClosureId<ChalkIr>, substs: &Substitution<ChalkIr>) -> ClosureKind {
        self.tick();
        self.program.closure_kind(closure_id, substs)
    }
    fn closure_inputs_and_output(&self, closure_id: ClosureId<ChalkIr>, substs: &Substitution<ChalkIr>) -> Binders<FnDefInputsAndOutputDatum<ChalkIr>> {
        self.tick();
        self.program.closure_inputs_and_output(closure_id, substs)
    }
    fn closure_upvars(&self, closure_id: ClosureId<ChalkIr>, substs: &Substitution<ChalkIr>) -> Binders<Ty<ChalkIr>> {
        self.tick();
        self.program.closure_upvars(closure_id, substs)
    }
    fn closure_fn_substitution(&self, closure_id: ClosureId<ChalkIr>, substs: &Substitution<ChalkIr>) -> Substitution<ChalkIr> {
        self.tick();
        self.program.closure_fn_substitution(closure_id, substs)
    }
    fn unification_database(&self) -> &dyn UnificationDatabase<ChalkIr> {
        self.tick();
        self
    }
    fn trait_name(&self, id: TraitId<ChalkIr>) -> String {
        self.tick();
        self.program.trait_name(id)
    }
    fn adt_name(&self, id: AdtId<ChalkIr>) -> String {
        self.tick();
        self.program.adt_name(id)
    }
    fn assoc_type_name(&self, id: AssocTypeId<ChalkIr>) -> String {
        self.tick();
        self.program.assoc_type_name(id)
    }
    fn opaque_type_name(&self, id: OpaqueTyId<ChalkIr>) -> String {
        self.tick();
        self.program.opaque_type_name(id)
    }
    fn fn_def_name(&self, id: FnDefId<ChalkIr>) -> String {
        self.tick();
        self.program.fn_def_name(id)
    }
    fn discriminant_type(&self, ty: Ty<ChalkIr>) -> Ty<ChalkIr> {
        self.tick();
        self.program.discriminant_type(ty)
    }
}

static DEADLINE_MS: std::sync::atomic::AtomicU64 = std::sync::atomic::AtomicU64::new(0);

fn now_ms() -> u64 {
    std::time::SystemTime::now().duration_since(std::time::UNIX_EPOCH).map(|d| d.as_millis() as u64).unwrap_or(0)
}

/// started once per process: aborts the process when a solver call overruns its deadline
pub fn start_watchdog() {
    std::thread::spawn(|| loop {
        std::thread::sleep(std::time::Duration::from_millis(200));
        let d = DEADLINE_MS.load(std::sync::atomic::Ordering::Relaxed);
        if d != 0 && now_ms() > d {
            eprintln!("verif watchdog: solver call exceeded {} s, aborting the process", CALL_SECONDS);
            std::process::abort();
        }
    });
}

/// installs (Some) / removes (None) the work budget of both engines and the call deadline
pub fn set_budgets(b: Option<u64>) {
    chalk_recursive::verif::reset_work(b);
    chalk_engine::verif_work::reset(b.map(|x| x.min(SLG_WORK_BUDGET)));
    DEADLINE_MS.store(if b.is_some() { now_ms() + CALL_SECONDS * 1000 } else { 0 }, std::sync::atomic::Ordering::Relaxed);
}

pub fn is_budget_panic(a: &Answer) -> bool {
    matches!(a, Err(m) if m.contains("verif-work-budget-exceeded"))
}

pub fn render(a: &Answer) -> String {
    match a {
        Ok(None) => "NoSolution".into(),
        Ok(Some(s)) => format!("{:?}", s),
        Err(m) => format!("panic: {}", m.chars().take(100).collect::<String>()),
    }
}

/// one solve on `solver` under the standard work budget
pub fn solve_on(solver: &mut dyn Solver<ChalkIr>, db: &dyn RustIrDatabase<ChalkIr>, g: &UGoal) -> Answer {
    set_budgets(Some(WORK_BUDGET));
    let r = catch_full(|| solver.solve(db, g));
    set_budgets(None);
    r
}

pub fn solver_configs_default() -> Vec<(&'static str, SolverChoice)> {
    vec![
        ("slg", SolverChoice::slg_default()),
        ("recursive", SolverChoice::recursive_default()),
        ("recursive_nocache", SolverChoice::Recursive { overflow_depth: 100, caching_enabled: false, max_size: 30 }),
    ]
}

/// program + goal pool for the oracles
pub struct Subject {
    pub text: String,
    pub goal_texts: Vec<String>,
    pub family: String,
    pub coinductive: bool,
}

pub fn gen_subject(ctx: &Ctx, stream: u64, i: usize, growing: bool) -> Subject {
    let mut rng = ctx.rng(stream, i as u64);
    match rng.weighted(&[5, 2, 6, 3, if growing { 3 } else { 0 }]) {
        4 => {
            // (C09 only) a coinductive trait whose generic impl leads back to the goal itself with an
            // unknown (`impl<T> C for V<T> where T: C, ..`), next to conditions on a second trait that
            // are decided, open or ambiguous for the unknown: the iteration's answer can grow by one
            // constructor per round unless its size is checked — for definite and for ambiguous answers
            let co = rng.chance(4, 5);
            let mut text = String::from("struct A {}\nstruct B {}\nstruct V<T> {}\n");
            text.push_str(if co { "#[coinductive] trait C {}\n" } else { "trait C {}\n" });
            text.push_str("trait D {}\n");
            let conds_pool = ["T: C", "T: D", "V<T>: D", "A: D", "V<T>: C"];
            let nc = 1 + rng.usize_below(3);
            let mut conds: Vec<&str> = vec!["T: C"];
            for _ in 1..nc {
                let c = conds_pool[rng.usize_below(conds_pool.len())];
                if !conds.contains(&c) {
                    conds.push(c);
                }
            }
            for a in (1..conds.len()).rev() {
                let b = rng.usize_below(a + 1);
                conds.swap(a, b);
            }
            text.push_str(&format!("impl<T> C for V<T> where {} {{}}\n", conds.join(", ")));
            if rng.chance(1, 3) {
                text.push_str("impl C for A {}\n");
            }
            for (h, p) in [("impl D for A {}", 2u64), ("impl D for B {}", 1), ("impl<T> D for V<T> {}", 2), ("impl D for V<A> {}", 1), ("impl<T> D for V<T> where T: D {}", 1)] {
                if rng.chance(p, 3) {
                    text.push_str(h);
                    text.push('\n');
                }
            }
            let goals: Vec<String> = vec!["exists<X> { X: C }".into(), "exists<X> { V<X>: C }".into(), "exists<X> { X: D }".into(), "V<A>: C".into()];
            Subject { text, goal_texts: goals, family: "co_unknown".into(), coinductive: co }
        }
        3 => {
            // overlapping impls of a marker trait (progen::overlap_program): tables with several answers
            let (text, mut goals) = overlap_program(&mut rng);
            goals.truncate(4);
            goals.push("V<A>: M".into());
            Subject { text, goal_texts: goals, family: "overlap".into(), coinductive: false }
        }
        0 => {
            let g = gen_graph(&mut rng);
            let mut ks: Vec<usize> = (0..g.n()).collect();
            for a in (1..ks.len()).rev() {
                let b = rng.usize_below(a + 1);
                ks.swap(a, b);
            }
            ks.truncate(5);
            Subject { text: g.render(), goal_texts: ks.iter().map(|k| g.goal(*k)).collect(), family: format!("graph_{}", g.shape), coinductive: g.co.iter().any(|c| *c) }
        }
        1 => {
            let u = gen_unk(&mut rng);
            let mut goals = u.goals();
            goals.truncate(5);
            Subject { text: u.render(), goal_texts: goals, family: "unknowns".into(), coinductive: false }
        }
        _ => {
            let coinductive = rng.chance(1, 3);
            let mut pg = ProgGen { rng: &mut rng, cfg: ProgCfg { coinductive, growing, ..ProgCfg::default() } };
            let prog = pg.program();
            let goals: Vec<String> = (0..5)
                .map(|k| match k {
                    0 | 1 => goal_text(&pg.exists_goal_from_impl(&prog)),
                    2 => goal_text(&pg.exists_goal(&prog, 2)),
                    _ => goal_text(&pg.ground_goal(&prog, 2)),
                })
                .collect();
            Subject { text: prog.render(), goal_texts: goals, family: "progen".into(), coinductive }
        }
    }
}

/// subjects from corpus lines `subject ;; program ;; goal | goal ...`
pub fn corpus_subjects(ctx: &Ctx) -> Vec<Subject> {
    let mut v = vec![];
    for l in ctx.corpus_lines() {
        let parts: Vec<&str> = l.split(";;").map(|s| s.trim()).collect();
        if parts.len() == 3 && parts[0] == "subject" {
            v.push(Subject {
                text: parts[1].replace(" | ", "\n"),
                goal_texts: parts[2].split(" | ").map(|s| s.trim().to_string()).collect(),
                family: "corpus".into(),
                coinductive: parts[1].contains("#[coinductive]") || parts[1].contains("#[auto]"),
            });
        }
    }
    v
}

fn label(name: &str, s: &Subject, what: &str) -> String {
    format!("{} | {} | {} | goals {}", name, what, s.text.replace('\n', " "), s.goal_texts.join(" ; "))
}

fn has_unknowns(g: &str) -> bool {
    g.contains("exists")
}

/// both answers are "some solution may exist" and at least one of them is ambiguous: the two
/// differ in precision only (neither contradicts the other)
fn precision_only(a: &Answer, b: &Answer) -> bool {
    match (a, b) {
        (Ok(Some(x)), Ok(Some(y))) => x.is_ambig() || y.is_ambig(),
        _ => false,
    }
}

/// both answers are ambiguous (they differ in guidance only): after an interrupted solve the SLG table
/// holds more stored answers than a fresh one does when `make_solution` reads it (F26b)
fn both_ambig(a: &Answer, b: &Answer) -> bool {
    matches!((a, b), (Ok(Some(Solution::Ambig(_))), Ok(Some(Solution::Ambig(_)))))
}

fn is_mixed(s: &Subject) -> bool {
    s.text.contains("#[coinductive]") && (s.text.contains("impl Tind") || !s.text.contains("trait Tind"))
}

/// The same goal posed twice to one SLG solver answers differently.  Known (F26b): the first query
/// aggregates while the table is incomplete (`any_future_answer` also consults the pending strands,
/// conservatively), the second over the completed table, so the second guidance can be MORE PRECISE;
/// both are sound.  Told apart from a guidance that EXCLUDES an answer: the goal is run twice on a
/// fresh `SLGSolver`, the completed table is read through the cfg hook, and the second answer's
/// definite guidance is matched against every stored answer.
fn repeated_query_classifier(db: &dyn RustIrDatabase<ChalkIr>, g: &UGoal) -> &'static str {
    use crate::wire_sol::{erase_const_types, instance_of};
    let mut solver: chalk_engine::solve::SLGSolver<ChalkIr> = chalk_engine::solve::SLGSolver::new(10, None);
    let _ = catch_full(|| solver.solve(db, g));
    let second = catch_full(|| solver.solve(db, g));
    let stored = match solver.verif_table_dump(g) {
        Some((false, st)) if st.iter().all(|(_, _, d)| !*d) => st,
        _ => return "slg_repeated_query_differs",
    };
    match second {
        Ok(Some(Solution::Ambig(chalk_solve::Guidance::Definite(c)))) => {
            let pat = erase_const_types(&enc_subst(&c.value));
            if stored.iter().all(|(s, _, _)| instance_of(&pat, &erase_const_types(&enc_subst(&s.value.subst)))) {
                "slg_guidance_precision_depends_on_table_completion"
            } else if !crate::wire_sol::is_linear(&pat) {
                // F1: may_invalidate judges a non-instance harmless when the guidance repeats a variable;
                // over the completed table (no strands to be conservative about) make_solution stops early
                "slg_guidance_nonlinear"
            } else {
                "slg_repeated_query_excludes_answer"
            }
        }
        // one stored unconditional answer: `Unique` is that answer; guidance `Unknown`/`Suggested` excludes nothing
        Ok(Some(Solution::Unique(_))) if stored.len() == 1 => "slg_guidance_precision_depends_on_table_completion",
        Ok(Some(Solution::Ambig(_))) if !stored.is_empty() => "slg_guidance_precision_depends_on_table_completion",
        _ => "slg_repeated_query_differs",
    }
}

/// classifier of a history dependence that needs no interruption and no panic (a C10 defect)
fn history_classifier(name: &str, s: &Subject, got: &Answer, fresh: &Answer) -> &'static str {
    let mixed = is_mixed(s);
    if is_budget_panic(got) {
        return if name == "slg" { "slg_runaway_after_history" } else { "recursive_runaway_after_history" };
    }
    if name != "slg" && !mixed && precision_only(got, fresh) {
        return "recursive_ambig_precision_depends_on_history";
    }
    if name == "slg" {
        if s.coinductive || s.text.contains("#[auto]") {
            "slg_coinductive_cycle_table_reuse"
        } else {
            "slg_answer_order_depends_on_history"
        }
    } else if mixed {
        "recursive_mixed_cycle_cached"
    } else if s.goal_texts.iter().any(|g| has_unknowns(g)) {
        "recursive_stale_cache_after_ambig_shortcut"
    } else {
        "recursive_history_dependence"
    }
}

/// does a plain history (no interruption, no panic) of these goals on one instance already end
/// with an answer different from the fresh one?
fn plain_history_differs(choice: SolverChoice, db: &dyn RustIrDatabase<ChalkIr>, goals: &[&UGoal], fresh_last: &Answer) -> bool {
    let mut solver = choice.into_solver();
    let mut last = None;
    for g in goals {
        last = Some(solve_on(&mut *solver, db, g));
    }
    match last {
        Some(a) => a != *fresh_last,
        None => false,
    }
}

/// report a failure once per (classifier) and subject
fn fail_once(out: &mut Out, seen: &mut Vec<String>, what: &str, input: &str, classifier: &str) {
    let key = classifier.to_string();
    if seen.contains(&key) {
        out.count(&format!("repeated_failure:{}", classifier));
        return;
    }
    seen.push(key);
    out.fail(what, input, classifier);
}

// ---------------------------------------------------------------- C10

fn permutations(n: usize) -> Vec<Vec<usize>> {
    fn go(cur: &mut Vec<usize>, used: &mut Vec<bool>, n: usize, out: &mut Vec<Vec<usize>>) {
        if cur.len() == n {
            out.push(cur.clone());
            return;
        }
        for i in 0..n {
            if !used[i] {
                used[i] = true;
                cur.push(i);
                go(cur, used, n, out);
                cur.pop();
                used[i] = false;
            }
        }
    }
    let mut out = vec![];
    go(&mut vec![], &mut vec![false; n], n, &mut out);
    out
}

pub fn oracle_c10(ctx: &Ctx, out: &mut Out, s: &Subject, rng: &mut Rng) {
    let low = match lower_all(&s.text, &s.goal_texts) {
        Ok(l) => l,
        Err(_) => {
            out.count("program_or_goal_rejected");
            return;
        }
    };
    out.count("programs");
    out.count(&format!("subject_{}", s.family));
    let db: &dyn RustIrDatabase<ChalkIr> = &low.db;
    let n = low.goals.len();
    let mut fresh_by_cfg: Vec<Vec<Answer>> = vec![];
    for (name, choice) in solver_configs_default() {
        if !ctx.inflight(&label(name, s, "C10")) {
            fresh_by_cfg.push(vec![]);
            continue;
        }
        // fresh answers
        let fresh: Vec<Answer> = low.goals.iter().map(|(_, g)| solve_on(&mut *choice.into_solver(), db, g)).collect();
        for a in &fresh {
            out.count(&format!("{}_fresh_{}", name, kind_of(a).split(':').next().unwrap_or("")));
        }
        // sequences: all permutations (<= 4 goals; 5 in the thorough tier), plus sequences with repetitions
        let m = if ctx.thorough() { n.min(5) } else { n.min(4) };
        let mut seqs: Vec<Vec<usize>> = permutations(m);
        for _ in 0..(if ctx.thorough() { 40 } else { 12 }) {
            let len = 2 + rng.usize_below(5);
            seqs.push((0..len).map(|_| rng.usize_below(n)).collect());
        }
        for k in 0..n {
            seqs.push(vec![k, k]);
        }
        let mut failed = false;
        seqs.sort_by_key(|q| q.len());
        for seq in seqs {
            let mut solver = choice.into_solver();
            for (pos, &gi) in seq.iter().enumerate() {
                let a = solve_on(&mut *solver, db, &low.goals[gi].1);
                out.evaluations_extra += 1;
                if is_budget_panic(&fresh[gi]) {
                    out.count("c10_budget_skipped");
                    break;
                }
                if is_budget_panic(&a) {
                    // returns on a fresh solver, runs away after this history
                    out.fail(
                        &format!(
                            "{}: after solving {:?} the goal `{}` does not return within the work budget; a fresh solver answers {}",
                            name,
                            seq[..pos].iter().map(|j| low.goals[*j].0.clone()).collect::<Vec<_>>(),
                            low.goals[gi].0,
                            render(&fresh[gi])
                        ),
                        &format!("subject ;; {} ;; {}", s.text.replace('\n', " | "), seq[..=pos].iter().map(|j| low.goals[*j].0.clone()).collect::<Vec<_>>().join(" | ")),
                        if name == "slg" { "slg_runaway_after_history" } else { "recursive_runaway_after_history" },
                    );
                    failed = true;
                    break;
                }
                if a != fresh[gi] {
                    // the same goal posed twice to a fresh SLG solver: the second query re-reads the
                    // completed table, whose answers are in the order the first query produced them
                    // (the order a fresh solver produces), so this is not the order dependence F26
                    let repeated = name == "slg" && pos == 1 && seq[0] == seq[1] && !(s.coinductive || s.text.contains("#[auto]"));
                    let classifier = if repeated { repeated_query_classifier(db, &low.goals[gi].1) } else { history_classifier(name, s, &a, &fresh[gi]) };
                    out.fail(
                        &format!(
                            "{}: after solving {:?} the goal `{}` is answered {} but a fresh solver answers {}",
                            name,
                            seq[..pos].iter().map(|j| low.goals[*j].0.clone()).collect::<Vec<_>>(),
                            low.goals[gi].0,
                            render(&a),
                            render(&fresh[gi])
                        ),
                        &format!("subject ;; {} ;; {}", s.text.replace('\n', " | "), seq[..=pos].iter().map(|j| low.goals[*j].0.clone()).collect::<Vec<_>>().join(" | ")),
                        classifier,
                    );
                    failed = true;
                    break;
                }
            }
            if failed {
                // one failing history per solver and program is enough
                break;
            }
        }
        fresh_by_cfg.push(fresh);
    }
    // the recursive solver gives the same answers with its cache enabled or disabled
    if fresh_by_cfg.len() == 3 && fresh_by_cfg[1].len() == n && fresh_by_cfg[2].len() == n {
        for gi in 0..n {
            let (a, b) = (&fresh_by_cfg[1][gi], &fresh_by_cfg[2][gi]);
            if is_budget_panic(a) || is_budget_panic(b) {
                continue;
            }
            out.evaluations_extra += 1;
            if a != b {
                out.fail(
                    &format!("recursive solver: `{}` is answered {} with the cache and {} without", low.goals[gi].0, render(a), render(b)),
                    &format!("subject ;; {} ;; {}", s.text.replace('\n', " | "), low.goals[gi].0),
                    if is_mixed(s) { "recursive_mixed_cycle_cached" } else if precision_only(a, b) { "recursive_ambig_precision_depends_on_history" } else { "recursive_cache_on_off_differ" },
                );
            }
        }
    }
}

// ---------------------------------------------------------------- C11

fn weaker_or_equal(limited: &Answer, full: &Answer) -> bool {
    match (limited, full) {
        (a, b) if a == b => true,
        (Ok(Some(Solution::Ambig(_))), Ok(_)) => true,
        _ => false,
    }
}

pub fn oracle_c11(ctx: &Ctx, out: &mut Out, s: &Subject, rng: &mut Rng) {
    let low = match lower_all(&s.text, &s.goal_texts) {
        Ok(l) => l,
        Err(_) => {
            out.count("program_or_goal_rejected");
            return;
        }
    };
    out.count("programs");
    out.count(&format!("subject_{}", s.family));
    let db: &dyn RustIrDatabase<ChalkIr> = &low.db;
    let n = low.goals.len();
    for (name, choice) in solver_configs_default() {
        if !ctx.inflight(&label(name, s, "C11")) {
            continue;
        }
        let mut seen: Vec<String> = vec![];
        let fresh: Vec<Answer> = low.goals.iter().map(|(_, g)| solve_on(&mut *choice.into_solver(), db, g)).collect();
        if fresh.iter().any(|a| a.is_err()) {
            out.count("c11_subject_with_panicking_or_runaway_goal");
            continue;
        }
        let ngoals = if ctx.thorough() { n } else { n.min(2) };
        for gi in 0..ngoals {
            let g = &low.goals[gi].1;
            // calls of the callback in a clean run
            let calls = Cell::new(0usize);
            {
                let mut solver = choice.into_solver();
                set_budgets(Some(WORK_BUDGET));
                let cb = || {
                    calls.set(calls.get() + 1);
                    true
                };
                let r = catch_full(|| solver.solve_limited(db, g, &cb));
                set_budgets(None);
                if r != fresh[gi] {
                    fail_once(out, &mut seen, &format!("{}: solve_limited with a callback that never stops answers {} but solve answers {}", name, render(&r), render(&fresh[gi])), &format!("subject ;; {} ;; {}", s.text.replace('\n', " | "), low.goals[gi].0), &format!("{}_limited_never_differs", name));
                    continue;
                }
            }
            let ncalls = calls.get();
            out.count(&format!("c11_callback_calls_{}", if ncalls == 0 { "0".to_string() } else if ncalls < 5 { "1-4".to_string() } else if ncalls < 20 { "5-19".into() } else { "20+".into() }));
            let kmax = (ncalls + 1).min(if ctx.thorough() { 60 } else { 16 });
            // schedule = (bits, default)
            let mut schedules: Vec<(Vec<bool>, bool, String)> = vec![(vec![], false, "always".into())];
            for k in 0..=kmax {
                let mut bits = vec![true; k];
                bits.push(false);
                schedules.push((bits.clone(), true, format!("only call {}", k)));
                schedules.push((bits, false, format!("from call {}", k)));
            }
            for (bits, dflt, sname) in schedules {
                let mut solver = choice.into_solver();
                let limited = |solver: &mut dyn Solver<ChalkIr>, g: &UGoal, bits: &[bool], dflt: bool| -> Answer {
                    let i = Cell::new(0usize);
                    let cb = || {
                        let k = i.get();
                        i.set(k + 1);
                        bits.get(k).copied().unwrap_or(dflt)
                    };
                    set_budgets(Some(WORK_BUDGET));
                    let r = catch_full(|| solver.solve_limited(db, g, &cb));
                    set_budgets(None);
                    r
                };
                let input = |extra: &str| format!("subject ;; {} ;; {} ;; schedule {} {}", s.text.replace('\n', " | "), low.goals[gi].0, sname, extra);
                let r1 = limited(&mut *solver, g, &bits, dflt);
                out.evaluations_extra += 1;
                out.count(&format!("c11_{}_limited_{}", name, if r1 == fresh[gi] { "full" } else { "weaker" }));
                if let Err(m) = &r1 {
                    let c = if m.contains("unwrap()") && name != "slg" { "recursive_unwrap_after_interrupt".to_string() } else { format!("{}_panic_when_interrupted", name) };
                    fail_once(out, &mut seen, &format!("{}: interrupted solve of `{}` (callback false: {}) panicked: {}", name, low.goals[gi].0, sname, m), &input(""), &c);
                    continue;
                }
                if !weaker_or_equal(&r1, &fresh[gi]) {
                    fail_once(out, &mut seen, &format!("{}: interrupted solve of `{}` (callback false: {}) answers {} but the full answer is {}", name, low.goals[gi].0, sname, render(&r1), render(&fresh[gi])), &input(""), &(if name != "slg" && is_mixed(s) { "recursive_mixed_cycle_cached".to_string() } else if name != "slg" && matches!((&r1, &fresh[gi]), (Ok(Some(Solution::Unique(_))), Ok(Some(Solution::Ambig(_))))) {
                        // F37: the interrupted run is MORE precise than the full one (a `Unique` where the
                        // uninterrupted iteration settles for `Ambiguous`): no contradiction, but not "the full
                        // answer or a weaker one" either — the precision of the recursive solver's ambiguous
                        // answers depends on the course of the iteration (F28)
                        "recursive_interrupted_answer_more_precise".to_string()
                    } else { format!("{}_interrupted_answer_contradicts", if name == "slg" { "slg" } else { "recursive" }) }));
                }
                // a second limited solve, then full solves on the same instance
                let r2 = limited(&mut *solver, g, &[true, false], rng.chance(1, 2));
                out.evaluations_extra += 1;
                if r2.is_err() || !weaker_or_equal(&r2, &fresh[gi]) {
                    let c = match &r2 {
                        Err(m) if m.contains("unwrap()") && name != "slg" => "recursive_unwrap_after_interrupt".to_string(),
                        _ if name != "slg" && is_mixed(s) => "recursive_mixed_cycle_cached".to_string(),
                        _ => format!("{}_second_interrupted_answer_contradicts", if name == "slg" { "slg" } else { "recursive" }),
                    };
                    fail_once(out, &mut seen, &format!("{}: second interrupted solve of `{}` answers {} but the full answer is {}", name, low.goals[gi].0, render(&r2), render(&fresh[gi])), &input("; then callback false at its 2nd call"), &c);
                }
                let r3 = solve_on(&mut *solver, db, g);
                out.evaluations_extra += 1;
                if r3 != fresh[gi] {
                    let c = if plain_history_differs(choice, db, &[g, g, g], &fresh[gi]) { history_classifier(name, s, &r3, &fresh[gi]) } else if name == "slg" && both_ambig(&r3, &fresh[gi]) { "slg_guidance_precision_depends_on_table_completion" } else if name == "slg" { "slg_answer_after_interrupt" } else if precision_only(&r3, &fresh[gi]) { "recursive_ambig_precision_depends_on_history" } else { "recursive_cache_after_interrupt" };
                    fail_once(out, &mut seen, &format!("{}: after an interrupted solve (callback false: {}) `{}` is answered {} but a fresh solver answers {}", name, sname, low.goals[gi].0, render(&r3), render(&fresh[gi])), &input("; then solve"), c);
                    continue;
                }
                let other = rng.usize_below(n);
                let r4 = solve_on(&mut *solver, db, &low.goals[other].1);
                out.evaluations_extra += 1;
                if r4 != fresh[other] {
                    let c = if plain_history_differs(choice, db, &[g, g, g, &low.goals[other].1], &fresh[other]) { history_classifier(name, s, &r4, &fresh[other]) } else if name == "slg" && both_ambig(&r4, &fresh[other]) { "slg_guidance_precision_depends_on_table_completion" } else if name == "slg" { "slg_answer_after_interrupt" } else if precision_only(&r4, &fresh[other]) { "recursive_ambig_precision_depends_on_history" } else { "recursive_cache_after_interrupt" };
                    fail_once(out, &mut seen, &format!("{}: after an interrupted solve of `{}` (callback false: {}) the goal `{}` is answered {} but a fresh solver answers {}", name, low.goals[gi].0, sname, low.goals[other].0, render(&r4), render(&fresh[other])), &input(&format!("; then solve {}", low.goals[other].0)), c);
                }
            }
        }
    }
}

// ---------------------------------------------------------------- C12

pub fn oracle_c12(ctx: &Ctx, out: &mut Out, s: &Subject, rng: &mut Rng) {
    let low = match lower_all(&s.text, &s.goal_texts) {
        Ok(l) => l,
        Err(_) => {
            out.count("program_or_goal_rejected");
            return;
        }
    };
    let n = low.goals.len();
    let cdb = CountingDb::new(low.program.clone());
    let db: &dyn RustIrDatabase<ChalkIr> = &cdb;
    let limit = if ctx.thorough() { 2000 } else { 150 };
    let mut counted = false;
    for (name, choice) in solver_configs_default() {
        if name == "recursive_nocache" && !ctx.thorough() {
            continue;
        }
        if !ctx.inflight(&label(name, s, "C12")) {
            continue;
        }
        cdb.arm(0);
        let mut seen: Vec<String> = vec![];
        let fresh: Vec<Answer> = low.goals.iter().map(|(_, g)| solve_on(&mut *choice.into_solver(), db, g)).collect();
        if fresh.iter().any(|a| a.is_err()) {
            out.count("c12_subject_with_panicking_or_runaway_goal");
            continue;
        }
        let ngoals = if ctx.thorough() { n.min(3) } else { 1 };
        for gi in 0..ngoals {
            let g = &low.goals[gi].1;
            // N = callbacks of a clean solve
            cdb.arm(0);
            let _ = solve_on(&mut *choice.into_solver(), db, g);
            let ncb = cdb.count.get();
            out.count(&format!("c12_callbacks_{}", if ncb <= 50 { "<=50" } else if ncb <= 150 { "51-150" } else if ncb <= 500 { "151-500" } else { ">500" }));
            if ncb > limit {
                out.count("c12_skipped_too_many_callbacks");
                continue;
            }
            if !counted {
                out.count("programs");
                out.count(&format!("subject_{}", s.family));
                counted = true;
            }
            for k in 1..=ncb {
                let mut solver = choice.into_solver();
                cdb.arm(k);
                let r0 = solve_on(&mut *solver, db, g);
                out.evaluations_extra += 1;
                let injected = matches!(&r0, Err(m) if m.contains(INJECTED));
                out.count(if injected { "c12_crash_points" } else { "c12_crash_point_not_reached" });
                let mut what = format!("the {}-th database callback panics while solving `{}`", k, low.goals[gi].0);
                // optionally a second injected panic during a later solve
                if rng.chance(1, 4) {
                    let g2 = rng.usize_below(n);
                    let k2 = 1 + rng.usize_below(ncb.max(1));
                    cdb.arm(k2);
                    let _ = solve_on(&mut *solver, db, &low.goals[g2].1);
                    what.push_str(&format!("; then the {}-th callback panics while solving `{}`", k2, low.goals[g2].0));
                }
                cdb.arm(0);
                let others = [gi, rng.usize_below(n), rng.usize_below(n)];
                let mut hist: Vec<&UGoal> = vec![g];
                for &o in &others {
                    let a = solve_on(&mut *solver, db, &low.goals[o].1);
                    hist.push(&low.goals[o].1);
                    out.evaluations_extra += 1;
                    if a != fresh[o] {
                        let classifier = match (&a, name) {
                            (x, _) if (x.is_ok() || is_budget_panic(x)) && plain_history_differs(choice, db, &hist, &fresh[o]) => history_classifier(name, s, &a, &fresh[o]).to_string(),
                            (Err(m), "slg") if m.contains("Negative subgoal had delayed_subgoals") => "slg_negative_subgoal_delayed_panic".to_string(),
                            (Err(m), "slg") if m.contains("verif-work-budget-exceeded") => "slg_runaway_after_panic".to_string(),
                            (Err(_), "slg") => "slg_panic_after_panic".to_string(),
                            (_, "slg") => "slg_strand_lost_after_panic".to_string(),
                            (Err(m), _) if m.contains("stack.is_empty()") => "recursive_stack_not_reset_after_panic".to_string(),
                            (Err(_), _) => "recursive_panic_after_panic".to_string(),
                            // what was cached before the panic is already entry-point dependent (F13)
                            (Ok(_), _) if is_mixed(s) => "recursive_mixed_cycle_cached".to_string(),
                            // a partial run leaves other cache entries than a complete one: precision only
                            (Ok(_), n) if n != "slg" && precision_only(&a, &fresh[o]) => "recursive_ambig_precision_depends_on_history".to_string(),
                            _ => "recursive_wrong_answer_after_panic".to_string(),
                        };
                        fail_once(
                            out,
                            &mut seen,
                            &format!("{}: {}; afterwards the same solver answers `{}` with {} but a fresh solver answers {}", name, what, low.goals[o].0, render(&a), render(&fresh[o])),
                            &format!("subject ;; {} ;; {} ;; crash point {} then solve {}", s.text.replace('\n', " | "), low.goals[gi].0, k, low.goals[o].0),
                            &classifier,
                        );
                        break;
                    }
                }
            }
        }
    }
}

// ---------------------------------------------------------------- C09

pub fn c09_configs(rng: &mut Rng) -> Vec<(String, SolverChoice)> {
    let slg_sizes = [3usize, 4, 6, 10];
    let rec_sizes = [4usize, 8, 15, 30];
    let depths = [20usize, 50, 100];
    let s = slg_sizes[rng.usize_below(4)];
    let r = rec_sizes[rng.usize_below(4)];
    let d = depths[rng.usize_below(3)];
    vec![
        ("slg".into(), SolverChoice::slg_default()),
        (format!("slg_max{}", s), SolverChoice::slg(s, None)),
        ("recursive".into(), SolverChoice::recursive_default()),
        {
            let caching = rng.chance(2, 3);
            (format!("recursive_max{}_depth{}{}", r, d, if caching { "" } else { "_nocache" }), SolverChoice::Recursive { overflow_depth: d, caching_enabled: caching, max_size: r })
        },
    ]
}

/// every limit combination (corpus subjects)
pub fn c09_configs_all() -> Vec<(String, SolverChoice)> {
    let mut v: Vec<(String, SolverChoice)> = vec![("slg".into(), SolverChoice::slg_default())];
    for s in [3usize, 6] {
        v.push((format!("slg_max{}", s), SolverChoice::slg(s, None)));
    }
    for (r, d) in [(30usize, 100usize), (4, 20), (15, 50)] {
        for caching in [true, false] {
            v.push((format!("recursive_max{}_depth{}{}", r, d, if caching { "" } else { "_nocache" }), SolverChoice::Recursive { overflow_depth: d, caching_enabled: caching, max_size: r }));
        }
    }
    v
}

/// number of distinct constructors W such that some impl has a where-clause `W<..self type..>: Tr`
/// whose type strictly contains the impl's self type (a "growing" condition)
pub fn growing_wrappers(text: &str) -> usize {
    let mut ws: Vec<String> = vec![];
    for line in text.split(|c| c == '\n' || c == '|') {
        let line = line.trim();
        if !line.starts_with("impl") {
            continue;
        }
        let (head, rest) = match line.split_once(" where ") {
            Some(x) => x,
            None => continue,
        };
        let self_ty = match head.rsplit_once(" for ") {
            Some((_, t)) => t.trim(),
            None => continue,
        };
        for cond in rest.trim_end_matches("{}").split(", ") {
            if let Some((ty, _)) = cond.split_once(':') {
                let ty = ty.trim();
                if ty != self_ty && ty.contains(self_ty) && ty.contains('<') {
                    let w = ty.split('<').next().unwrap_or("").to_string();
                    if !ws.contains(&w) {
                        ws.push(w);
                    }
                }
            }
        }
    }
    ws.len()
}

pub fn oracle_c09(ctx: &Ctx, out: &mut Out, s: &Subject, rng: &mut Rng) {
    let low = match lower_all(&s.text, &s.goal_texts) {
        Ok(l) => l,
        Err(_) => {
            out.count("program_or_goal_rejected");
            return;
        }
    };
    out.count("programs");
    out.count(&format!("subject_{}", s.family));
    let db: &dyn RustIrDatabase<ChalkIr> = &low.db;
    let configs = if s.family == "corpus" {
        c09_configs_all()
    } else if s.family == "co_unknown" {
        // the answer of these goals legitimately grows up to max_size, one constructor per round of
        // the fixed-point loop, and the work of a round grows with it (642 524 steps at the default
        // max_size 30 for `impl<T> C for V<T> where V<T>: C, T: C`, 76 s in the debug REPL; it
        // returns): small size limits keep a terminating run far below the work budget, so that
        // exceeding the budget means the size limit no longer stops the growth
        let caching = rng.chance(1, 2);
        vec![
            ("slg_max4".to_string(), SolverChoice::slg(4, None)),
            ("recursive_max4_depth100".to_string(), SolverChoice::Recursive { overflow_depth: 100, caching_enabled: true, max_size: 4 }),
            (
                format!("recursive_max6_depth100{}", if caching { "" } else { "_nocache" }),
                SolverChoice::Recursive { overflow_depth: 100, caching_enabled: caching, max_size: 6 },
            ),
        ]
    } else {
        c09_configs(rng)
    };
    for (name, choice) in configs {
        for (gt, g) in &low.goals {
            let lab = format!("{} | C09 | {} | goal {}", name, s.text.replace('\n', " "), gt);
            // the label is flushed before the call: an abort of the process is attributed to it
            if !ctx.inflight(&lab) {
                continue;
            }
            let mut solver = choice.into_solver();
            // (F33 shape: every step is heavier than the one before and the nesting of the answer
            // ends in a native stack overflow long before the ordinary budget; a small budget shows
            // the same divergence)
            let call_budget = if s.coinductive && s.text.contains("forall<'") { 1500 } else { WORK_BUDGET };
            set_budgets(Some(call_budget));
            let r = catch_full(|| solver.solve(db, g));
            let work = chalk_recursive::verif::work() + chalk_engine::verif_work::work();
            set_budgets(None);
            out.evaluations_extra += 1;
            out.count(&format!("c09_work_{}", if work < 100 { "<100" } else if work < 1000 { "100-999" } else if work < 10000 { "1000-9999" } else { ">=10000" }));
            let input = format!("subject ;; {} ;; {} ;; solver {}", s.text.replace('\n', " | "), gt, name);
            match &r {
                Ok(a) => out.count(&format!("c09_{}_{}", name.split('_').next().unwrap_or(""), match a { None => "none", Some(Solution::Unique(_)) => "unique", Some(Solution::Ambig(_)) => "ambig" })),
                Err(m) if m.contains("verif-work-budget-exceeded") => {
                    let rec = name.starts_with("recursive");
                    // without its cache the recursive solver proves every ambiguous sub-goal twice
                    // (main pass and last pass of Fulfill::solve): work doubles per level of a
                    // growing goal.  Told apart by running the same configuration with the cache.
                    let mut nocache_only = false;
                    if let SolverChoice::Recursive { overflow_depth, caching_enabled: false, max_size } = choice {
                        let mut s2 = SolverChoice::Recursive { overflow_depth, caching_enabled: true, max_size }.into_solver();
                        set_budgets(Some(call_budget));
                        let r2 = catch_full(|| s2.solve(db, g));
                        set_budgets(None);
                        nocache_only = !is_budget_panic(&r2);
                    }
                    let c = if s.coinductive && has_unknowns(gt) && s.text.contains("forall<'") {
                        // F33: a custom clause over lifetimes whose condition introduces a fresh
                        // lifetime per unfolding: the region constraints of the answer grow for ever
                        if rec { "recursive_coinductive_region_constraints_grow" } else { "slg_coinductive_region_constraints_grow" }
                    } else if rec && s.text.contains("not {") {
                        "recursive_negative_cycle_diverges"
                    } else if nocache_only {
                        "recursive_nocache_exponential_reprove"
                    } else if rec && s.coinductive && has_unknowns(gt) {
                        "recursive_coinductive_unknown_diverges"
                    } else if rec && growing_wrappers(&s.text) >= 2 {
                        // F34: two or more impls whose condition wraps the self type in different
                        // constructors: the goals S2<S3<S2<..>>> up to max_size are all distinct
                        "recursive_growing_types_exponential"
                    } else if rec {
                        "recursive_work_budget_exceeded"
                    } else if s.coinductive && !has_unknowns(gt) && !s.text.contains('<') {
                        // F32: a closed goal over a finite set of ground coinductive atoms (no generics)
                        "slg_ground_coinductive_runaway"
                    } else {
                        "slg_work_budget_exceeded"
                    };
                    out.fail(&format!("{}: solving `{}` did not return within {} steps of work", name, gt, if rec { WORK_BUDGET } else { SLG_WORK_BUDGET }), &input, c);
                }
                Err(m) if m.contains("overflow depth reached") && name.starts_with("recursive") => {
                    // allowed by the property: the proof search exceeds the configured depth.  On a
                    // fresh solver the stack holds exactly the goals of the current search path, so
                    // the panic is raised iff the search is that deep; cross-check with 8x the depth:
                    // the run must again overflow or finish
                    out.count("c09_recursive_overflow_allowed");
                    if let SolverChoice::Recursive { overflow_depth, caching_enabled, max_size } = choice {
                        let mut s2 = SolverChoice::Recursive { overflow_depth: overflow_depth * 8, caching_enabled, max_size }.into_solver();
                        set_budgets(Some(call_budget * 4));
                        let r2 = catch_full(|| s2.solve(db, g));
                        set_budgets(None);
                        match &r2 {
                            Ok(_) => out.count("c09_overflow_finishes_with_larger_depth"),
                            Err(m2) if m2.contains("overflow depth reached") => out.count("c09_overflow_again_with_larger_depth"),
                            Err(m2) if m2.contains("verif-work-budget-exceeded") => out.fail(&format!("{}: with 8x the overflow depth solving `{}` does not return within {} steps", name, gt, WORK_BUDGET * 4), &input, if caching_enabled { "recursive_work_budget_exceeded" } else { "recursive_nocache_exponential_reprove" }),
                            Err(m2) => out.fail(&format!("{}: with 8x the overflow depth solving `{}` panicked: {}", name, gt, m2), &input, "recursive_solver_panic"),
                        }
                    }
                }
                Err(m) if m.contains("negative cycle was detected") && !name.starts_with("recursive") => {
                    out.fail(&format!("{}: solving `{}` panicked: {}", name, gt, m), &input, "slg_negative_cycle_panic");
                }
                Err(m) if m.contains("Negative subgoal had delayed_subgoals") => {
                    out.fail(&format!("{}: solving `{}` panicked: {}", name, gt, m), &input, "slg_negative_subgoal_delayed_panic");
                }
                Err(m) => {
                    let c = if name.starts_with("recursive") { "recursive_solver_panic" } else { "slg_solver_panic" };
                    out.fail(&format!("{}: solving `{}` panicked: {}", name, gt, m), &input, c);
                }
            }
        }
    }
}

// ------------------------------------------------------------------------------------------------
// entry point
// ------------------------------------------------------------------------------------------------

fn run_inner(ctx: &Ctx, out: &mut Out) {
    let prop = ctx.prop.as_str();
    // corpus first
    if ctx.mine(0) {
        corpus_model_cases(ctx, out);
    }
    let subjects = corpus_subjects(ctx);
    let (focus, nmodel, nsubj) = match prop {
        "C09" => (Focus::Work, ctx.budget(600, 6000), ctx.budget(400, 5000)),
        "C10" => (Focus::History, ctx.budget(1500, 12000), ctx.budget(600, 4000)),
        "C11" => (Focus::Interrupt, ctx.budget(600, 4000), ctx.budget(300, 2000)),
        _ => (Focus::Panic, ctx.budget(500, 3000), ctx.budget(300, 1500)),
    };
    model_correspondence(ctx, out, focus, nmodel);
    let total = subjects.len() + nsubj;
    for j in 0..total {
        if !ctx.mine(j) {
            continue;
        }
        let s = if j < subjects.len() {
            Subject { text: subjects[j].text.clone(), goal_texts: subjects[j].goal_texts.clone(), family: "corpus".into(), coinductive: subjects[j].coinductive }
        } else {
            gen_subject(ctx, 20, j - subjects.len(), prop == "C09")
        };
        let mut rng = ctx.rng(21, j as u64);
        match prop {
            "C09" => oracle_c09(ctx, out, &s, &mut rng),
            "C10" => oracle_c10(ctx, out, &s, &mut rng),
            "C11" => oracle_c11(ctx, out, &s, &mut rng),
            _ => oracle_c12(ctx, out, &s, &mut rng),
        }
    }
}

pub fn run(ctx: &Ctx, out: &mut Out) {
    if ctx.shard.is_some() {
        start_watchdog();
    }
    // deep proof searches (overflow depth 100 and more) need more than the default stack
    let r = std::thread::scope(|sc| {
        std::thread::Builder::new()
            .stack_size(1 << 30)
            .spawn_scoped(sc, || {
                let mut o = Out::default();
                run_inner(ctx, &mut o);
                o
            })
            .unwrap()
            .join()
    });
    match r {
        Ok(o) => *out = o,
        Err(_) => out.fail("the harness thread panicked", "", "harness_panic"),
    }
}
