//! C17: `MayInvalidate`, `merge_into_guidance`/`AntiUnifier`, `is_trivial`, `Solution::combine`,
//! `with_priorities` — real code (through the cfg(chalk_verif) hooks) vs `Aggregate.lean`, and the
//! property's statements evaluated on the implementation with an independent matcher.
use super::c18::{edit, generalize};
use crate::gen::{heads, Gen, GenCfg};
use crate::wire::*;
use crate::wire_sol::*;
use crate::{Ctx, Out};
use chalk_engine::slg::verif as slg;
use chalk_integration::interner::ChalkIr;
use chalk_ir::*;
use chalk_solve::{Guidance, Solution};

fn norm_site(site: String) -> String {
    if site.contains("mismatched parameter kinds") {
        "mismatched parameter kinds".into()
    } else if site.contains("can't both be right") || site.contains("assertion") {
        "assert_eq substitution lengths".into()
    } else if site.contains("unexpected free inference variable") {
        "unexpected free inference variable in may-invalidate".into()
    } else {
        site
    }
}

fn root_goal_for(universes: &[usize], guidance: &[GenericArg<ChalkIr>]) -> Canonical<InEnvironment<Goal<ChalkIr>>> {
    let kinds: Vec<CanonicalVarKind<ChalkIr>> = universes
        .iter()
        .enumerate()
        .map(|(i, u)| {
            let k = match guidance.get(i).map(|g| g.data(I)) {
                Some(GenericArgData::Lifetime(_)) => VariableKind::Lifetime,
                Some(GenericArgData::Const(c)) => VariableKind::Const(c.data(I).ty.clone()),
                _ => VariableKind::Ty(TyVariableKind::General),
            };
            WithKind::new(k, UniverseIndex { counter: *u })
        })
        .collect();
    Canonical {
        binders: CanonicalVarKinds::from_iter(I, kinds),
        value: InEnvironment::new(&Environment::new(I), GoalData::All(Goals::empty(I)).intern(I)),
    }
}

fn dummy_binders(n: usize) -> CanonicalVarKinds<ChalkIr> {
    CanonicalVarKinds::from_iter(I, (0..n).map(|_| WithKind::new(VariableKind::Ty(TyVariableKind::General), UniverseIndex::root())))
}

fn do_merge(universes: &[usize], g: &[GenericArg<ChalkIr>], a: &[GenericArg<ChalkIr>]) -> Result<Canonical<Substitution<ChalkIr>>, String> {
    let root = root_goal_for(universes, g);
    let guidance = Canonical { binders: dummy_binders(8), value: Substitution::from_iter(I, g.to_vec()) };
    let answer = Canonical {
        binders: dummy_binders(8),
        value: ConstrainedSubst { subst: Substitution::from_iter(I, a.to_vec()), constraints: Constraints::empty(I) },
    };
    catch(move || slg::merge_into_guidance(I, &root, guidance, &answer)).map_err(norm_site)
}

fn info_rank(g: &Guidance<ChalkIr>) -> u8 {
    match g {
        Guidance::Unknown => 0,
        Guidance::Suggested(_) => 1,
        Guidance::Definite(_) => 2,
    }
}

pub fn exec(req: &Sexp, out: &mut Out, tags: &str) {
    let (op, xs) = match req.tagged() {
        Some(x) => x,
        None => return,
    };
    let resp = match (op, xs) {
        ("may-invalidate", [n, c]) => {
            let (new, cur) = (dec_args(n).unwrap(), dec_args(c).unwrap());
            let (n2, c2) = (new.clone(), cur.clone());
            let r = catch(move || {
                let cur = Canonical { binders: dummy_binders(8), value: Substitution::from_iter(I, c2) };
                slg::may_invalidate(I, &Substitution::from_iter(I, n2), &cur)
            })
            .map_err(norm_site);
            let kinds_agree = new.iter().zip(cur.iter()).all(|(x, y)| {
                std::mem::discriminant(x.data(I)) == std::mem::discriminant(y.data(I))
            });
            if r == Ok(false) && new.len() == cur.len() && kinds_agree {
                // property: "no future answer can change the guidance" must not be said wrongly:
                // merging `new` into `cur` must give back `cur` (up to renaming)
                let us: Vec<usize> = vec![0; cur.len()];
                out.evaluations_extra += 1;
                match do_merge(&us, &cur, &new) {
                    Ok(m) => {
                        let (ms, cs) = (enc_subst(&m.value), xs[1].clone());
                        // lifetimes at top level are always re-generalised by merge; may_invalidate
                        // answers true for them, so none occur here
                        if !(instance_of(&ms, &cs) && instance_of(&cs, &ms)) {
                            let cls = if !is_linear(&cs) { "slg_guidance_nonlinear" } else { "may_invalidate_unsound" };
                            out.fail(
                                "may_invalidate = false although merging the new answer changes the guidance",
                                &req.to_string(),
                                cls,
                            );
                        }
                    }
                    Err(_) => {}
                }
            }
            match r {
                Ok(b) => ok(atom(if b { "1" } else { "0" })),
                Err(s) => panic_resp(&s),
            }
        }
        ("merge", [us, g, a]) => {
            let us: Vec<usize> = us.as_list().unwrap().iter().map(|x| x.as_nat().unwrap()).collect();
            let (g, a) = (dec_args(g).unwrap(), dec_args(a).unwrap());
            let r = do_merge(&us, &g, &a);
            let kinds_agree = g.iter().zip(a.iter()).all(|(x, y)| {
                std::mem::discriminant(x.data(I)) == std::mem::discriminant(y.data(I))
            });
            if let (Ok(m), true) = (&r, kinds_agree) {
                // property: both merged answers are instances of the result
                let ms = erase_const_types(&enc_subst(&m.value));
                let n = g.len().min(a.len());
                let gs = erase_const_types(&enc_args(&g[..n]));
                let as_ = erase_const_types(&enc_args(&a[..n]));
                if !instance_of(&ms, &gs) {
                    out.fail("the old guidance is not an instance of the merged guidance", &req.to_string(), "merge_not_general_old");
                }
                if !instance_of(&ms, &as_) {
                    out.fail("the new answer is not an instance of the merged guidance", &req.to_string(), "merge_not_general_new");
                }
            }
            match r {
                Ok(m) => ok(enc_canon_subst(&m)),
                Err(s) => panic_resp(&s),
            }
        }
        ("is-trivial", [s]) => {
            let s = dec_args(s).unwrap();
            let c = Canonical { binders: dummy_binders(8), value: Substitution::from_iter(I, s) };
            ok(atom(if slg::is_trivial(I, &c) { "1" } else { "0" }))
        }
        ("combine", [a, b]) => {
            let (a, b) = (dec_solution(a).unwrap(), dec_solution(b).unwrap());
            let ab = a.clone().combine(b.clone(), I);
            let ba = b.clone().combine(a.clone(), I);
            let both_trivial = a.is_trivial_and_always_true(I) && b.is_trivial_and_always_true(I);
            if ab != ba && !(both_trivial && a != b) {
                out.fail("combine(a,b) != combine(b,a)", &req.to_string(), "combine_not_commutative");
            }
            // never claims more than either candidate
            let ok_no_more = ab == a
                || ab == b
                || match &ab {
                    Solution::Ambig(g) => {
                        let (ga, gb) = (a.clone().into_guidance(), b.clone().into_guidance());
                        info_rank(g) <= info_rank(&ga)
                            && info_rank(g) <= info_rank(&gb)
                            && (info_rank(g) == 0 || (*g == ga && *g == gb))
                    }
                    _ => false,
                };
            if !ok_no_more {
                out.fail("combine claims more than one of its arguments", &req.to_string(), "combine_claims_more");
            }
            ok(enc_solution(&ab))
        }
        ("with-priorities", [g, a, pa, b, pb]) => {
            let g = dec_domain_goal(g).unwrap();
            let (a, b) = (dec_solution(a).unwrap(), dec_solution(b).unwrap());
            let prio = |s: &Sexp| if s.as_atom() == Some("1") { ClausePriority::High } else { ClausePriority::Low };
            let (pa, pb) = (prio(pa), prio(pb));
            let r = catch(move || chalk_recursive::verif::with_priorities(I, &g, a, pa, b, pb)).map_err(|s| {
                if s.contains("unwrap") {
                    "called Option::unwrap on a None value".to_string()
                } else if s.contains("assertion") {
                    "assert_eq debruijn INNERMOST".to_string()
                } else if s.contains("index out of bounds") {
                    "index out of bounds".to_string()
                } else {
                    s
                }
            });
            match r {
                Ok((s, p)) => ok(list(vec![enc_solution(&s), atom(if p == ClausePriority::High { "1" } else { "0" })])),
                Err(s) => panic_resp(&s),
            }
        }
        _ => {
            out.count("unknown_op");
            return;
        }
    };
    let rs = resp.to_string();
    let kind = match resp.tagged() {
        Some(("ok", [x])) if x.as_atom().is_some() => format!("ok_{}", x),
        Some((k, _)) => k.to_string(),
        None => "?".into(),
    };
    out.count(&format!("{}_{}", op, kind));
    let nontrivial = match op {
        "may-invalidate" | "is-trivial" => true,
        "merge" => rs.contains("(bound 0"),
        "combine" | "with-priorities" => xs.len() >= 2 && xs[0] != xs[1],
        _ => true,
    };
    out.case(req.to_string(), rs, nontrivial, tags);
}

fn canon_req(req: &Sexp) -> Option<Sexp> {
    let (op, xs) = req.tagged()?;
    Some(match (op, xs) {
        ("may-invalidate", [n, c]) => tagged(op, vec![enc_args(&dec_args(n)?), enc_args(&dec_args(c)?)]),
        ("merge", [us, g, a]) => tagged(op, vec![us.clone(), enc_args(&dec_args(g)?), enc_args(&dec_args(a)?)]),
        ("is-trivial", [s]) => tagged(op, vec![enc_args(&dec_args(s)?)]),
        ("combine", [a, b]) => tagged(op, vec![enc_solution(&dec_solution(a)?), enc_solution(&dec_solution(b)?)]),
        ("with-priorities", [g, a, pa, b, pb]) => tagged(
            op,
            vec![enc_domain_goal(&dec_domain_goal(g)?), enc_solution(&dec_solution(a)?), pa.clone(), enc_solution(&dec_solution(b)?), pb.clone()],
        ),
        _ => return None,
    })
}

/// a canonical-looking substitution: 1..3 generic args over variables ^0.i
fn gen_subst(g: &mut Gen, depth: usize, n: usize) -> Sexp {
    list((0..n).map(|_| g.garg(depth, 0)).collect())
}

fn kinds_for(args: &Sexp, nvars: usize, g: &mut Gen) -> Sexp {
    let _ = args;
    list((0..nvars).map(|_| list(vec![tagged("kty", vec![atom("g")]), nat(g.rng.usize_below(3))])).collect())
}

fn gen_solution(g: &mut Gen, depth: usize, n: usize, base: Option<&Sexp>) -> Sexp {
    let subst = match base {
        Some(b) if g.rng.chance(2, 3) => b.clone(),
        _ => {
            if g.rng.chance(1, 4) {
                // identity substitution
                list((0..n).map(|i| tagged("ty", vec![tagged("bound", vec![nat(0), nat(i)])])).collect())
            } else {
                gen_subst(g, depth, n)
            }
        }
    };
    let binders = kinds_for(&subst, 3, g);
    match g.rng.weighted(&[4, 3, 2, 1]) {
        0 => {
            let cs = if g.rng.chance(1, 4) {
                vec![tagged("c-lt", vec![g.lifetime(0), g.lifetime(0)])]
            } else {
                vec![]
            };
            tagged("unique", vec![binders, subst, list(cs)])
        }
        1 => tagged("ambig", vec![tagged("definite", vec![tagged("canon", vec![binders, subst])])]),
        2 => tagged("ambig", vec![tagged("suggested", vec![tagged("canon", vec![binders, subst])])]),
        _ => tagged("ambig", vec![atom("unknown")]),
    }
}

pub fn run(ctx: &Ctx, out: &mut Out) {
    let mut lines = ctx.corpus_lines();
    if let Some(f) = &ctx.replay {
        lines = std::fs::read_to_string(f).unwrap_or_default().lines().map(|s| s.to_string()).collect();
    }
    for l in lines {
        if let Some(r) = parse(&l).and_then(|s| canon_req(&s)) {
            exec(&r, out, "corpus");
        }
    }
    if ctx.replay.is_some() {
        return;
    }
    let n = ctx.budget(5000, 200000);
    let mut hist = std::collections::BTreeMap::new();
    for i in 0..n {
        let mut rng = ctx.rng(0, i as u64);
        let depth = 1 + rng.usize_below(3);
        let malformed = rng.chance(1, 12);
        let cfg = GenCfg {
            max_depth: depth,
            free_levels: 1,
            max_index: 3,
            infer: malformed,
            binders: rng.chance(1, 3),
            max_universe: 3,
            ..GenCfg::default()
        };
        let mut g = Gen::new(&mut rng, cfg);
        let nargs = 1 + g.rng.usize_below(3);
        let op = g.rng.weighted(&[5, 5, 1, 4, 2]);
        // free inference variables are an (impossible) input only `MayInvalidate` has a panic for;
        // everywhere else the inputs are canonical values without inference variables
        if op != 0 {
            g.cfg.infer = false;
        }
        let req = match op {
            0 | 1 => {
                // two substitutions derived from a common ancestor
                let anc = gen_subst(&mut g, depth, nargs);
                let mut a = generalize_bound(&mut g, &anc);
                let mut b = generalize_bound(&mut g, &anc);
                match g.rng.weighted(&[3, 3, 2, 1]) {
                    0 => {}
                    1 => b = edit(g.rng, &b),
                    2 => a = anc.clone(), // `new` ground instance-like, `cur` generalised
                    _ => {
                        let k = if malformed { 1 + g.rng.usize_below(3) } else { nargs };
                        b = gen_subst(&mut g, depth, k)
                    }
                }
                if op == 0 {
                    tagged("may-invalidate", vec![a, b])
                } else {
                    let us: Vec<Sexp> = (0..if malformed { g.rng.usize_below(4) } else { nargs }).map(|_| nat(g.rng.usize_below(4))).collect();
                    tagged("merge", vec![list(us), b, a])
                }
            }
            2 => {
                let s = if g.rng.chance(1, 2) {
                    list((0..nargs).map(|i| tagged("ty", vec![tagged("bound", vec![nat(0), nat(if g.rng.chance(1, 5) { i + 1 } else { i })])])).collect())
                } else {
                    gen_subst(&mut g, depth, nargs)
                };
                tagged("is-trivial", vec![s])
            }
            3 => {
                let a = gen_solution(&mut g, depth, nargs, None);
                let base = match a.tagged() {
                    Some(("unique", [_, s, _])) => Some(s.clone()),
                    Some(("ambig", [gd])) => match gd.tagged() {
                        Some((_, [c])) => c.tagged().and_then(|(_, xs)| xs.get(1).cloned()),
                        _ => None,
                    },
                    _ => None,
                };
                let b = if g.rng.chance(1, 8) { a.clone() } else { gen_solution(&mut g, depth, nargs, base.as_ref()) };
                tagged("combine", vec![a, b])
            }
            _ => {
                let a = gen_solution(&mut g, 1, nargs, None);
                let b = gen_solution(&mut g, 1, nargs, None);
                let goal = if g.rng.chance(2, 3) {
                    tagged(
                        "holds",
                        vec![tagged("aeq-proj", vec![nat(g.rng.usize_below(3)), g.args(1, 0), g.ty(1, 0)])],
                    )
                } else {
                    tagged("holds", vec![g.wc(1, 0)])
                };
                tagged("with-priorities", vec![goal, a, nat(g.rng.usize_below(2)), b, nat(g.rng.usize_below(2))])
            }
        };
        heads(&req, &mut hist);
        match canon_req(&req) {
            Some(r) => exec(&r, out, if malformed { "malformed" } else { "gen" }),
            None => out.count("undecodable"),
        }
    }
    for (k, v) in hist {
        out.count_n(&format!("head_{}", k), v);
    }
}

/// generalise with bound variables ^0.i only (canonical substitutions have no inference variables)
fn generalize_bound(g: &mut Gen, s: &Sexp) -> Sexp {
    let mut f = |_t: &Sexp| -> Option<Sexp> {
        if g.rng.chance(1, 4) {
            Some(tagged("bound", vec![nat(0), nat(g.rng.usize_below(3))]))
        } else {
            None
        }
    };
    map_types(s, &mut f)
}
