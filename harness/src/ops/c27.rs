//! C27: the real `fallible_map_vec` / `fallible_map_box` (chalk-ir/src/fold/in_place.rs, reached
//! through the `cfg(chalk_verif)` hook `chalk_ir::fold::verif`) run on drop-recording element
//! types, for every length up to the tier's bound, every failing position, both failure modes
//! (`Err` return, panic caught by `catch_unwind`) and twelve layout / drop-glue situations
//! (element types with and without a destructor: a type without drop glue logs nothing); the drop log as a
//! sorted multiset and the returned contents are compared with the Lean slot model
//! (`lean/ChalkModel/InPlace.lean`), and the property itself (every element dropped exactly once
//! on failure, none on success) is evaluated directly on the real run.
//!
//! Request lines:  (map-vec <layout> <n> <k|none> <err|panic|none>)   (map-box <layout> <err|panic|none>)
//! Answer lines:   (<ok|err|panic> (<ids of the returned elements>) ((<id> <T|U|cb>) ... sorted))
use crate::wire::*;
use crate::{Ctx, Out};
use chalk_ir::fold::verif::{fallible_map_box, fallible_map_vec};
use std::cell::{Cell, RefCell};
use std::panic::{catch_unwind, AssertUnwindSafe};

const TAG_T: u8 = 0;
const TAG_U: u8 = 1;
const TAG_CB: u8 = 2;
const TAG_NAMES: [&str; 3] = ["T", "U", "cb"];

thread_local! {
    /// every destructor run of an element: (id, tag)
    static LOG: RefCell<Vec<(usize, u8)>> = RefCell::new(Vec::new());
    /// true while the `map` callback's frame owns its argument
    static IN_CB: Cell<bool> = Cell::new(false);
}

fn log_push(id: usize, tag: u8) {
    LOG.with(|l| l.borrow_mut().push((id, tag)));
}
fn log_snapshot() -> Vec<(usize, u8)> {
    let mut v = LOG.with(|l| l.borrow().clone());
    v.sort();
    v
}
fn log_reset() {
    LOG.with(|l| l.borrow_mut().clear());
    IN_CB.with(|c| c.set(false));
}

struct CbFrame;
impl CbFrame {
    fn enter() -> CbFrame {
        IN_CB.with(|c| c.set(true));
        CbFrame
    }
}
impl Drop for CbFrame {
    fn drop(&mut self) {
        IN_CB.with(|c| c.set(false));
    }
}

/// element of the input (`T`) / of the output (`U`)
trait Elem: Sized {
    const ZST: bool;
    fn new(id: usize) -> Self;
    fn id(&self) -> usize;
}

macro_rules! src_elem {
    ($name:ident, $zst:expr, { $($field:ident : $fty:ty),* }, $new:expr, $id:expr) => {
        #[repr(C)]
        struct $name { $($field: $fty),* }
        impl Elem for $name {
            const ZST: bool = $zst;
            #[allow(unused_variables)]
            fn new(id: usize) -> Self { let f: fn(usize) -> Self = $new; f(id) }
            fn id(&self) -> usize { let f: fn(&Self) -> usize = $id; f(self) }
        }
        impl Drop for $name {
            fn drop(&mut self) {
                let tag = if IN_CB.with(|c| c.get()) { TAG_CB } else { TAG_T };
                log_push(self.id(), tag);
            }
        }
    };
}
macro_rules! dst_elem {
    ($name:ident, $zst:expr, { $($field:ident : $fty:ty),* }, $new:expr, $id:expr) => {
        #[repr(C)]
        struct $name { $($field: $fty),* }
        impl Elem for $name {
            const ZST: bool = $zst;
            #[allow(unused_variables)]
            fn new(id: usize) -> Self { let f: fn(usize) -> Self = $new; f(id) }
            fn id(&self) -> usize { let f: fn(&Self) -> usize = $id; f(self) }
        }
        impl Drop for $name {
            fn drop(&mut self) {
                log_push(self.id(), TAG_U);
            }
        }
    };
}

/// element type without drop glue (`mem::needs_drop` is false): its drops are unobservable
macro_rules! plain_elem {
    ($name:ident, { $($field:ident : $fty:ty),* }, $new:expr, $id:expr) => {
        #[repr(C)]
        struct $name { $($field: $fty),* }
        impl Elem for $name {
            const ZST: bool = false;
            fn new(id: usize) -> Self { let f: fn(usize) -> Self = $new; f(id) }
            fn id(&self) -> usize { let f: fn(&Self) -> usize = $id; f(self) }
        }
    };
}

// size 8, align 4, no destructor, id at offset 0 (as `T`) / at offset 4 (as `U`)
plain_elem!(P8, { id: u32, pad: u32 }, |id| P8 { id: id as u32, pad: 0xC3C3_C3C3 }, |s| s.id as usize);
plain_elem!(Q8, { pad: u32, id: u32 }, |id| Q8 { pad: 0x3C3C_3C3C, id: id as u32 }, |s| s.id as usize);
// size 4, align 4
src_elem!(T4, false, { id: u32 }, |id| T4 { id: id as u32 }, |s| s.id as usize);
// size 16, align 4 (a multiple of U4's size: `std` may collect such a vector in place by itself)
src_elem!(T16, false, { id: u32, pad: [u32; 3] }, |id| T16 { id: id as u32, pad: [0xA5A5_A5A5; 3] }, |s| s.id as usize);
// size 8, align 4, id at offset 0
src_elem!(T8, false, { id: u32, pad: u32 }, |id| T8 { id: id as u32, pad: 0xA5A5_A5A5 }, |s| s.id as usize);
// size 0
src_elem!(TZ, true, {}, |_| TZ {}, |_| 0);
// size 4, align 4: identical to T4
dst_elem!(U4, false, { id: u32 }, |id| U4 { id: id as u32 }, |s| s.id as usize);
// size 16, align 8: larger than T4
dst_elem!(U16, false, { id: u32, pad: u64 }, |id| U16 { id: id as u32, pad: 0x5A5A_5A5A_5A5A_5A5A }, |s| s.id as usize);
// size 8, align 4, id at offset 4: identical layout to T8 with the fields at other offsets
dst_elem!(U8, false, { pad: u32, id: u32 }, |id| U8 { pad: 0x5A5A_5A5A, id: id as u32 }, |s| s.id as usize);
// size 0
dst_elem!(UZ, true, {}, |_| UZ {}, |_| 0);

pub const LAYOUTS: [&str; 12] = ["same", "same-wide", "plain-to-drop", "drop-to-plain", "plain-to-plain", "diff", "plain-diff", "diff-plain", "shrink", "zst", "zst-sized", "sized-zst"];

#[derive(Clone, Copy, PartialEq, Debug)]
enum Mode {
    None,
    Err,
    Panic,
}
impl Mode {
    fn name(self) -> &'static str {
        match self {
            Mode::None => "none",
            Mode::Err => "err",
            Mode::Panic => "panic",
        }
    }
    fn parse(s: &str) -> Option<Mode> {
        Some(match s {
            "none" => Mode::None,
            "err" => Mode::Err,
            "panic" => Mode::Panic,
            _ => return None,
        })
    }
}

/// what was observed on the real run
struct Obs {
    exit: &'static str,
    /// ids of the returned elements (success only)
    result: Vec<usize>,
    /// sorted drop log at the moment the call returned / unwound
    log: Vec<(usize, u8)>,
    /// sorted drop log after the returned value was dropped as well
    log_after_result_drop: Vec<(usize, u8)>,
    /// the callback saw an element other than the one at its position
    wrong_element_seen: bool,
    /// (is_layout_identical::<T,U>(), is_zst::<T>()) as chalk computes them, needs_drop::<T>(), needs_drop::<U>()
    layout: (bool, bool, bool, bool),
    t_zst: bool,
    u_zst: bool,
}

fn t_id<S: Elem>(i: usize) -> usize {
    if S::ZST {
        0
    } else {
        i
    }
}
fn u_id<D: Elem>(i: usize) -> usize {
    if D::ZST {
        0
    } else {
        100 + i
    }
}

fn layout_of<S, D>() -> (bool, bool, bool, bool) {
    use std::mem::{align_of, needs_drop, size_of};
    (
        size_of::<S>() == size_of::<D>() && align_of::<S>() == align_of::<D>(),
        size_of::<S>() == 0,
        needs_drop::<S>(),
        needs_drop::<D>(),
    )
}

/// the `map` callback: owns `x`; fails at call number `k` in the requested way, otherwise turns
/// the `T` into a `U` without running `T`'s destructor (as folding does: the value is consumed)
fn callback<S: Elem, D: Elem>(x: S, i: usize, k: Option<usize>, mode: Mode, wrong: &Cell<bool>) -> Result<D, ()> {
    let _frame = CbFrame::enter();
    let x = x; // declared after `_frame`: dropped before it on every exit path
    if x.id() != t_id::<S>(i) {
        wrong.set(true);
    }
    if Some(i) == k {
        match mode {
            Mode::Err => return Err(()),
            Mode::Panic => panic!("c27 callback panic"),
            Mode::None => {}
        }
    }
    std::mem::forget(x);
    Ok(D::new(u_id::<D>(i)))
}

fn run_vec<S: Elem, D: Elem>(n: usize, k: Option<usize>, mode: Mode) -> Obs {
    log_reset();
    let v: Vec<S> = (0..n).map(|i| S::new(t_id::<S>(i))).collect();
    let wrong = Cell::new(false);
    let mut calls = 0usize;
    let r = catch_unwind(AssertUnwindSafe(|| {
        fallible_map_vec(v, |x: S| -> Result<D, ()> {
            let i = calls;
            calls += 1;
            callback::<S, D>(x, i, k, mode, &wrong)
        })
    }));
    let log = log_snapshot();
    let (exit, result) = match r {
        Ok(Ok(vec)) => {
            let ids: Vec<usize> = vec.iter().map(|u| u.id()).collect();
            drop(vec);
            ("ok", ids)
        }
        Ok(Err(())) => ("err", vec![]),
        Err(_) => ("panic", vec![]),
    };
    Obs {
        exit,
        result,
        log,
        log_after_result_drop: log_snapshot(),
        wrong_element_seen: wrong.get(),
        layout: layout_of::<S, D>(),
        t_zst: S::ZST,
        u_zst: D::ZST,
    }
}

fn run_box<S: Elem, D: Elem>(mode: Mode) -> Obs {
    log_reset();
    let b: Box<S> = Box::new(S::new(t_id::<S>(0)));
    let wrong = Cell::new(false);
    let r = catch_unwind(AssertUnwindSafe(|| {
        fallible_map_box(b, |x: S| -> Result<D, ()> { callback::<S, D>(x, 0, Some(0), mode, &wrong) })
    }));
    let log = log_snapshot();
    let (exit, result) = match r {
        Ok(Ok(bx)) => {
            let ids = vec![bx.id()];
            drop(bx);
            ("ok", ids)
        }
        Ok(Err(())) => ("err", vec![]),
        Err(_) => ("panic", vec![]),
    };
    Obs {
        exit,
        result,
        log,
        log_after_result_drop: log_snapshot(),
        wrong_element_seen: wrong.get(),
        layout: layout_of::<S, D>(),
        t_zst: S::ZST,
        u_zst: D::ZST,
    }
}

fn vec_for(layout: &str, n: usize, k: Option<usize>, mode: Mode) -> Option<Obs> {
    Some(match layout {
        "same" => run_vec::<T4, U4>(n, k, mode),
        "same-wide" => run_vec::<T8, U8>(n, k, mode),
        "plain-to-drop" => run_vec::<P8, U8>(n, k, mode),
        "drop-to-plain" => run_vec::<T8, Q8>(n, k, mode),
        "plain-to-plain" => run_vec::<P8, Q8>(n, k, mode),
        "plain-diff" => run_vec::<P8, U16>(n, k, mode),
        "diff-plain" => run_vec::<T4, Q8>(n, k, mode),
        "diff" => run_vec::<T4, U16>(n, k, mode),
        "shrink" => run_vec::<T16, U4>(n, k, mode),
        "zst" => run_vec::<TZ, UZ>(n, k, mode),
        "zst-sized" => run_vec::<TZ, U4>(n, k, mode),
        "sized-zst" => run_vec::<T4, UZ>(n, k, mode),
        _ => return None,
    })
}
fn box_for(layout: &str, mode: Mode) -> Option<Obs> {
    Some(match layout {
        "same" => run_box::<T4, U4>(mode),
        "same-wide" => run_box::<T8, U8>(mode),
        "plain-to-drop" => run_box::<P8, U8>(mode),
        "drop-to-plain" => run_box::<T8, Q8>(mode),
        "plain-to-plain" => run_box::<P8, Q8>(mode),
        "plain-diff" => run_box::<P8, U16>(mode),
        "diff-plain" => run_box::<T4, Q8>(mode),
        "diff" => run_box::<T4, U16>(mode),
        "shrink" => run_box::<T16, U4>(mode),
        "zst" => run_box::<TZ, UZ>(mode),
        "zst-sized" => run_box::<TZ, U4>(mode),
        "sized-zst" => run_box::<T4, UZ>(mode),
        _ => return None,
    })
}

/// what chalk's two layout tests and `mem::needs_drop` must answer for the layout name (the Lean
/// driver assumes this): (identical, T zero-sized, T has drop glue, U has drop glue)
fn promised_layout(layout: &str) -> (bool, bool, bool, bool) {
    match layout {
        "same" | "same-wide" => (true, false, true, true),
        "plain-to-drop" => (true, false, false, true),
        "drop-to-plain" => (true, false, true, false),
        "plain-to-plain" => (true, false, false, false),
        "plain-diff" => (false, false, false, true),
        "diff-plain" => (false, false, true, false),
        "zst" => (true, true, true, true),
        "zst-sized" => (false, true, true, true),
        _ => (false, false, true, true),
    }
}

fn render(o: &Obs) -> String {
    let ids = list(o.result.iter().map(|&i| nat(i)).collect());
    let log = list(o.log.iter().map(|&(id, t)| list(vec![nat(id), atom(TAG_NAMES[t as usize])])).collect());
    list(vec![atom(o.exit), ids, log]).to_string()
}

/// the property's own statement, evaluated on the real run (independent of the model)
fn judge(o: &Obs, n: usize, k: Option<usize>, mode: Mode, layout: &str, req: &str, out: &mut Out) {
    let tid = |i: usize| if o.t_zst { 0 } else { i };
    let uid = |i: usize| if o.u_zst { 0 } else { 100 + i };
    if o.layout != promised_layout(layout) {
        out.fail("element types of the harness do not have the layout relation their name promises", req, "harness_layout");
    }
    if o.wrong_element_seen {
        out.fail("the callback was handed an element other than the one at its position", req, "wrong_element_read");
    }
    let failing = match (k, mode) {
        (Some(k), Mode::Err) | (Some(k), Mode::Panic) if k < n => Some(k),
        _ => None,
    };
    let want_exit = match (failing, mode) {
        (Some(_), Mode::Err) => "err",
        (Some(_), Mode::Panic) => "panic",
        _ => "ok",
    };
    if o.exit != want_exit {
        out.fail(&format!("left with `{}`, the callback's behaviour requires `{}`", o.exit, want_exit), req, "wrong_exit");
        return;
    }
    // expected multiset of destructor runs at the moment the call is left
    let mut want: Vec<(usize, u8)> = vec![];
    if let Some(k) = failing {
        // only types with drop glue have observable destructor runs
        let (t_glue, u_glue) = (o.layout.2, o.layout.3);
        for i in 0..k {
            if u_glue {
                want.push((uid(i), TAG_U));
            }
        }
        if t_glue {
            want.push((tid(k), TAG_CB));
            for i in k + 1..n {
                want.push((tid(i), TAG_T));
            }
        }
    }
    want.sort();
    let count = |v: &Vec<(usize, u8)>, e: (usize, u8)| v.iter().filter(|x| **x == e).count();
    let mut keys = want.clone();
    keys.extend(o.log.iter().cloned());
    keys.sort();
    keys.dedup();
    for e in keys {
        let (w, g) = (count(&want, e), count(&o.log, e));
        let what = format!("element ({} {})", e.0, TAG_NAMES[e.1 as usize]);
        if failing.is_none() && g > 0 {
            out.fail(&format!("{} dropped {} time(s) although the map succeeded", what, g), req, "drop_on_success");
        } else if g > w {
            // on failure every position of the vector has exactly one expected destructor run, so a
            // further run on an element whose position can be told from its id is a second drop
            let pos = match e.1 {
                TAG_U if !o.u_zst => e.0.checked_sub(100),
                TAG_T | TAG_CB if !o.t_zst => Some(e.0),
                _ => None,
            };
            if w > 0 || pos.map_or(false, |p| p < n) {
                out.fail(&format!("{} dropped {} time(s), expected {}: the element is dropped twice", what, g, w), req, "double_drop");
            } else {
                out.fail(&format!("{} dropped {} time(s), must not be dropped here", what, g), req, "unexpected_drop");
            }
        } else if g < w {
            out.fail(&format!("{} dropped {} time(s), expected {}: leaked", what, g, w), req, "leak");
        }
    }
    if failing.is_none() {
        let want_ids: Vec<usize> = (0..n).map(uid).collect();
        if o.result != want_ids {
            out.fail(&format!("returned elements {:?}, expected {:?}", o.result, want_ids), req, "wrong_result");
        }
        // dropping the returned value runs each `U` destructor exactly once and nothing else
        let mut after: Vec<(usize, u8)> = if o.layout.3 { want_ids.iter().map(|&i| (i, TAG_U)).collect() } else { vec![] };
        after.sort();
        if o.log_after_result_drop != after {
            out.fail("dropping the returned value did not drop each mapped element exactly once", req, "result_drop");
        }
    } else if o.log_after_result_drop != o.log {
        out.fail("destructors ran after the failed call had been left", req, "late_drop");
    }
}

pub fn exec(req: &Sexp, out: &mut Out, tags: &str) {
    let rs = req.to_string();
    let (op, xs) = match req.tagged() {
        Some(x) => x,
        None => return,
    };
    match (op, xs) {
        ("map-vec", [lay, n, k, mode]) => {
            let (lay, n) = (lay.as_atom().unwrap_or(""), n.as_nat().unwrap_or(0));
            let k = k.as_nat();
            let mode = match mode.as_atom().and_then(Mode::parse) {
                Some(m) => m,
                None => return out.count("undecodable"),
            };
            let o = match vec_for(lay, n, k, mode) {
                Some(o) => o,
                None => return out.count("undecodable"),
            };
            judge(&o, n, k, mode, lay, &rs, out);
            out.count(&format!("vec_{}_{}", lay, o.exit));
            out.count(if o.layout.0 && !o.layout.1 { "path_in_place" } else { "path_fallback" });
            out.case(rs, render(&o), n > 0, &format!("{} {}", tags, lay));
        }
        ("map-box", [lay, mode]) => {
            let lay = lay.as_atom().unwrap_or("");
            let mode = match mode.as_atom().and_then(Mode::parse) {
                Some(m) => m,
                None => return out.count("undecodable"),
            };
            let o = match box_for(lay, mode) {
                Some(o) => o,
                None => return out.count("undecodable"),
            };
            judge(&o, 1, Some(0), mode, lay, &rs, out);
            out.count(&format!("box_{}_{}", lay, o.exit));
            out.count(if o.layout.0 && !o.layout.1 { "path_in_place" } else { "path_fallback" });
            out.case(rs, render(&o), true, &format!("{} {}", tags, lay));
        }
        _ => out.count("unknown_op"),
    }
}

pub fn run(ctx: &Ctx, out: &mut Out) {
    let mut lines = ctx.corpus_lines();
    if let Some(f) = &ctx.replay {
        lines = std::fs::read_to_string(f).unwrap_or_default().lines().map(|s| s.to_string()).collect();
    }
    for l in lines {
        if let Some(r) = parse(&l) {
            exec(&r, out, "corpus");
        }
    }
    if ctx.replay.is_some() {
        return;
    }
    // the whole space up to the bound is enumerated: every layout x length x failing position
    // (and the run without failure) x failure mode; no randomness is used
    let max_n = if ctx.thorough() { 64 } else { 8 };
    for lay in LAYOUTS.iter() {
        for n in 0..=max_n {
            exec(&tagged("map-vec", vec![atom(lay), nat(n), atom("none"), atom("none")]), out, "gen");
            for k in 0..n {
                for mode in [Mode::Err, Mode::Panic].iter() {
                    exec(&tagged("map-vec", vec![atom(lay), nat(n), nat(k), atom(mode.name())]), out, "gen");
                }
            }
        }
        for mode in [Mode::None, Mode::Err, Mode::Panic].iter() {
            exec(&tagged("map-box", vec![atom(lay), atom(mode.name())]), out, "gen");
        }
    }
    out.count("exhaustive");
    out.count_n("max_len", max_n as u64);
    out.notes.push(format!(
        "C27: exhaustive up to length {} over layouts {:?}; the allocator (sizes/capacities passed to dealloc, \
         reads of uninitialised bytes) is not observable by this harness and not modelled; this run is not under Miri",
        max_n, LAYOUTS
    ));
}
