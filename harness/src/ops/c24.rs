//! C24: parsing and lowering never crash.
//!
//! Three input streams through the real `chalk_parse::parse_program`, `chalk_parse::parse_goal`,
//! `ChalkDatabase::with(text, ..).program_ir()` and `lower_goal`, every call under
//! `wire::catch` (catch_unwind) with a panic hook that records the panic *location*:
//!   (a) random bytes / random UTF-8 / mutated valid programs and goals (seed corpus = the
//!       `program { .. }` / `goal { .. }` blocks of /repo/tests/test/*.rs and /repo/tests/lowering/*.rs,
//!       extracted at run time by a brace matcher);
//!   (b) token sequences over the terminals of /repo/chalk-parse/src/parser.lalrpop, random and
//!       almost grammatical (a valid token sequence with a few tokens deleted/inserted/swapped);
//!   (c) syntactically valid programs from a small grammar with injected semantic errors; for
//!       these (and for every seed program) the AST *that chalk_parse produced* is serialised
//!       and sent to the Lean model (`Resolve.lean`), outcome classes are compared exactly.
//! Deeply nested inputs run in a child process (a native stack overflow aborts the process).
use crate::wire::{atom, list, tagged, Sexp};
use crate::{Ctx, Out};
use chalk_integration::db::ChalkDatabase;
use chalk_integration::lowering::{lower_goal, Lower};
use chalk_integration::program::Program;
use chalk_integration::query::LoweringDatabase;
use chalk_integration::SolverChoice;
use chalk_parse::ast;
use std::cell::RefCell;
use std::collections::BTreeMap;
use std::panic::AssertUnwindSafe;
use std::sync::Arc;

const REPO: &str = "/repo";

// ------------------------------------------------------------------ panic capture

thread_local! {
    static LAST_PANIC: RefCell<Option<String>> = RefCell::new(None);
}

fn payload_msg(p: &(dyn std::any::Any + Send)) -> String {
    if let Some(s) = p.downcast_ref::<&str>() {
        s.to_string()
    } else if let Some(s) = p.downcast_ref::<String>() {
        s.clone()
    } else {
        "non-string-payload".into()
    }
}

/// "file:line" with the checkout prefix removed; the generated parser has no stable line
/// numbers, so its panics are classified by message.
fn normalise_site(file: &str, line: u32, msg: &str) -> String {
    let short: String = msg.chars().take(48).map(|c| if c.is_whitespace() { '_' } else { c }).collect();
    if file.ends_with("parser.rs") && file.contains("/out/") {
        return format!("chalk-parse/parser.lalrpop(generated):{}", short);
    }
    let f = match file.rfind("/chalk-") {
        Some(i) => &file[i + 1..],
        None => match file.find("/library/") {
            Some(i) => &file[i + 1..],
            None => file,
        },
    };
    format!("{}:{}", f, line)
}

fn install_hook() {
    std::panic::set_hook(Box::new(|info| {
        let msg = payload_msg(info.payload());
        let site = match info.location() {
            Some(l) => normalise_site(l.file(), l.line(), &msg),
            None => msg.chars().take(60).collect(),
        };
        LAST_PANIC.with(|c| *c.borrow_mut() = Some(site));
    }));
}

fn catch<T>(f: impl FnOnce() -> T) -> Result<T, String> {
    LAST_PANIC.with(|c| *c.borrow_mut() = None);
    match crate::wire::catch(AssertUnwindSafe(f)) {
        Ok(x) => Ok(x),
        Err(m) => Err(LAST_PANIC.with(|c| c.borrow_mut().take()).unwrap_or(m)),
    }
}

fn model_site(site: &str) -> String {
    site.to_string()
}

// ------------------------------------------------------------------ one input

#[derive(Clone, Debug, PartialEq, Eq)]
pub enum Res {
    Ok,
    ParseErr,
    Err(String),
    Panic(String),
    None,
}

impl Res {
    fn class(&self) -> String {
        match self {
            Res::Ok => "ok".into(),
            Res::ParseErr => "parse-error".into(),
            Res::Err(k) => format!("err:{}", k),
            Res::Panic(_) => "panic".into(),
            Res::None => "none".into(),
        }
    }
    fn sexp(&self, tag: &str) -> Sexp {
        match self {
            Res::Ok => tagged(tag, vec![atom("ok")]),
            Res::ParseErr => tagged(tag, vec![atom("parse-error")]),
            Res::Err(k) => tagged(tag, vec![atom("err"), atom(k)]),
            Res::Panic(s) => tagged(tag, vec![atom("panic"), atom(&model_site(s).replace(' ', "_").replace('(', "[").replace(')', "]"))]),
            Res::None => tagged(tag, vec![atom("none")]),
        }
    }
}

fn err_kind<E: std::fmt::Debug>(e: &E) -> String {
    let d = format!("{:?}", e);
    d.chars().take_while(|c| c.is_ascii_alphanumeric() || *c == '_').collect()
}

pub struct ProgRun {
    pub parse: Res,
    pub lower: Res,
    pub ast: Option<ast::Program>,
    pub program: Option<Arc<Program>>,
}

pub fn run_program(text: &str) -> ProgRun {
    let (parse, ast) = match catch(|| chalk_parse::parse_program(text).map_err(|e| e.to_string())) {
        Ok(Ok(a)) => (Res::Ok, Some(a)),
        Ok(Err(_)) => (Res::ParseErr, None),
        Err(site) => (Res::Panic(site), None),
    };
    if parse == Res::ParseErr {
        // program_ir would only parse the same text again
        return ProgRun { parse, lower: Res::ParseErr, ast: None, program: None };
    }
    // the real entry point (salsa query): parse + lower
    let text2 = text.to_string();
    let (mut lower, program) = match catch(move || ChalkDatabase::with(&text2, SolverChoice::slg_default()).program_ir()) {
        Ok(Ok(p)) => (Res::Ok, Some(p)),
        Ok(Err(e)) => (Res::Err(e.to_string()), None),
        Err(site) => (Res::Panic(site), None),
    };
    if let Res::Err(_) = lower {
        // recover the RustIrError variant (ChalkError only keeps the text)
        lower = match &ast {
            None => Res::ParseErr,
            Some(a) => match catch(|| a.lower()) {
                Ok(Ok(_)) => Res::Err("program_ir-failed-but-lower-succeeded".into()),
                Ok(Err(e)) => Res::Err(err_kind(&e)),
                Err(site) => Res::Panic(site),
            },
        };
    }
    ProgRun { parse, lower, ast, program }
}

pub struct GoalRun {
    pub parse: Res,
    pub lower: Res,
    pub ast: Option<Box<ast::Goal>>,
}

pub fn run_goal(text: &str, program: Option<&Arc<Program>>) -> GoalRun {
    let (parse, ast) = match catch(|| chalk_parse::parse_goal(text).map_err(|e| e.to_string())) {
        Ok(Ok(a)) => (Res::Ok, Some(a)),
        Ok(Err(_)) => (Res::ParseErr, None),
        Err(site) => (Res::Panic(site), None),
    };
    let lower = match (&ast, program) {
        (Some(g), Some(p)) => {
            match catch(|| chalk_integration::tls::set_current_program(p, || lower_goal(g, p).map(|g| std::mem::drop(g)))) {
                Ok(Ok(())) => Res::Ok,
                Ok(Err(e)) => Res::Err(err_kind(&e)),
                Err(site) => Res::Panic(site),
            }
        }
        _ => Res::None,
    };
    GoalRun { parse, lower, ast }
}

// ------------------------------------------------------------------ escaping of inputs (one line)

pub fn escape(bytes: &[u8]) -> String {
    let mut o = String::new();
    for &b in bytes {
        match b {
            b'\\' => o.push_str("\\\\"),
            b'\n' => o.push_str("\\n"),
            b'\r' => o.push_str("\\r"),
            b'\t' => o.push_str("\\t"),
            0x20..=0x7e => o.push(b as char),
            _ => o.push_str(&format!("\\x{:02x}", b)),
        }
    }
    o
}

pub fn unescape(s: &str) -> Vec<u8> {
    let b = s.as_bytes();
    let mut o = vec![];
    let mut i = 0;
    while i < b.len() {
        if b[i] == b'\\' && i + 1 < b.len() {
            match b[i + 1] {
                b'\\' => { o.push(b'\\'); i += 2; }
                b'n' => { o.push(b'\n'); i += 2; }
                b'r' => { o.push(b'\r'); i += 2; }
                b't' => { o.push(b'\t'); i += 2; }
                b'x' if i + 3 < b.len() + 0 && i + 4 <= b.len() => {
                    let h = std::str::from_utf8(&b[i + 2..i + 4]).ok().and_then(|h| u8::from_str_radix(h, 16).ok());
                    match h {
                        Some(v) => { o.push(v); i += 4; }
                        None => { o.push(b[i]); i += 1; }
                    }
                }
                _ => { o.push(b[i]); i += 1; }
            }
        } else {
            o.push(b[i]);
            i += 1;
        }
    }
    o
}

/// `text: <escaped program> ;; <escaped goal>` — the replayable form of an input
pub fn input_line(prog: &[u8], goal: Option<&[u8]>) -> String {
    match goal {
        Some(g) => format!("text: {} ;; {}", escape(prog), escape(g)),
        None => format!("text: {}", escape(prog)),
    }
}

pub fn parse_input_line(l: &str) -> Option<(Vec<u8>, Option<Vec<u8>>)> {
    let l = l.trim();
    let rest = l.strip_prefix("text:")?.trim_start();
    match rest.find(" ;; ") {
        Some(i) => Some((unescape(&rest[..i]), Some(unescape(&rest[i + 4..])))),
        None => Some((unescape(rest), None)),
    }
}

// ------------------------------------------------------------------ seed corpus (follows the repo)

#[derive(Clone)]
pub struct Seed {
    pub program: String,
    pub goals: Vec<String>,
}

fn match_brace(b: &[u8], open: usize) -> Option<usize> {
    // b[open] == '{'; returns index of the matching '}' (line comments skipped)
    let mut depth = 0i64;
    let mut i = open;
    while i < b.len() {
        if b[i] == b'/' && i + 1 < b.len() && b[i + 1] == b'/' {
            while i < b.len() && b[i] != b'\n' {
                i += 1;
            }
            continue;
        }
        if b[i] == b'{' {
            depth += 1;
        } else if b[i] == b'}' {
            depth -= 1;
            if depth == 0 {
                return Some(i);
            }
        }
        i += 1;
    }
    None
}

fn find_blocks(src: &str) -> Vec<(bool, String)> {
    // (is_program, body) in source order
    let b = src.as_bytes();
    let mut v = vec![];
    let mut i = 0;
    while i < b.len() {
        let is_word_start = i == 0 || !(b[i - 1].is_ascii_alphanumeric() || b[i - 1] == b'_');
        let kw = if is_word_start && src[i..].starts_with("program") {
            Some((true, 7))
        } else if is_word_start && src[i..].starts_with("goal") {
            Some((false, 4))
        } else {
            None
        };
        if let Some((is_prog, n)) = kw {
            let mut j = i + n;
            while j < b.len() && b[j].is_ascii_whitespace() {
                j += 1;
            }
            if j < b.len() && b[j] == b'{' {
                if let Some(k) = match_brace(b, j) {
                    v.push((is_prog, src[j + 1..k].to_string()));
                    i = k + 1;
                    continue;
                }
            }
        }
        i += 1;
    }
    v
}

pub fn load_seeds() -> Vec<Seed> {
    let mut files = vec![];
    for dir in &["tests/test", "tests/lowering"] {
        let mut stack = vec![std::path::PathBuf::from(format!("{}/{}", REPO, dir))];
        while let Some(d) = stack.pop() {
            if let Ok(rd) = std::fs::read_dir(&d) {
                for e in rd.filter_map(|e| e.ok()) {
                    let p = e.path();
                    if p.is_dir() {
                        stack.push(p);
                    } else if p.extension().map(|x| x == "rs").unwrap_or(false) {
                        files.push(p);
                    }
                }
            }
        }
    }
    files.sort();
    let mut seeds: Vec<Seed> = vec![];
    for f in files {
        let src = match std::fs::read_to_string(&f) {
            Ok(s) => s,
            Err(_) => continue,
        };
        let mut cur: Option<Seed> = None;
        for (is_prog, body) in find_blocks(&src) {
            if is_prog {
                if let Some(s) = cur.take() {
                    seeds.push(s);
                }
                cur = Some(Seed { program: body, goals: vec![] });
            } else if let Some(s) = cur.as_mut() {
                s.goals.push(body);
            }
        }
        if let Some(s) = cur.take() {
            seeds.push(s);
        }
    }
    seeds
}

// ------------------------------------------------------------------ vocabulary of the grammar

pub fn load_vocabulary() -> Vec<String> {
    let src = std::fs::read_to_string(format!("{}/chalk-parse/src/parser.lalrpop", REPO)).unwrap_or_default();
    let b = src.as_bytes();
    let mut set = std::collections::BTreeSet::new();
    let mut i = 0;
    while i < b.len() {
        if b[i] == b'/' && i + 1 < b.len() && b[i + 1] == b'/' {
            while i < b.len() && b[i] != b'\n' {
                i += 1;
            }
            continue;
        }
        if b[i] == b'r' && i + 1 < b.len() && b[i + 1] == b'"' {
            // regex terminal: skip
            i += 2;
            while i < b.len() && b[i] != b'"' {
                i += 1;
            }
            i += 1;
            continue;
        }
        if b[i] == b'"' {
            let mut j = i + 1;
            let mut s = String::new();
            while j < b.len() && b[j] != b'"' {
                if b[j] == b'\\' && j + 1 < b.len() {
                    s.push(b[j + 1] as char);
                    j += 2;
                } else {
                    s.push(b[j] as char);
                    j += 1;
                }
            }
            if !s.is_empty() && !s.contains(' ') {
                set.insert(s);
            }
            i = j + 1;
            continue;
        }
        i += 1;
    }
    let mut v: Vec<String> = set.into_iter().collect();
    for extra in &[
        "Foo", "Bar", "Baz", "T", "U", "S", "E", "Self", "Item", "Vec", "__FIXME_SELF__", "N", "f", "'a", "'b", "'static", "'erased", "0", "1",
        "3", "4294967295", "4294967296", "99999999999999999999", "// c\n", "Rust", "C",
    ] {
        if !v.iter().any(|x| x == extra) {
            v.push(extra.to_string());
        }
    }
    v
}

/// split chalk text into tokens (identifiers, lifetimes, numbers, multi-char punctuation)
pub fn tokenize(s: &str) -> Vec<String> {
    let c: Vec<char> = s.chars().collect();
    let mut v = vec![];
    let mut i = 0;
    while i < c.len() {
        let ch = c[i];
        if ch.is_whitespace() {
            i += 1;
        } else if ch == '/' && i + 1 < c.len() && c[i + 1] == '/' {
            let mut j = i;
            while j < c.len() && c[j] != '\n' {
                j += 1;
            }
            let mut t: String = c[i..j].iter().collect();
            t.push('\n');
            v.push(t);
            i = j;
        } else if ch.is_alphanumeric() || ch == '_' || ch == '\'' {
            let mut j = i + 1;
            while j < c.len() && (c[j].is_alphanumeric() || c[j] == '_') {
                j += 1;
            }
            v.push(c[i..j].iter().collect());
            i = j;
        } else if ch == '-' && i + 1 < c.len() && c[i + 1] == '>' {
            v.push("->".into());
            i += 2;
        } else if ch == ':' && i + 1 < c.len() && c[i + 1] == ':' {
            v.push("::".into());
            i += 2;
        } else if ch == '.' && i + 2 < c.len() && c[i + 1] == '.' && c[i + 2] == '.' {
            v.push("...".into());
            i += 3;
        } else {
            v.push(ch.to_string());
            i += 1;
        }
    }
    v
}

// ------------------------------------------------------------------ per-thread result sink

#[derive(Default)]
pub struct Sink {
    pub counters: BTreeMap<String, u64>,
    pub failures: Vec<(String, String, String)>,
    pub cases: Vec<(String, String, bool, String)>,
    pub evals: u64,
}

impl Sink {
    fn count(&mut self, k: &str) {
        *self.counters.entry(k.to_string()).or_insert(0) += 1;
    }
    fn fail(&mut self, what: &str, input: &str, cls: &str) {
        // keep at most 20 inputs per classifier (the shortest are selected by ./check)
        let n = self.failures.iter().filter(|f| f.2 == cls).count();
        self.count(&format!("panic-site {}", cls));
        if n < 20 {
            self.failures.push((what.to_string(), input.to_string(), cls.to_string()));
        }
    }
    fn merge_into(self, out: &mut Out) {
        for (k, v) in self.counters {
            out.count_n(&k, v);
        }
        for (w, i, c) in self.failures {
            if out.oracle_failures.iter().filter(|f| f.classifier == c).count() < 40 {
                out.fail(&w, &i, &c);
            }
        }
        for (rq, ex, nt, tags) in self.cases {
            out.case(rq, ex, nt, &tags);
        }
        out.evaluations_extra += self.evals;
    }
}

/// Run one input (program bytes + goal texts): every phase under catch; any panic is a
/// failure of the property. `with_model`: also emit request lines for the Lean model
/// (one per goal when the program lowers, else one for the program alone).
pub fn exec_case(sink: &mut Sink, stream: &str, prog_bytes: &[u8], goals: &[&[u8]], base: Option<&Arc<Program>>, with_model: bool) {
    sink.evals += 1;
    let (ptext, lossy) = match std::str::from_utf8(prog_bytes) {
        Ok(s) => (s.to_string(), false),
        Err(_) => (String::from_utf8_lossy(prog_bytes).into_owned(), true),
    };
    if lossy {
        sink.count(&format!("{}: program bytes not UTF-8 (API takes &str; lossy decoding fed)", stream));
    }
    let pr = run_program(&ptext);
    sink.count(&format!("{}: program parse {}", stream, pr.parse.class()));
    if pr.parse == Res::Ok {
        sink.count(&format!("{}: program lower {}", stream, pr.lower.class()));
    }
    let pline = input_line(prog_bytes, goals.first().copied());
    if let Res::Panic(s) = &pr.parse {
        sink.fail(&format!("parse_program panicked at {}", s), &pline, s);
    }
    if let Res::Panic(s) = &pr.lower {
        if pr.parse != pr.lower {
            sink.fail(&format!("program_ir (parse + lower) panicked at {}", s), &pline, s);
        }
    }
    let mut emitted = false;
    for gb in goals {
        let line = input_line(prog_bytes, Some(gb));
        let gtext = String::from_utf8_lossy(gb).into_owned();
        let program = pr.program.as_ref().or(base);
        let g = run_goal(&gtext, program);
        sink.count(&format!("{}: goal parse {}", stream, g.parse.class()));
        if g.parse == Res::Ok && g.lower != Res::None {
            sink.count(&format!("{}: goal lower {}", stream, g.lower.class()));
        }
        if let Res::Panic(s) = &g.parse {
            sink.fail(&format!("parse_goal panicked at {}", s), &line, s);
        }
        if let Res::Panic(s) = &g.lower {
            sink.fail(&format!("lower_goal panicked at {}", s), &line, s);
        }
        if with_model && pr.program.is_some() {
            if let (Some(a), Some(ga)) = (&pr.ast, &g.ast) {
                emit_model_case(sink, stream, a, Some(&**ga), &pr.lower, &g.lower, &line);
                emitted = true;
            }
        }
    }
    if with_model && !emitted {
        if let Some(a) = &pr.ast {
            emit_model_case(sink, stream, a, None, &pr.lower, &Res::None, &pline);
        }
    }
}

fn emit_model_case(sink: &mut Sink, stream: &str, a: &ast::Program, g: Option<&ast::Goal>, pl: &Res, gl: &Res, line: &str) {
    match conv::request(a, g) {
        Some(rq) => {
            let ex = list(vec![pl.sexp("program"), gl.sexp("goal")]);
            let nontrivial = *pl != Res::Ok || !(*gl == Res::Ok || *gl == Res::None);
            sink.count(&format!("{}: model-compared", stream));
            sink.count(&format!("model outcome {} / goal {}", pl.class(), gl.class()));
            sink.cases.push((rq.to_string(), ex.to_string(), nontrivial, format!("{} {}", stream, line)));
        }
        None => sink.count(&format!("{}: outside model fragment", stream)),
    }
}

pub fn exec_input(sink: &mut Sink, stream: &str, prog_bytes: &[u8], goal_bytes: Option<&[u8]>, base: Option<&Arc<Program>>, with_model: bool) {
    match goal_bytes {
        Some(g) => exec_case(sink, stream, prog_bytes, &[g], base, with_model),
        None => exec_case(sink, stream, prog_bytes, &[], base, with_model),
    }
}

// ------------------------------------------------------------------ chalk_parse AST -> model request

pub mod conv {
    //! Serialises the AST *produced by chalk_parse* (never the generator's own idea of the
    //! program) in the wire grammar of `lean/ChalkModel/OpsResolve.lean`.
    use super::*;
    use ast::*;

    fn nm(i: &Identifier) -> Sexp {
        atom(&i.str)
    }
    fn vk(v: &VariableKind) -> Sexp {
        match v {
            VariableKind::Ty(n) | VariableKind::IntegerTy(n) | VariableKind::FloatTy(n) => tagged("ty", vec![nm(n)]),
            VariableKind::Lifetime(n) => tagged("lt", vec![nm(n)]),
            VariableKind::Const(n) => tagged("const", vec![nm(n)]),
        }
    }
    fn vks(v: &[VariableKind]) -> Sexp {
        list(v.iter().map(vk).collect())
    }
    fn lifetime(l: &Lifetime) -> Sexp {
        match l {
            Lifetime::Id { name } => tagged("lid", vec![nm(name)]),
            Lifetime::Static => atom("static"),
            Lifetime::Erased => atom("erased"),
        }
    }
    fn konst(c: &Const) -> Sexp {
        match c {
            Const::Id(n) => tagged("cid", vec![nm(n)]),
            Const::Value(_) => atom("cval"),
        }
    }
    fn garg(a: &GenericArg) -> Option<Sexp> {
        Some(match a {
            GenericArg::Ty(t) => tagged("ty", vec![ty(t)?]),
            GenericArg::Lifetime(l) => tagged("lt", vec![lifetime(l)]),
            GenericArg::Id(n) => tagged("gid", vec![nm(n)]),
            GenericArg::Const(c) => tagged("const", vec![konst(c)]),
        })
    }
    fn gargs(v: &[GenericArg]) -> Option<Sexp> {
        Some(list(v.iter().map(garg).collect::<Option<Vec<_>>>()?))
    }
    fn tys<'a>(v: impl Iterator<Item = &'a Ty>) -> Option<Sexp> {
        Some(list(v.map(ty).collect::<Option<Vec<_>>>()?))
    }
    /// self type, trait name, remaining args (the grammar always puts `GenericArg::Ty(self)` first)
    fn trait_ref(t: &TraitRef) -> Option<Vec<Sexp>> {
        match t.args.first()? {
            GenericArg::Ty(s) => Some(vec![ty(s)?, nm(&t.trait_name), gargs(&t.args[1..])?]),
            _ => None,
        }
    }
    fn proj(p: &ProjectionTy) -> Option<Vec<Sexp>> {
        let mut v = trait_ref(&p.trait_ref)?;
        v.push(nm(&p.name));
        v.push(gargs(&p.args)?);
        Some(v)
    }
    fn qib(b: &QuantifiedInlineBound) -> Option<Sexp> {
        Some(match &b.bound {
            InlineBound::TraitBound(t) => tagged("tb", vec![vks(&b.variable_kinds), nm(&t.trait_name), gargs(&t.args_no_self)?]),
            InlineBound::AliasEqBound(a) => tagged(
                "ab",
                vec![vks(&b.variable_kinds), nm(&a.trait_bound.trait_name), gargs(&a.trait_bound.args_no_self)?, nm(&a.name), gargs(&a.args)?, ty(&a.value)?],
            ),
        })
    }
    fn qibs(v: &[QuantifiedInlineBound]) -> Option<Sexp> {
        Some(list(v.iter().map(qib).collect::<Option<Vec<_>>>()?))
    }
    pub fn ty(t: &Ty) -> Option<Sexp> {
        Some(match t {
            Ty::Id { name } => tagged("id", vec![nm(name)]),
            Ty::Dyn { bounds, lifetime: l } => tagged("dyn", vec![qibs(bounds)?, lifetime(l)]),
            Ty::Apply { name, args } => tagged("apply", vec![nm(name), gargs(args)?]),
            Ty::Projection { proj: p } => tagged("proj", proj(p)?),
            Ty::ForAll { lifetime_names, types, sig } => {
                tagged("fn", vec![list(lifetime_names.iter().map(nm).collect()), atom(&sig.abi.0), tys(types.iter().map(|b| &**b))?])
            }
            Ty::Tuple { types } => tagged("tuple", vec![tys(types.iter().map(|b| &**b))?]),
            Ty::Scalar { .. } | Ty::Str | Ty::Never => atom("leaf"),
            Ty::Slice { ty: t } => tagged("slice", vec![ty(t)?]),
            Ty::Array { ty: t, len } => tagged("array", vec![ty(t)?, konst(len)]),
            Ty::Raw { ty: t, .. } => tagged("raw", vec![ty(t)?]),
            Ty::Ref { lifetime: l, ty: t, .. } => tagged("ref", vec![lifetime(l), ty(t)?]),
        })
    }
    fn wc(w: &WhereClause) -> Option<Sexp> {
        Some(match w {
            WhereClause::Implemented { trait_ref: t } => tagged("impl", trait_ref(t)?),
            WhereClause::ProjectionEq { projection, ty: t } => {
                let mut v = proj(projection)?;
                v.push(ty(t)?);
                tagged("projeq", v)
            }
            WhereClause::LifetimeOutlives { a, b } => tagged("ltout", vec![lifetime(a), lifetime(b)]),
            WhereClause::TypeOutlives { ty: t, lifetime: l } => tagged("tyout", vec![ty(t)?, lifetime(l)]),
        })
    }
    fn qwc(w: &QuantifiedWhereClause) -> Option<Sexp> {
        Some(list(vec![vks(&w.variable_kinds), wc(&w.where_clause)?]))
    }
    fn qwcs(v: &[QuantifiedWhereClause]) -> Option<Sexp> {
        Some(list(v.iter().map(qwc).collect::<Option<Vec<_>>>()?))
    }
    fn dg(d: &DomainGoal) -> Option<Sexp> {
        Some(match d {
            DomainGoal::Holds { where_clause } => tagged("holds", vec![wc(where_clause)?]),
            DomainGoal::Normalize { projection, ty: t } => {
                let mut v = proj(projection)?;
                v.push(ty(t)?);
                tagged("normalize", v)
            }
            DomainGoal::TyWellFormed { ty: t }
            | DomainGoal::TyFromEnv { ty: t }
            | DomainGoal::IsLocal { ty: t }
            | DomainGoal::IsUpstream { ty: t }
            | DomainGoal::IsFullyVisible { ty: t }
            | DomainGoal::DownstreamType { ty: t } => tagged("ofty", vec![ty(t)?]),
            DomainGoal::TraitRefWellFormed { trait_ref: t } | DomainGoal::TraitRefFromEnv { trait_ref: t } | DomainGoal::LocalImplAllowed { trait_ref: t } => {
                tagged("oftr", trait_ref(t)?)
            }
            DomainGoal::Compatible | DomainGoal::Reveal => atom("nullary"),
            DomainGoal::ObjectSafe { id } => tagged("objsafe", vec![nm(id)]),
        })
    }
    fn leaf(l: &LeafGoal) -> Option<Sexp> {
        Some(match l {
            LeafGoal::DomainGoal { goal } => tagged("dg", vec![dg(goal)?]),
            LeafGoal::UnifyGenericArgs { a, b } => tagged("unify", vec![garg(a)?, garg(b)?]),
            LeafGoal::SubtypeGenericArgs { a, b } => tagged("subtype", vec![ty(a)?, ty(b)?]),
        })
    }
    fn clause(c: &Clause) -> Option<Sexp> {
        Some(list(vec![vks(&c.variable_kinds), dg(&c.consequence)?, list(c.conditions.iter().map(|g| goal(g)).collect::<Option<Vec<_>>>()?)]))
    }
    pub fn goal(g: &Goal) -> Option<Sexp> {
        Some(match g {
            Goal::ForAll(v, g) | Goal::Exists(v, g) => tagged("quant", vec![vks(v), goal(g)?]),
            Goal::Implies(h, g) => tagged("implies", vec![list(h.iter().map(clause).collect::<Option<Vec<_>>>()?), goal(g)?]),
            Goal::And(g1, gs) => {
                let mut v = vec![goal(g1)?];
                for g in gs {
                    v.push(goal(g)?);
                }
                tagged("and", vec![list(v)])
            }
            Goal::Not(g) => tagged("not", vec![goal(g)?]),
            Goal::Compatible(g) => tagged("compat", vec![goal(g)?]),
            Goal::Leaf(l) => tagged("leaf", vec![leaf(l)?]),
        })
    }
    fn b(x: bool) -> Sexp {
        atom(if x { "1" } else { "0" })
    }
    fn variances(v: &Option<Vec<Variance>>) -> Sexp {
        match v {
            None => atom("-"),
            Some(v) => atom(&v.len().to_string()),
        }
    }
    fn item(i: &Item) -> Option<Sexp> {
        Some(match i {
            Item::AdtDefn(d) => tagged(
                "adt",
                vec![
                    nm(&d.name),
                    vks(&d.variable_kinds),
                    b(d.flags.fundamental),
                    tys(d.variants.iter().flat_map(|v| v.fields.iter().map(|f| &f.ty)))?,
                    qwcs(&d.where_clauses)?,
                    variances(&d.variances),
                ],
            ),
            Item::FnDefn(d) => tagged(
                "fndef",
                vec![
                    nm(&d.name),
                    vks(&d.variable_kinds),
                    qwcs(&d.where_clauses)?,
                    tys(d.argument_types.iter())?,
                    ty(&d.return_type)?,
                    atom(&d.sig.abi.0),
                    variances(&d.variances),
                ],
            ),
            Item::ClosureDefn(d) => {
                tagged("closure", vec![nm(&d.name), vks(&d.variable_kinds), tys(d.argument_types.iter())?, ty(&d.return_type)?, tys(d.upvars.iter())?])
            }
            Item::TraitDefn(d) => tagged(
                "trait",
                vec![
                    nm(&d.name),
                    vks(&d.variable_kinds),
                    b(d.flags.auto),
                    qwcs(&d.where_clauses)?,
                    list(
                        d.assoc_ty_defns
                            .iter()
                            .map(|a| Some(list(vec![nm(&a.name), vks(&a.variable_kinds), qibs(&a.bounds)?, qwcs(&a.where_clauses)?])))
                            .collect::<Option<Vec<_>>>()?,
                    ),
                ],
            ),
            Item::OpaqueTyDefn(d) => tagged("opaque", vec![nm(&d.name), vks(&d.variable_kinds), ty(&d.ty)?, qibs(&d.bounds)?, qwcs(&d.where_clauses)?]),
            Item::CoroutineDefn(d) => tagged(
                "coroutine",
                vec![
                    nm(&d.name),
                    vks(&d.variable_kinds),
                    tys(d.upvars.iter())?,
                    ty(&d.resume_ty)?,
                    ty(&d.yield_ty)?,
                    ty(&d.return_ty)?,
                    tys(d.witness_types.iter())?,
                    list(d.witness_lifetimes.iter().map(nm).collect()),
                ],
            ),
            Item::Impl(d) => {
                let tr = trait_ref(&d.trait_ref)?;
                tagged(
                    "impl",
                    vec![
                        vks(&d.variable_kinds),
                        b(d.polarity == Polarity::Positive),
                        tr[0].clone(),
                        tr[1].clone(),
                        tr[2].clone(),
                        qwcs(&d.where_clauses)?,
                        list(
                            d.assoc_ty_values
                                .iter()
                                .map(|a| Some(list(vec![nm(&a.name), vks(&a.variable_kinds), ty(&a.value)?])))
                                .collect::<Option<Vec<_>>>()?,
                        ),
                    ],
                )
            }
            Item::Clause(c) => tagged("clause", vec![clause(c)?]),
            Item::Foreign(ForeignDefn(n)) => tagged("foreign", vec![nm(n)]),
        })
    }
    pub fn request(p: &ast::Program, g: Option<&Goal>) -> Option<Sexp> {
        let items = list(p.items.iter().map(item).collect::<Option<Vec<_>>>()?);
        Some(match g {
            Some(g) => tagged("lower", vec![items, goal(g)?]),
            None => tagged("lower", vec![items]),
        })
    }
}

// ------------------------------------------------------------------ streams (a) and (b)

use crate::rng::Rng;

const DEFAULT_PROGRAM: &str = "struct S { } struct V<T> { } struct L<'a> { } struct C<const N> { } trait Foo { } trait Bar<T> { } \
    trait It { type Item; type G<U>; } #[auto] trait Send { } extern type E; opaque type Op: Foo = S; fn f0(); fn f1<T>(x: T) -> T; \
    closure c0(self,) { } impl Foo for S { } impl<T> It for V<T> { type Item = T; type G<U> = U; }";

fn random_bytes(r: &mut Rng) -> Vec<u8> {
    let n = r.usize_below(48);
    match r.below(3) {
        0 => (0..n).map(|_| r.below(256) as u8).collect(),
        1 => {
            // printable ASCII biased to chalk's punctuation
            let alpha = b"{}()<>[]:;,.=&*!#'\"+-_/ \n\tabcdfilmnorstuwxyzABCFSTU0123456789";
            (0..n).map(|_| alpha[r.usize_below(alpha.len())]).collect()
        }
        _ => {
            // valid UTF-8 with multi-byte scalars
            let mut s = String::new();
            for _ in 0..n {
                let c = match r.below(6) {
                    0 => char::from_u32(0x80 + r.below(0x700) as u32),
                    1 => char::from_u32(0x800 + r.below(0xf000) as u32),
                    2 => char::from_u32(0x10000 + r.below(0x10000) as u32),
                    _ => char::from_u32(0x20 + r.below(0x5f) as u32),
                };
                s.push(c.unwrap_or('?'));
            }
            s.into_bytes()
        }
    }
}

fn mutate_bytes(r: &mut Rng, src: &[u8], other: &[u8]) -> Vec<u8> {
    let mut b = src.to_vec();
    let edits = 1 + r.usize_below(3);
    for _ in 0..edits {
        if b.is_empty() {
            b = random_bytes(r);
            continue;
        }
        match r.below(8) {
            0 => {
                let i = r.usize_below(b.len());
                b[i] ^= 1 << r.below(8);
            }
            1 => {
                let i = r.usize_below(b.len());
                b[i] = r.below(256) as u8;
            }
            2 => {
                let i = r.usize_below(b.len() + 1);
                b.truncate(i);
            }
            3 => {
                // duplicated chunk
                let i = r.usize_below(b.len());
                let j = i + r.usize_below((b.len() - i).min(40) + 1);
                let chunk = b[i..j].to_vec();
                let k = r.usize_below(b.len() + 1);
                b.splice(k..k, chunk);
            }
            4 => {
                // deleted chunk
                let i = r.usize_below(b.len());
                let j = i + r.usize_below((b.len() - i).min(20) + 1);
                b.drain(i..j);
            }
            5 => {
                // splice a chunk of another seed
                if !other.is_empty() {
                    let i = r.usize_below(other.len());
                    let j = i + r.usize_below((other.len() - i).min(60) + 1);
                    let k = r.usize_below(b.len() + 1);
                    b.splice(k..k, other[i..j].to_vec());
                }
            }
            6 => {
                let ins = b"<>(){}[],;:'&*!=#\"+-0123456789 T";
                let k = r.usize_below(b.len() + 1);
                b.insert(k, ins[r.usize_below(ins.len())]);
            }
            _ => {
                // swap two bytes
                let i = r.usize_below(b.len());
                let j = r.usize_below(b.len());
                b.swap(i, j);
            }
        }
    }
    b
}

pub struct World {
    pub seeds: Vec<Seed>,
    pub seed_programs: Vec<Option<Arc<Program>>>,
    pub vocab: Vec<String>,
    pub default_program: Option<Arc<Program>>,
    pub seed_prog_tokens: Vec<Vec<String>>,
}

fn stream_a(w: &World, r: &mut Rng, sink: &mut Sink) {
    let which = r.below(10);
    if which < 2 || w.seeds.is_empty() {
        // unstructured input as program and as goal
        let b = random_bytes(r);
        exec_input(sink, "a-random", &b, Some(&b), w.default_program.as_ref(), false);
        return;
    }
    let k = r.usize_below(w.seeds.len());
    let seed = &w.seeds[k];
    let other = &w.seeds[r.usize_below(w.seeds.len())];
    if which < 7 || seed.goals.is_empty() {
        // mutated program, with one of its goals unchanged (lowered against the mutant when it lowers)
        let m = mutate_bytes(r, seed.program.as_bytes(), other.program.as_bytes());
        let g = if seed.goals.is_empty() { None } else { Some(seed.goals[r.usize_below(seed.goals.len())].as_bytes()) };
        exec_input(sink, "a-mutated-program", &m, g, None, false);
    } else {
        // unchanged program (lowered once), mutated goal
        let g = &seed.goals[r.usize_below(seed.goals.len())];
        let og = other.goals.first().map(|s| s.as_bytes()).unwrap_or(b"");
        let m = mutate_bytes(r, g.as_bytes(), og);
        exec_goal_only(sink, "a-mutated-goal", seed.program.as_bytes(), &m, w.seed_programs[k].as_ref());
    }
}

/// goal text against an already lowered program (the program text is only recorded)
fn exec_goal_only(sink: &mut Sink, stream: &str, prog_bytes: &[u8], goal_bytes: &[u8], program: Option<&Arc<Program>>) {
    sink.evals += 1;
    let gtext = String::from_utf8_lossy(goal_bytes).into_owned();
    let g = run_goal(&gtext, program);
    sink.count(&format!("{}: goal parse {}", stream, g.parse.class()));
    if g.parse == Res::Ok && g.lower != Res::None {
        sink.count(&format!("{}: goal lower {}", stream, g.lower.class()));
    }
    let line = input_line(prog_bytes, Some(goal_bytes));
    if let Res::Panic(s) = &g.parse {
        sink.fail(&format!("parse_goal panicked at {}", s), &line, s);
    }
    if let Res::Panic(s) = &g.lower {
        sink.fail(&format!("lower_goal panicked at {}", s), &line, s);
    }
}

fn stream_b(w: &World, r: &mut Rng, sink: &mut Sink) {
    let which = r.below(10);
    if which < 4 || w.seeds.is_empty() {
        let n = 1 + r.usize_below(30);
        let toks: Vec<&str> = (0..n).map(|_| w.vocab[r.usize_below(w.vocab.len())].as_str()).collect();
        let t = toks.join(" ");
        exec_input(sink, "b-random-tokens", t.as_bytes(), Some(t.as_bytes()), w.default_program.as_ref(), false);
        return;
    }
    let k = r.usize_below(w.seeds.len());
    let seed = &w.seeds[k];
    let edit = |r: &mut Rng, toks: &mut Vec<String>| {
        let edits = 1 + r.usize_below(3);
        for _ in 0..edits {
            if toks.is_empty() {
                toks.push(w.vocab[r.usize_below(w.vocab.len())].clone());
                continue;
            }
            let i = r.usize_below(toks.len());
            match r.below(5) {
                0 => {
                    toks.remove(i);
                }
                1 => toks.insert(i, w.vocab[r.usize_below(w.vocab.len())].clone()),
                2 => {
                    let j = if i + 1 < toks.len() { i + 1 } else { i };
                    toks.swap(i, j);
                }
                3 => toks[i] = w.vocab[r.usize_below(w.vocab.len())].clone(),
                _ => {
                    // replace by another token of the same text (identifier shuffling)
                    let j = r.usize_below(toks.len());
                    let t = toks[j].clone();
                    toks[i] = t;
                }
            }
        }
    };
    if which < 8 || seed.goals.is_empty() {
        let mut toks = w.seed_prog_tokens[k].clone();
        edit(r, &mut toks);
        let t = toks.join(" ");
        let g = if seed.goals.is_empty() { None } else { Some(seed.goals[r.usize_below(seed.goals.len())].as_bytes()) };
        exec_input(sink, "b-edited-program", t.as_bytes(), g, None, false);
    } else {
        let mut toks = tokenize(&seed.goals[r.usize_below(seed.goals.len())]);
        edit(r, &mut toks);
        let t = toks.join(" ");
        exec_goal_only(sink, "b-edited-goal", seed.program.as_bytes(), t.as_bytes(), w.seed_programs[k].as_ref());
    }
}

// ------------------------------------------------------------------ deep nesting (child process)

fn deep_inputs(thorough: bool) -> Vec<(String, String, Option<String>)> {
    // (name, program, goal)
    let mut v = vec![];
    let depths: &[usize] = if thorough { &[1000, 10000, 50000, 200000, 1000000] } else { &[1000, 10000, 50000] };
    for &n in depths {
        let rep = |a: &str, mid: &str, b: &str| format!("{}{}{}", a.repeat(n), mid, b.repeat(n));
        v.push((format!("slice-type-{}", n), format!("struct S {{ }} struct T {{ f: {} }}", rep("[", "S", "]")), None));
        v.push((format!("paren-type-{}", n), format!("struct S {{ }} struct T {{ f: {} }}", rep("(", "S", ")")), None));
        v.push((format!("tuple-type-{}", n), format!("struct S {{ }} struct T {{ f: {} }}", rep("(", "S", ",)")), None));
        v.push((format!("apply-type-{}", n), format!("struct S {{ }} struct V<T> {{ }} struct T {{ f: {} }}", rep("V<", "S", ">")), None));
        v.push((format!("ref-type-{}", n), format!("struct S {{ }} struct T<'a> {{ f: {} }}", rep("&'a ", "S", "")), None));
        v.push((format!("paren-goal-{}", n), "struct S { } trait Foo { }".to_string(), Some(rep("(", "S: Foo", ")"))));
        v.push((format!("not-goal-{}", n), "struct S { } trait Foo { }".to_string(), Some(rep("not { ", "S: Foo", " }"))));
        v.push((format!("unclosed-{}", n), format!("struct S {{ f: {}", "[".repeat(n)), Some("(".repeat(n))));
    }
    v
}

/// In the child: run the single input of the file named by VERIF_C24_CHILD and report.
fn child_main(path: &str) -> ! {
    let text = std::fs::read_to_string(path).unwrap_or_default();
    let (p, g) = parse_input_line(&text).unwrap_or((vec![], None));
    let mut sink = Sink::default();
    install_hook();
    println!("phase parse");
    let ptext = String::from_utf8_lossy(&p).into_owned();
    {
        let r = catch(|| chalk_parse::parse_program(&ptext).map(|a| std::mem::forget(a)).is_ok());
        println!("phase parsed {:?}", r);
    }
    println!("phase parse+drop");
    {
        let r = catch(|| chalk_parse::parse_program(&ptext).is_ok());
        println!("phase parsed-dropped {:?}", r);
    }
    println!("phase lower");
    exec_input(&mut sink, "deep", &p, g.as_deref(), None, false);
    for (k, v) in &sink.counters {
        println!("count {} = {}", k, v);
    }
    for f in &sink.failures {
        println!("caught-panic {}", f.2);
    }
    println!("phase done");
    std::process::exit(0)
}

fn run_deep(ctx: &Ctx, out: &mut Out, work: &str) {
    let exe = match std::env::current_exe() {
        Ok(e) => e,
        Err(_) => {
            out.notes.push("deep nesting: current_exe unavailable, stream skipped".into());
            return;
        }
    };
    let inputs = deep_inputs(ctx.thorough());
    let results: Vec<Option<std::io::Result<std::process::Output>>> = {
        let mut slots: Vec<Option<std::io::Result<std::process::Output>>> = inputs.iter().map(|_| None).collect();
        std::thread::scope(|sc| {
            let hs: Vec<_> = inputs
                .iter()
                .enumerate()
                .map(|(i, (name, prog, goal))| {
                    let exe = &exe;
                    sc.spawn(move || {
                        let line = input_line(prog.as_bytes(), goal.as_ref().map(|g| g.as_bytes()));
                        let path = format!("{}/c24-deep-{}-{}.txt", work, std::process::id(), name);
                        if std::fs::write(&path, &line).is_err() {
                            return (i, None);
                        }
                        let r = std::process::Command::new(exe).arg("C24").env("VERIF_C24_CHILD", &path).output();
                        let _ = std::fs::remove_file(&path);
                        (i, Some(r))
                    })
                })
                .collect();
            for h in hs {
                if let Ok((i, r)) = h.join() {
                    slots[i] = r;
                }
            }
        });
        slots
    };
    for ((name, prog, goal), r) in inputs.iter().zip(results.into_iter()) {
        let line = input_line(prog.as_bytes(), goal.as_ref().map(|g| g.as_bytes()));
        let r = match r {
            Some(r) => r,
            None => continue,
        };
        out.evaluations_extra += 1;
        match r {
            Ok(o) => {
                let so = String::from_utf8_lossy(&o.stdout).into_owned();
                let se = String::from_utf8_lossy(&o.stderr).into_owned();
                let last_phase = so.lines().filter(|l| l.starts_with("phase ")).last().unwrap_or("phase none").to_string();
                if o.status.success() && last_phase == "phase done" {
                    out.count("deep: child exited normally");
                    for l in so.lines().filter(|l| l.starts_with("caught-panic ")) {
                        let site = &l["caught-panic ".len()..];
                        out.fail(&format!("deeply nested input {} panicked at {}", name, site), &short_deep(name, &line), site);
                    }
                } else {
                    let overflow = se.contains("overflowed its stack") || se.contains("stack overflow");
                    let cls = if overflow { "parser_stack_overflow" } else { "child_abnormal_exit" };
                    out.count(&format!("deep: {} (last {}, exit code {:?})", cls, last_phase, o.status.code()));
                    out.fail(
                        &format!(
                            "deeply nested input {}: the process was aborted ({}; last phase reached: {}); a native stack overflow is not catchable",
                            name,
                            if overflow { "stack overflow" } else { "abnormal exit" },
                            last_phase
                        ),
                        &short_deep(name, &line),
                        cls,
                    );
                }
            }
            Err(e) => out.notes.push(format!("deep nesting: could not spawn child: {}", e)),
        }
    }
}

fn short_deep(name: &str, line: &str) -> String {
    if line.len() <= 300 {
        line.to_string()
    } else {
        format!("generated:{} ({} bytes: {} ... {})", name, line.len(), &line[..80], &line[line.len() - 40..])
    }
}

// ------------------------------------------------------------------ stream (c): generated programs with semantic errors

#[derive(Clone, Copy, PartialEq, Eq, Debug)]
enum K {
    Ty,
    Lt,
    Co,
}

#[derive(Clone, Copy, PartialEq, Eq, Debug)]
enum Sort {
    Adt,
    Trait,
    Foreign,
    Opaque,
    FnDef,
    Closure,
    Coroutine,
}

#[derive(Clone, Debug)]
struct Decl {
    name: String,
    sort: Sort,
    params: Vec<(String, K)>,
    assoc: Vec<(String, Vec<(String, K)>)>,
    auto: bool,
}

type Scope = Vec<(String, K)>;

struct PG<'a> {
    r: &'a mut Rng,
    decls: Vec<Decl>,
    /// percentage of choices made "correctly" (right sort, arity, kinds)
    p_ok: u64,
}

fn params_text(ps: &[(String, K)]) -> String {
    if ps.is_empty() {
        return String::new();
    }
    let v: Vec<String> = ps
        .iter()
        .map(|(n, k)| match k {
            K::Ty => n.clone(),
            K::Lt => n.clone(),
            K::Co => format!("const {}", n),
        })
        .collect();
    format!("<{}>", v.join(", "))
}

impl<'a> PG<'a> {
    fn ok(&mut self) -> bool {
        self.r.below(100) < self.p_ok
    }
    fn any_name(&mut self, scope: &Scope) -> String {
        // a name of any sort: declared items, parameters of every kind, associated type names, unknown
        let mut pool: Vec<String> = self.decls.iter().map(|d| d.name.clone()).collect();
        pool.extend(scope.iter().filter(|(n, _)| !n.starts_with('\'')).map(|(n, _)| n.clone()));
        pool.extend(["Zz", "A", "B", "Self", "__FIXME_SELF__"].iter().map(|s| s.to_string()));
        pool[self.r.usize_below(pool.len())].clone()
    }
    fn decl_of(&mut self, sort: Sort) -> Option<Decl> {
        let v: Vec<&Decl> = self.decls.iter().filter(|d| d.sort == sort).collect();
        if v.is_empty() {
            None
        } else {
            Some(v[self.r.usize_below(v.len())].clone())
        }
    }
    fn lifetime(&mut self, scope: &Scope) -> String {
        let lts: Vec<&String> = scope.iter().filter(|(_, k)| *k == K::Lt).map(|(n, _)| n).collect();
        if self.ok() {
            if !lts.is_empty() && self.r.chance(2, 3) {
                return lts[self.r.usize_below(lts.len())].clone();
            }
            return if self.r.chance(4, 5) { "'static".into() } else { "'erased".into() };
        }
        ["'zz", "'a", "'b", "'static"][self.r.usize_below(4)].to_string()
    }
    fn konst(&mut self, scope: &Scope) -> String {
        let cs: Vec<&String> = scope.iter().filter(|(_, k)| *k == K::Co).map(|(n, _)| n).collect();
        if self.ok() {
            if !cs.is_empty() && self.r.chance(1, 2) {
                return cs[self.r.usize_below(cs.len())].clone();
            }
            return ["0", "3", "4294967295"][self.r.usize_below(3)].to_string();
        }
        self.any_name(scope)
    }
    fn garg(&mut self, want: K, scope: &Scope, depth: usize) -> String {
        let k = if self.ok() { want } else { [K::Ty, K::Lt, K::Co][self.r.usize_below(3)] };
        match k {
            K::Ty => self.ty(scope, depth),
            K::Lt => self.lifetime(scope),
            K::Co => self.konst(scope),
        }
    }
    fn args_for(&mut self, params: &[(String, K)], scope: &Scope, depth: usize) -> Vec<String> {
        if self.ok() {
            params.iter().map(|(_, k)| self.garg(*k, scope, depth)).collect()
        } else {
            let n = self.r.usize_below(4);
            (0..n).map(|_| { let k = [K::Ty, K::Lt, K::Co][self.r.usize_below(3)]; self.garg(k, scope, depth) }).collect()
        }
    }
    fn angle(args: &[String], force: bool) -> String {
        if args.is_empty() && !force {
            String::new()
        } else {
            format!("<{}>", args.join(", "))
        }
    }
    /// `Name<args>` of a trait (without self), correct or with a name of the wrong sort
    fn trait_with_assoc(&mut self) -> Option<Decl> {
        let v: Vec<&Decl> = self.decls.iter().filter(|d| d.sort == Sort::Trait && !d.assoc.is_empty()).collect();
        if v.is_empty() {
            None
        } else {
            Some(v[self.r.usize_below(v.len())].clone())
        }
    }
    fn has_assoc_trait(&self) -> bool {
        self.decls.iter().any(|d| d.sort == Sort::Trait && !d.assoc.is_empty())
    }
    fn trait_bound(&mut self, scope: &Scope, depth: usize) -> (String, Option<Decl>) {
        self.trait_bound_x(scope, depth, false)
    }
    fn trait_bound_x(&mut self, scope: &Scope, depth: usize, need_assoc: bool) -> (String, Option<Decl>) {
        let d = if self.ok() { if need_assoc { self.trait_with_assoc() } else { self.decl_of(Sort::Trait) } } else { None };
        match d {
            Some(d) => {
                let a = self.args_for(&d.params.clone(), scope, depth);
                (format!("{}{}", d.name, Self::angle(&a, false)), Some(d))
            }
            None => {
                let n = self.any_name(scope);
                let k = self.r.usize_below(3);
                let a: Vec<String> = (0..k).map(|_| self.garg(K::Ty, scope, depth)).collect();
                let d = self.decls.iter().find(|d| d.name == n && d.sort == Sort::Trait).cloned();
                (format!("{}{}", n, Self::angle(&a, false)), d)
            }
        }
    }
    fn assoc_ref(&mut self, d: &Option<Decl>, scope: &Scope, depth: usize) -> String {
        // associated type name with its own arguments
        let cand = d.as_ref().and_then(|d| if d.assoc.is_empty() { None } else { Some(d.assoc[self.r.usize_below(d.assoc.len())].clone()) });
        match cand {
            Some((n, ps)) if self.ok() => {
                let a = self.args_for(&ps, scope, depth);
                format!("{}{}", n, Self::angle(&a, false))
            }
            _ => {
                let n = ["A", "B", "Q", "Item"][self.r.usize_below(4)];
                let k = self.r.usize_below(2);
                let a: Vec<String> = (0..k).map(|_| self.garg(K::Ty, scope, depth)).collect();
                format!("{}{}", n, Self::angle(&a, false))
            }
        }
    }
    fn projection(&mut self, scope: &Scope, depth: usize) -> String {
        let s = self.ty(scope, depth);
        let (tb, d) = self.trait_bound_x(scope, depth, true);
        let a = self.assoc_ref(&d, scope, depth);
        format!("<{} as {}>::{}", s, tb, a)
    }
    fn inline_bound(&mut self, scope: &Scope, depth: usize) -> String {
        let mut sc = scope.clone();
        let mut pre = String::new();
        if self.r.chance(1, 6) {
            let n = if self.ok() { "'q".to_string() } else { ["'a", "T", "'q"][self.r.usize_below(3)].to_string() };
            pre = format!("forall<{}> ", n);
            sc.push((n.clone(), if n.starts_with('\'') { K::Lt } else { K::Ty }));
        }
        let alias = self.r.chance(1, 4) && (self.has_assoc_trait() || !self.ok());
        let (tb, d) = self.trait_bound_x(&sc, depth, alias);
        if alias {
            // alias-eq bound `Tr<args, A<..> = ty>`
            let a = self.assoc_ref(&d, &sc, depth);
            let v = self.ty(&sc, depth);
            let (name, args) = match tb.find('<') {
                Some(i) => (tb[..i].to_string(), format!("{}, ", &tb[i + 1..tb.len() - 1])),
                None => (tb.clone(), String::new()),
            };
            format!("{}{}<{}{} = {}>", pre, name, args, a, v)
        } else {
            format!("{}{}", pre, tb)
        }
    }
    fn bounds(&mut self, scope: &Scope, depth: usize) -> String {
        let n = 1 + self.r.usize_below(3);
        (0..n).map(|_| self.inline_bound(scope, depth)).collect::<Vec<_>>().join(" + ")
    }
    fn ty(&mut self, scope: &Scope, depth: usize) -> String {
        if !self.ok() {
            // a name of an arbitrary sort, applied or not, with arbitrary arguments
            let n = self.any_name(scope);
            return match self.r.below(3) {
                0 => n,
                _ => {
                    let k = self.r.usize_below(3);
                    let a: Vec<String> = (0..k).map(|_| { let kk = [K::Ty, K::Ty, K::Lt, K::Co][self.r.usize_below(4)]; self.garg(kk, scope, depth.saturating_sub(1)) }).collect();
                    format!("{}{}", n, Self::angle(&a, true))
                }
            };
        }
        let tys: Vec<&String> = scope.iter().filter(|(_, k)| *k == K::Ty).map(|(n, _)| n).collect();
        let leaf = depth == 0;
        let pick = if leaf { self.r.below(4) } else { self.r.below(17) };
        let d = depth.saturating_sub(1);
        match pick {
            0 | 1 if !tys.is_empty() => tys[self.r.usize_below(tys.len())].clone(),
            0 | 1 | 2 => ["u32", "bool", "str", "!", "i8", "f64", "char", "usize"][self.r.usize_below(8)].to_string(),
            3 | 4 | 5 | 6 => {
                let sort = [Sort::Adt, Sort::Adt, Sort::Adt, Sort::Foreign, Sort::Opaque, Sort::FnDef, Sort::Closure, Sort::Coroutine][self.r.usize_below(8)];
                match self.decl_of(sort) {
                    Some(dd) => {
                        if sort == Sort::Foreign || (sort == Sort::Opaque && self.r.chance(1, 2)) {
                            return dd.name;
                        }
                        let ps = if sort == Sort::Trait { vec![] } else { dd.params.clone() };
                        let a = if leaf && !ps.is_empty() { ps.iter().map(|(_, k)| match k { K::Ty => "u8".to_string(), K::Lt => "'static".to_string(), K::Co => "1".to_string() }).collect() } else { self.args_for(&ps, scope, d) };
                        let force = self.r.chance(1, 8);
                        format!("{}{}", dd.name, Self::angle(&a, force))
                    }
                    None => "u16".into(),
                }
            }
            7 => {
                let n = self.r.usize_below(3);
                let v: Vec<String> = (0..n).map(|_| self.ty(scope, d)).collect();
                match n {
                    1 => format!("({},)", v[0]),
                    _ => format!("({})", v.join(", ")),
                }
            }
            8 => {
                let l = self.lifetime(scope);
                let t = self.ty(scope, d);
                format!("&{} {}{}", l, if self.r.chance(1, 2) { "mut " } else { "" }, t)
            }
            9 => format!("*{} {}", if self.r.chance(1, 2) { "mut" } else { "const" }, self.ty(scope, d)),
            10 => format!("[{}]", self.ty(scope, d)),
            11 => {
                let t = self.ty(scope, d);
                let c = self.konst(scope);
                format!("[{}; {}]", t, c)
            }
            12 => {
                let mut sc = scope.clone();
                let mut pre = String::new();
                if self.r.chance(1, 2) {
                    let names: Vec<&str> = if self.ok() { vec!["'f"] } else { vec![["'f", "'a"][self.r.usize_below(2)], "'f"] };
                    pre = format!("for<{}> ", names.join(", "));
                    for n in names {
                        sc.push((n.to_string(), K::Lt));
                    }
                }
                let abi = if self.r.chance(1, 4) { format!("extern \"{}\" ", if self.ok() { "C" } else { "Zig" }) } else { String::new() };
                let n = self.r.usize_below(3);
                let v: Vec<String> = (0..n).map(|_| self.ty(&sc, d)).collect();
                let ret = if self.r.chance(1, 2) { format!(" -> {}", self.ty(&sc, d)) } else { String::new() };
                format!("{}{}fn({}){}", pre, abi, v.join(", "), ret)
            }
            13 | 14 if self.has_assoc_trait() || !self.ok() => self.projection(scope, d),
            13 | 14 => "i64".into(),
            15 => {
                let b = self.bounds(scope, d);
                let l = self.lifetime(scope);
                format!("dyn {} + {}", b, l)
            }
            _ => format!("({})", self.ty(scope, d)),
        }
    }
    fn where_clause(&mut self, scope: &Scope, depth: usize) -> String {
        let mut sc = scope.clone();
        let mut pre = String::new();
        if self.r.chance(1, 6) {
            let n = if self.ok() { "'w".to_string() } else { self.any_name(scope) };
            pre = format!("forall<{}> ", n);
            sc.push((n.clone(), if n.starts_with('\'') { K::Lt } else { K::Ty }));
        }
        let pick = match self.r.below(8) {
            2 | 3 if !self.has_assoc_trait() && self.ok() => 7,
            k => k,
        };
        let body = match pick {
            0 => format!("{}: {}", self.lifetime(&sc), self.lifetime(&sc)),
            1 => format!("{}: {}", self.ty(&sc, depth), self.lifetime(&sc)),
            2 | 3 => {
                // T: Tr<A = U>
                let s = self.ty(&sc, depth);
                let (tb, d) = self.trait_bound_x(&sc, depth, true);
                let a = self.assoc_ref(&d, &sc, depth);
                let v = self.ty(&sc, depth);
                let (name, args) = match tb.find('<') {
                    Some(i) => (tb[..i].to_string(), format!("{}, ", &tb[i + 1..tb.len() - 1])),
                    None => (tb.clone(), String::new()),
                };
                format!("{}: {}<{}{} = {}>", s, name, args, a, v)
            }
            _ => {
                let s = self.ty(&sc, depth);
                let (tb, _) = self.trait_bound(&sc, depth);
                format!("{}: {}", s, tb)
            }
        };
        format!("{}{}", pre, body)
    }
    fn where_clauses(&mut self, scope: &Scope) -> String {
        let n = if self.r.chance(1, 2) { 0 } else { 1 + self.r.usize_below(2) };
        if n == 0 {
            return String::new();
        }
        let v: Vec<String> = (0..n).map(|_| self.where_clause(scope, 1)).collect();
        format!(" where {}", v.join(", "))
    }
    fn decl_params(&mut self, base: &[(&str, K)]) -> Vec<(String, K)> {
        let mut v: Vec<(String, K)> = base.iter().map(|(n, k)| (n.to_string(), *k)).collect();
        if !self.ok() && !v.is_empty() {
            // duplicate parameter
            let d = v[self.r.usize_below(v.len())].clone();
            v.push(d);
        }
        if !self.ok() {
            v.push((["Self", "__FIXME_SELF__", "S0", "Tr0"][self.r.usize_below(4)].to_string(), K::Ty));
        }
        v
    }
    fn declare(&mut self) {
        let pool: Vec<(&str, Sort, Vec<(&str, K)>)> = vec![
            ("S0", Sort::Adt, vec![]),
            ("S1", Sort::Adt, vec![("T", K::Ty)]),
            ("S2", Sort::Adt, vec![("T", K::Ty), ("U", K::Ty)]),
            ("SL", Sort::Adt, vec![("'a", K::Lt)]),
            ("SC", Sort::Adt, vec![("N", K::Co)]),
            ("SM", Sort::Adt, vec![("'a", K::Lt), ("T", K::Ty), ("N", K::Co)]),
            ("Tr0", Sort::Trait, vec![]),
            ("Tr1", Sort::Trait, vec![("T", K::Ty)]),
            ("TrL", Sort::Trait, vec![("'a", K::Lt)]),
            ("TrA", Sort::Trait, vec![]),
            ("TrB", Sort::Trait, vec![("T", K::Ty)]),
            ("Send", Sort::Trait, vec![]),
            ("E0", Sort::Foreign, vec![]),
            ("Op0", Sort::Opaque, vec![]),
            ("Op1", Sort::Opaque, vec![("T", K::Ty)]),
            ("f0", Sort::FnDef, vec![]),
            ("f1", Sort::FnDef, vec![("T", K::Ty)]),
            ("c0", Sort::Closure, vec![]),
            ("c1", Sort::Closure, vec![("T", K::Ty)]),
            ("g0", Sort::Coroutine, vec![]),
        ];
        let rare = |s: Sort| matches!(s, Sort::Closure | Sort::Coroutine | Sort::Opaque | Sort::FnDef);
        for (n, s, ps) in &pool {
            let keep = if rare(*s) { self.r.chance(1, 3) } else { self.r.chance(2, 3) };
            if !keep {
                continue;
            }
            let params = self.decl_params(ps);
            let assoc = match *n {
                "TrA" => vec![("A".to_string(), vec![]), ("B".to_string(), vec![("U".to_string(), K::Ty)])],
                "TrB" => vec![("A".to_string(), vec![])],
                _ => vec![],
            };
            self.decls.push(Decl { name: n.to_string(), sort: *s, params, assoc, auto: *n == "Send" });
        }
        // duplicate / clashing names
        if !self.ok() && !self.decls.is_empty() {
            let mut d = self.decls[self.r.usize_below(self.decls.len())].clone();
            if self.r.chance(1, 2) {
                d.sort = [Sort::Adt, Sort::Trait, Sort::Foreign, Sort::Opaque, Sort::FnDef, Sort::Closure][self.r.usize_below(6)];
            }
            if self.r.chance(1, 2) {
                d.params = vec![("X".into(), K::Ty)];
            }
            if d.sort != Sort::Trait {
                d.assoc.clear();
                d.auto = false;
            } else if self.r.chance(1, 2) {
                d.assoc.clear();
            }
            if d.sort == Sort::Foreign {
                d.params.clear();
            }
            self.decls.push(d);
        }
        // a second declaration of a trait under the same name with a DIFFERENT set of associated
        // types (fewer, none, or one more): a redeclaration must be reported as an error whichever
        // of the two comes first
        if self.r.chance(1, 6) {
            let traits: Vec<usize> = self.decls.iter().enumerate().filter(|(_, d)| d.sort == Sort::Trait && !d.assoc.is_empty()).map(|(i, _)| i).collect();
            if !traits.is_empty() {
                let mut d = self.decls[traits[self.r.usize_below(traits.len())]].clone();
                match self.r.usize_below(3) {
                    0 => d.assoc.clear(),
                    1 => {
                        d.assoc.pop();
                    }
                    _ => d.assoc.push(("C".to_string(), vec![])),
                }
                self.decls.push(d);
            }
        }
        // shuffle
        for i in (1..self.decls.len()).rev() {
            let j = self.r.usize_below(i + 1);
            self.decls.swap(i, j);
        }
    }
    fn variance_attr(&mut self, n: usize) -> String {
        if !self.r.chance(1, 6) {
            return String::new();
        }
        let k = if self.ok() { n } else { self.r.usize_below(4) };
        let v: Vec<&str> = (0..k).map(|_| ["Invariant", "Covariant", "Contravariant"][self.r.usize_below(3)]).collect();
        format!("#[variance({})] ", v.join(", "))
    }
    fn assoc_defn(&mut self, scope: &Scope, name: &str, ps: &[(String, K)]) -> String {
        let mut sc = scope.clone();
        sc.extend(ps.iter().cloned());
        let b = if self.r.chance(1, 3) { format!(": {}", self.bounds(&sc, 1)) } else { String::new() };
        let w = self.where_clauses(&sc);
        format!("type {}{}{}{};", name, params_text(ps), b, w)
    }
    fn render_item(&mut self, d: &Decl) -> String {
        let scope: Scope = d.params.clone();
        let p = params_text(&d.params);
        match d.sort {
            Sort::Adt => {
                let fundamental = if self.r.chance(1, 12) { "#[fundamental] " } else { "" };
                let var = self.variance_attr(d.params.len());
                let w = self.where_clauses(&scope);
                if self.r.chance(2, 3) {
                    let n = self.r.usize_below(3);
                    let f: Vec<String> = (0..n).map(|i| format!("f{}: {}", i, self.ty(&scope, 2))).collect();
                    format!("{}{}struct {}{}{} {{ {} }}", var, fundamental, d.name, p, w, f.join(", "))
                } else {
                    let a = self.ty(&scope, 1);
                    let b = self.ty(&scope, 1);
                    format!("{}{}enum {}{}{} {{ V1 {{ x: {} }}, V2({}), V3 }}", var, fundamental, d.name, p, w, a, b)
                }
            }
            Sort::Trait => {
                let mut sc = scope.clone();
                sc.push(("Self".into(), K::Ty));
                let w = if d.auto && self.ok() { String::new() } else { self.where_clauses(&sc) };
                let mut assoc: Vec<String> = vec![];
                for (n, ps) in d.assoc.clone() {
                    assoc.push(self.assoc_defn(&sc, &n, &ps));
                    if !self.ok() {
                        assoc.push(self.assoc_defn(&sc, &n, &[]));
                    }
                }
                if d.auto && !self.ok() {
                    assoc.push("type A;".into());
                }
                format!("{}trait {}{}{} {{ {} }}", if d.auto { "#[auto] " } else { "" }, d.name, p, w, assoc.join(" "))
            }
            Sort::Foreign => format!("extern type {};", d.name),
            Sort::Opaque => {
                let b = if self.r.chance(2, 3) { format!(": {}", self.bounds(&scope, 1)) } else { String::new() };
                let w = self.where_clauses(&scope);
                let t = self.ty(&scope, 2);
                format!("opaque type {}{}{}{} = {};", d.name, p, b, w, t)
            }
            Sort::FnDef => {
                let var = self.variance_attr(d.params.len());
                let abi = if self.r.chance(1, 5) { format!("extern \"{}\" ", if self.ok() { "C" } else { "Zig" }) } else { String::new() };
                let n = self.r.usize_below(3);
                let a: Vec<String> = (0..n).map(|i| format!("x{}: {}", i, self.ty(&scope, 2))).collect();
                let ret = if self.r.chance(1, 2) { format!(" -> {}", self.ty(&scope, 2)) } else { String::new() };
                let w = self.where_clauses(&scope);
                format!("{}{}fn {}{}({}){}{};", var, abi, d.name, p, a.join(", "), ret, w)
            }
            Sort::Closure => {
                let n = self.r.usize_below(3);
                let a: Vec<String> = (0..n).map(|i| format!("x{}: {}", i, self.ty(&scope, 1))).collect();
                let ret = if self.r.chance(1, 2) { format!(" -> {}", self.ty(&scope, 1)) } else { String::new() };
                let m = self.r.usize_below(3);
                let u: Vec<String> = (0..m).map(|_| self.ty(&scope, 1)).collect();
                format!("closure {}{}({}, {}){} {{ {} }}", d.name, p, ["self", "&self", "&mut self"][self.r.usize_below(3)], a.join(", "), ret, u.join("; "))
            }
            Sort::Coroutine => {
                let a = self.ty(&scope, 1);
                let b = self.ty(&scope, 1);
                let ret = if self.r.chance(1, 2) { format!(" -> {}", self.ty(&scope, 1)) } else { String::new() };
                let u = self.ty(&scope, 1);
                let mut sc = scope.clone();
                let ex = if self.r.chance(1, 2) {
                    let n = if self.ok() { "'x" } else { "'a" };
                    sc.push((n.into(), K::Lt));
                    format!(" exists<{}>", n)
                } else {
                    String::new()
                };
                let wt = self.ty(&sc, 1);
                format!("coroutine {}{}[resume = {}, yield = {}]{} {{ upvars [{}] witnesses{} [{}] }}", d.name, p, a, b, ret, u, ex, wt)
            }
        }
    }
    fn render_impl(&mut self) -> String {
        let pick = self.r.usize_below(4);
        let params = self.decl_params(&[[("T", K::Ty)].as_ref(), [].as_ref(), [("T", K::Ty), ("'a", K::Lt)].as_ref(), [("N", K::Co)].as_ref()][pick]);
        let scope: Scope = params.clone();
        let (tb, d) = self.trait_bound(&scope, 1);
        let s = self.ty(&scope, 2);
        let w = self.where_clauses(&scope);
        let neg = self.r.chance(1, 10);
        let mut vals: Vec<String> = vec![];
        let assoc = d.as_ref().map(|d| d.assoc.clone()).unwrap_or_default();
        for (n, ps) in assoc {
            if neg && self.ok() {
                continue;
            }
            let mut sc = scope.clone();
            let ps = if self.ok() { ps } else { vec![("T".into(), K::Ty)] };
            sc.extend(ps.iter().cloned());
            let v = self.ty(&sc, 2);
            vals.push(format!("type {}{} = {};", n, params_text(&ps), v));
        }
        if !self.ok() {
            // value for an associated type the trait does not declare
            let v = self.ty(&scope, 1);
            vals.push(format!("type {} = {};", ["Q", "A", "Item"][self.r.usize_below(3)], v));
        }
        format!("impl{} {}{} for {}{} {{ {} }}", params_text(&params), if neg { "!" } else { "" }, tb, s, w, vals.join(" "))
    }
    fn domain_goal(&mut self, scope: &Scope, depth: usize) -> String {
        match self.r.below(16) {
            0 => format!("WellFormed({})", self.ty(scope, depth)),
            1 => format!("FromEnv({})", self.ty(scope, depth)),
            2 => format!("IsLocal({})", self.ty(scope, depth)),
            3 => format!("IsUpstream({})", self.ty(scope, depth)),
            4 => format!("IsFullyVisible({})", self.ty(scope, depth)),
            5 => format!("DownstreamType({})", self.ty(scope, depth)),
            6 => "Compatible".into(),
            7 => "Reveal".into(),
            8 => {
                let n = if self.ok() { self.decl_of(Sort::Trait).map(|d| d.name).unwrap_or_else(|| "Zz".into()) } else { self.any_name(scope) };
                format!("ObjectSafe({})", n)
            }
            9 if self.has_assoc_trait() || !self.ok() => {
                let p = self.projection(scope, depth);
                format!("Normalize({} -> {})", p, self.ty(scope, depth))
            }
            10 | 11 => {
                let s = self.ty(scope, depth);
                let (tb, _) = self.trait_bound(scope, depth);
                format!("{}({}: {})", ["WellFormed", "FromEnv", "LocalImplAllowed"][self.r.usize_below(3)], s, tb)
            }
            _ => self.where_clause(scope, depth),
        }
    }
    fn goal_params(&mut self, scope: &Scope) -> (String, Scope) {
        let n = self.r.usize_below(3);
        let mut ps: Vec<(String, K, &str)> = vec![];
        for i in 0..n {
            let pick = self.r.below(6);
            let (nm, k, pre) = match pick {
                0 => (format!("'g{}", i), K::Lt, ""),
                1 => (format!("M{}", i), K::Co, "const "),
                2 => (format!("I{}", i), K::Ty, "int "),
                3 => (format!("F{}", i), K::Ty, "float "),
                _ => (format!("G{}", i), K::Ty, ""),
            };
            ps.push((nm, k, pre));
        }
        if !self.ok() {
            // shadowing / duplicates / item names
            let nm = self.any_name(scope);
            ps.push((nm, K::Ty, ""));
        }
        let txt: Vec<String> = ps.iter().map(|(n, _, pre)| format!("{}{}", pre, n)).collect();
        let mut sc = scope.clone();
        sc.extend(ps.iter().map(|(n, k, _)| (n.clone(), *k)));
        (txt.join(", "), sc)
    }
    fn clause_text(&mut self, scope: &Scope, depth: usize) -> String {
        let (pre, post, sc) = if self.r.chance(1, 4) {
            let (p, sc) = self.goal_params(scope);
            (format!("forall<{}> {{ ", p), " }".to_string(), sc)
        } else {
            (String::new(), String::new(), scope.clone())
        };
        let dg = self.domain_goal(&sc, 1);
        let cond = if self.r.chance(1, 4) {
            let n = 1 + self.r.usize_below(2);
            let v: Vec<String> = (0..n).map(|_| self.goal1(&sc, depth.saturating_sub(1))).collect();
            format!(" :- {}", v.join(", "))
        } else {
            String::new()
        };
        format!("{}{}{}{}", pre, dg, cond, post)
    }
    fn goal1(&mut self, scope: &Scope, depth: usize) -> String {
        let pick = if depth == 0 { 6 + self.r.below(6) } else { self.r.below(12) };
        let d = depth.saturating_sub(1);
        match pick {
            0 | 1 => {
                let (p, sc) = self.goal_params(scope);
                format!("{}<{}> {{ {} }}", if pick == 0 { "forall" } else { "exists" }, p, self.goal(&sc, d))
            }
            2 => {
                let n = self.r.usize_below(3);
                let v: Vec<String> = (0..n).map(|_| self.clause_text(scope, d)).collect();
                format!("if ({}) {{ {} }}", v.join("; "), self.goal(scope, d))
            }
            3 => format!("not {{ {} }}", self.goal(scope, d)),
            4 => format!("compatible {{ {} }}", self.goal(scope, d)),
            5 => format!("({})", self.goal(scope, d)),
            6 => {
                let k = [K::Ty, K::Ty, K::Lt, K::Co][self.r.usize_below(4)];
                let a = self.garg(k, scope, 1);
                let b = self.garg(k, scope, 1);
                format!("{} = {}", a, b)
            }
            7 => format!("Subtype({}, {})", self.ty(scope, 1), self.ty(scope, 1)),
            _ => self.domain_goal(scope, 2),
        }
    }
    fn goal(&mut self, scope: &Scope, depth: usize) -> String {
        let n = if self.r.chance(1, 5) { 2 + self.r.usize_below(2) } else { 1 };
        (0..n).map(|_| self.goal1(scope, depth)).collect::<Vec<_>>().join(", ")
    }
    fn custom_clause(&mut self) -> String {
        let (p, sc) = self.goal_params(&vec![]);
        let dg = self.domain_goal(&sc, 1);
        if self.r.chance(1, 2) {
            let n = 1 + self.r.usize_below(3);
            let v: Vec<String> = (0..n).map(|_| self.goal1(&sc, 1)).collect();
            format!("forall<{}> {{ {} if {} }}", p, dg, v.join(", "))
        } else {
            format!("forall<{}> {{ {} }}", p, dg)
        }
    }
}

pub fn generate_case(r: &mut Rng) -> (String, Vec<String>) {
    let p_ok = [100u64, 99, 97, 94, 90, 80][r.usize_below(6)];
    let mut g = PG { r, decls: vec![], p_ok };
    g.declare();
    let mut items: Vec<String> = vec![];
    for d in g.decls.clone() {
        items.push(g.render_item(&d));
    }
    let n_impls = g.r.usize_below(4);
    for _ in 0..n_impls {
        let t = g.render_impl();
        let k = g.r.usize_below(items.len() + 1);
        items.insert(k, t);
    }
    if g.r.chance(1, 5) {
        let t = g.custom_clause();
        let k = g.r.usize_below(items.len() + 1);
        items.insert(k, t);
    }
    let n_goals = 3;
    // goals are generated with a higher error rate of their own
    g.p_ok = [99u64, 95, 90, 80][g.r.usize_below(4)];
    let goals = (0..n_goals).map(|_| g.goal(&vec![], 2)).collect();
    (items.join("\n"), goals)
}

// ------------------------------------------------------------------ driver

fn one_line(l: &str, w: &World, sink: &mut Sink, tag: &str) {
    if let Some((p, g)) = parse_input_line(l) {
        exec_input(sink, tag, &p, g.as_deref(), w.default_program.as_ref(), true);
    }
}

fn sharded<F>(n: usize, threads: usize, out: &mut Out, f: F)
where
    F: Fn(usize, &mut Sink) + Sync,
{
    let threads = threads.max(1);
    let mut sinks: Vec<Sink> = vec![];
    std::thread::scope(|sc| {
        let hs: Vec<_> = (0..threads)
            .map(|t| {
                let f = &f;
                sc.spawn(move || {
                    let mut sink = Sink::default();
                    let mut i = t;
                    while i < n {
                        f(i, &mut sink);
                        i += threads;
                    }
                    sink
                })
            })
            .collect();
        for h in hs {
            if let Ok(s) = h.join() {
                sinks.push(s);
            }
        }
    });
    for s in sinks {
        s.merge_into(out);
    }
}

pub fn run(ctx: &Ctx, out: &mut Out) {
    if let Ok(path) = std::env::var("VERIF_C24_CHILD") {
        child_main(&path);
    }
    install_hook();
    let t0 = std::time::Instant::now();
    let mut lap = {
        let mut last = t0;
        move |out: &mut Out, what: &str| {
            let now = std::time::Instant::now();
            out.notes.push(format!("time {}: {:.1}s", what, (now - last).as_secs_f64()));
            last = now;
        }
    };
    let seeds = load_seeds();
    let vocab = load_vocabulary();
    let default_program = run_program(DEFAULT_PROGRAM).program;
    if default_program.is_none() {
        out.notes.push("the built-in default program does not lower".into());
    }
    let seed_programs: Vec<Option<Arc<Program>>> = seeds.iter().map(|s| run_program(&s.program).program).collect();
    let seed_prog_tokens = seeds.iter().map(|s| tokenize(&s.program)).collect();
    let w = World { seeds, seed_programs, vocab, default_program, seed_prog_tokens };
    out.count_n("seed programs extracted from /repo/tests", w.seeds.len() as u64);
    out.count_n("seed goals extracted from /repo/tests", w.seeds.iter().map(|s| s.goals.len() as u64).sum());
    out.count_n("grammar vocabulary size", w.vocab.len() as u64);
    lap(out, "load seeds, lower each once");

    // committed corpus (regressions of repaired defects, known findings), then the replay file
    let mut lines = ctx.corpus_lines();
    if let Some(f) = &ctx.replay {
        lines = std::fs::read_to_string(f).unwrap_or_default().lines().map(|s| s.to_string()).collect();
    }
    {
        let mut sink = Sink::default();
        for l in &lines {
            if l.trim_start().starts_with("generated:") {
                continue;
            }
            one_line(l, &w, &mut sink, if ctx.replay.is_some() { "replay" } else { "corpus" });
        }
        sink.merge_into(out);
    }
    if ctx.replay.is_some() {
        return;
    }
    let threads = std::thread::available_parallelism().map(|n| n.get()).unwrap_or(4).min(16);

    // every seed program with its goals, compared with the model
    sharded(w.seeds.len(), threads, out, |i, sink| {
        let s = &w.seeds[i];
        let goals: Vec<&[u8]> = s.goals.iter().map(|g| g.as_bytes()).collect();
        exec_case(sink, "seed", s.program.as_bytes(), &goals, None, true);
    });

    lap(out, "seeds vs model");
    let na = ctx.budget(20000, 500000);
    let nb = ctx.budget(20000, 500000);
    let nc = ctx.budget(2000, 50000);
    sharded(na, threads, out, |i, sink| {
        let mut r = ctx.rng(1, i as u64);
        stream_a(&w, &mut r, sink);
    });
    lap(out, "stream a");
    sharded(nb, threads, out, |i, sink| {
        let mut r = ctx.rng(2, i as u64);
        stream_b(&w, &mut r, sink);
    });
    lap(out, "stream b");
    sharded(nc, threads, out, |i, sink| {
        let mut r = ctx.rng(3, i as u64);
        let (p, goals) = generate_case(&mut r);
        let gs: Vec<&[u8]> = goals.iter().map(|g| g.as_bytes()).collect();
        exec_case(sink, "c-generated", p.as_bytes(), &gs, None, true);
    });

    lap(out, "stream c");
    let work = std::env::temp_dir().to_string_lossy().into_owned();
    run_deep(ctx, out, &work);
    lap(out, "deep nesting children");
    out.count_n("programs", (w.seeds.len() + nc) as u64);
}
