//! C05: auto traits / coinductive traits on closed goals, both solvers, fresh instances AND goal
//! sequences on one instance (results that relied on a retracted cyclic assumption must never be
//! reused); every answer judged by the certified evaluator on `autoProgram(data)`.
use crate::horn::*;
use crate::rng::Rng;
use crate::solver::*;
use crate::wire::*;
use crate::{Ctx, Out};
use chalk_integration::db::ChalkDatabase;

pub const FUEL: usize = 14;

struct AutoProg {
    arities: Vec<usize>,
    text: String,
}

fn ty(rng: &mut Rng, arities: &[usize], nparams: usize, depth: usize) -> String {
    if depth == 0 || rng.chance(1, 3) {
        let mut opts: Vec<String> = vec!["u32".into()];
        for (i, a) in arities.iter().enumerate() {
            if *a == 0 {
                opts.push(format!("S{}", i));
                opts.push(format!("S{}", i));
            }
        }
        for j in 0..nparams {
            opts.push(format!("P{}", j));
            opts.push(format!("P{}", j));
        }
        return opts[rng.usize_below(opts.len())].clone();
    }
    let i = rng.usize_below(arities.len());
    if arities[i] == 0 {
        format!("S{}", i)
    } else {
        format!("S{}<{}>", i, ty(rng, arities, nparams, depth - 1))
    }
}

fn gen(rng: &mut Rng) -> AutoProg {
    let ns = 3 + rng.usize_below(4);
    let arities: Vec<usize> = (0..ns).map(|i| if i < 2 { 0 } else { rng.usize_below(2) }).collect();
    let nauto = 1 + rng.usize_below(2);
    let mut s = String::new();
    for a in 0..nauto {
        s.push_str(&format!("#[auto] trait A{} {{}}\n", a));
    }
    let co = rng.chance(1, 3);
    if co {
        s.push_str("#[coinductive] trait C0 {}\n");
    }
    for (i, a) in arities.iter().enumerate() {
        let nf = rng.weighted(&[2, 4, 3]);
        let fields: Vec<String> = (0..nf).map(|k| format!("f{}: {}", k, ty(rng, &arities, *a, 2))).collect();
        s.push_str(&format!("struct S{}{} {{ {} }}\n", i, if *a == 1 { "<P0>" } else { "" }, fields.join(", ")));
    }
    // explicit and negative impls
    for _ in 0..rng.usize_below(4) {
        let a = rng.usize_below(nauto);
        let i = rng.usize_below(ns);
        match rng.weighted(&[3, 3, 2]) {
            0 => s.push_str(&format!("impl !A{} for S{}{} {{}}\n", a, i, if arities[i] == 1 { format!("<{}>", ty(rng, &arities, 0, 1)) } else { String::new() })),
            1 if arities[i] == 1 => s.push_str(&format!("impl<P0> A{} for S{}<P0> where P0: A{} {{}}\n", a, i, a)),
            _ => s.push_str(&format!("impl A{} for S{}{} {{}}\n", a, i, if arities[i] == 1 { format!("<{}>", ty(rng, &arities, 0, 1)) } else { String::new() })),
        }
    }
    if co {
        for _ in 0..1 + rng.usize_below(3) {
            let i = rng.usize_below(ns);
            if arities[i] == 1 {
                s.push_str(&format!("impl<P0> C0 for S{}<P0> where P0: C0 {{}}\n", i));
            } else {
                let j = rng.usize_below(ns);
                let w = if arities[j] == 0 { format!("S{}", j) } else { format!("S{}<S{}>", j, i) };
                s.push_str(&format!("impl C0 for S{} where {}: C0 {{}}\n", i, w));
            }
        }
    }
    AutoProg { arities, text: s }
}

fn goal(rng: &mut Rng, p: &AutoProg) -> String {
    let tr = |rng: &mut Rng| {
        if p.text.contains("trait C0") && rng.chance(1, 3) {
            "C0".to_string()
        } else if p.text.contains("trait A1") && rng.chance(1, 2) {
            "A1".to_string()
        } else {
            "A0".to_string()
        }
    };
    let atom = |rng: &mut Rng| format!("{}: {}", ty(rng, &p.arities, 0, 3), tr(rng));
    match rng.weighted(&[8, 2, 2]) {
        0 => atom(rng),
        1 => format!("{}, {}", atom(rng), atom(rng)),
        _ => format!("not {{ {} }}", atom(rng)),
    }
}

pub fn run(ctx: &Ctx, out: &mut Out) {
    let mut jobs: Vec<(String, Vec<String>)> = vec![];
    for l in ctx.corpus_lines() {
        if let Some((p, g)) = l.split_once(";;") {
            jobs.push((p.trim().replace(" | ", "\n"), g.split(";").map(|s| s.trim().to_string()).collect()));
        }
    }
    let nprog = ctx.budget(150, 5000);
    for i in 0..nprog {
        let mut rng = ctx.rng(0, i as u64);
        let p = gen(&mut rng);
        let goals: Vec<String> = (0..7).map(|_| goal(&mut rng, &p)).collect();
        jobs.push((p.text, goals));
    }
    let ngraph = ctx.budget(150, 5000);
    for i in 0..ngraph {
        let mut rng = ctx.rng(3, i as u64);
        let (text, n) = crate::progen::graph_program(&mut rng, true);
        let goals: Vec<String> = (0..8).map(|_| crate::progen::graph_goal(&mut rng, n)).collect();
        jobs.push((text, goals));
    }
    // provisional-result motif: head of a cycle decided after its members and their consumers were visited
    let nprov = ctx.budget(150, 5000);
    for i in 0..nprov {
        let mut rng = ctx.rng(4, i as u64);
        let (text, _n, goals) = crate::progen::provisional_program(&mut rng, true);
        jobs.push((text, goals));
    }
    for (jidx, (text, goals)) in jobs.into_iter().enumerate() {
        if !ctx.mine(jidx) {
            continue;
        }
        let (_db, program) = match lower_program(&text, chalk_integration::SolverChoice::slg_default()) {
            Ok(x) => x,
            Err(e) => {
                out.count("program_rejected");
                out.notes.push(format!("program rejected: {} :: {}", e, text.replace('\n', " ")));
                continue;
            }
        };
        let data = match program_to_auto_data(&program) {
            Some(d) => d,
            None => {
                out.count("program_out_of_fragment");
                continue;
            }
        };
        out.count("programs");
        let mut lowered = vec![];
        for gtext in &goals {
            let g = match lower_goal_text(&program, gtext) {
                Ok(g) => g,
                Err(_) => {
                    out.count("goal_rejected");
                    continue;
                }
            };
            match goal_to_horn(&g, &mut vec![], &mut 0) {
                Some(h) => lowered.push((gtext.clone(), peel(&g), h)),
                None => out.count("goal_out_of_fragment"),
            }
        }
        // the recursive solver's fixed-point framework vs its Lean model (FixedPoint.lean) on the
        // plain history of the single-atom goals: ties Props/C05fp.lean (the model computes the
        // greatest fixed point and caches nothing provisional) to the code on this very input
        if text.contains("impl G for N") {
            let atoms: Vec<String> = goals.iter().filter(|g| !g.contains(',') && !g.contains("not")).cloned().collect();
            crate::ops::fp::plain_history_case(out, &text, &atoms, "C05");
        }
        for (name, choice) in solver_choices() {
            // one solver instance for the whole sequence (cache / table reuse), then fresh instances
            let shared = ChalkDatabase::with(&text, choice);
            let mut shared_dead = false;
            for (k, (gtext, peeled, hgoal)) in lowered.iter().enumerate() {
                for mode in ["shared", "fresh"] {
                    if mode == "shared" && shared_dead {
                        continue;
                    }
                    // graph family: a work budget (the SLG solver does not return on some of them, F32),
                    // and the shape of the reachable cycles refines the classifiers
                    let graph = text.contains("impl G for N");
                    let shape = if graph { crate::progen::graph_shape(&text, gtext) } else { crate::progen::auto_shape(&text, gtext) };
                    // (every solve runs under a work budget: an SLG solver that does not return would
                    // otherwise hang the whole check; clean solves of these programs need < 2000 steps)
                    let budget = if graph { Some(if name == "slg" { 2500 } else { 200_000 }) } else { Some(if name == "slg" { 6000 } else { 400_000 }) };
                    // (the case about to run is recorded: if the process dies or the shard times out, the
                    // parent reports this input)
                    if !ctx.inflight(&format!("{} {} #{} | {} | goal {{ {} }}", name, mode, k, text.replace('\n', " | "), gtext)) {
                        out.count("skipped_crashed_earlier");
                        continue;
                    }
                    let r = if mode == "shared" {
                        solve_budget(&shared, peeled, budget)
                    } else {
                        solve_fresh_budget(&text, peeled, choice, budget)
                    };
                    let kind = answer_kind(&r);
                    out.count(&format!("{}_{}_{}", name, mode, kind));
                    let label = format!("{} {} #{} | {} | goal {{ {} }}", name, mode, k, text.replace('\n', " | "), gtext);
                    if let Err(site) = &r {
                        if name == "recursive" && site.contains("overflow depth reached") {
                            // the recursive solver's documented behaviour beyond its overflow depth
                            // (polymorphically recursive field types); resource limits are C09's
                            out.count("recursive_overflow_panic");
                            if mode == "shared" {
                                shared_dead = true;
                            }
                            continue;
                        }
                        let cls = if site.contains("Negative subgoal had delayed_subgoals") {
                            "slg_negative_subgoal_delayed_panic".to_string()
                        } else if site == BUDGET_PANIC {
                            out.count(&format!("{}_budget_exceeded_{}", name, shape));
                            format!("{}_work_budget_exceeded@{}", name, if graph {
                                shape
                            } else if text.lines().any(|l| l.starts_with("struct") && l.contains("<P0>") && l.split(':').skip(1).any(|f| f.matches('<').count() >= 2 && f.contains("P0"))) {
                                // a generic struct one of whose field types nests its parameter under two
                                // constructors (`struct S5<P0> { f0: S2<S4<P0>> }`): polymorphic recursion,
                                // the set of types reachable through fields is infinite (F35)
                                "auto-growing"
                            } else {
                                // F32 shows on auto-trait programs too: the shape of the struct graph
                                shape
                            })
                        } else {
                            format!("{}_panic", name)
                        };
                        out.fail(&format!("{} solver panicked: {}", name, site), &label, &cls);
                        if mode == "shared" {
                            // the instance's mutex is poisoned by the panic; stop using it
                            shared_dead = true;
                        }
                        continue;
                    }
                    // fresh instances: the classifier carries the shape of the cycles the goal reaches
                    // (graph family: over the nodes; auto-trait programs: over the struct definitions)
                    let ctx_tag = if mode == "fresh" { format!("{}-{}-{}", name, mode, shape) } else { format!("{}-{}", name, mode) };
                    if graph {
                        out.count(&format!("graph_shape_{}", shape));
                    }
                    let req = tagged(
                        "judge-ground-auto",
                        vec![data.clone(), hgoal.clone(), nat(FUEL), atom(kind), atom(&ctx_tag)],
                    );
                    out.case(req.to_string(), "ACCEPT".to_string(), true, &label);
                }
            }
        }
    }
}
