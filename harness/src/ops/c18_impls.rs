//! C18, second half: `Program::impls_for_trait` on generated programs (lowered by the real
//! parser/lowering; the model is fed what chalk holds: impl headers and ADT variances).
use crate::rng::Rng;
use crate::wire::*;
use crate::{Ctx, Out};
use chalk_integration::db::ChalkDatabase;
use chalk_integration::interner::ChalkIr;
use chalk_integration::lowering::lower_goal;
use chalk_integration::query::LoweringDatabase;
use chalk_integration::SolverChoice;
use chalk_ir::*;
use chalk_solve::infer::InferenceTable;
use chalk_solve::RustIrDatabase;

const SCALARS: &[&str] = &["u32", "i32", "bool", "usize", "u8"];
const VARIANCES: &[&str] = &["Covariant", "Invariant", "Contravariant"];

struct Sig {
    structs: Vec<usize>, // arities
    traits: Vec<usize>,  // number of parameters besides Self
}

fn ty_text(rng: &mut Rng, sig: &Sig, params: &[String], depth: usize) -> String {
    let leaf = depth == 0 || rng.chance(1, 3);
    if leaf {
        let mut opts: Vec<String> = SCALARS.iter().map(|s| s.to_string()).collect();
        for (i, a) in sig.structs.iter().enumerate() {
            if *a == 0 {
                opts.push(format!("S{}", i));
            }
        }
        for p in params {
            opts.push(p.clone());
            opts.push(p.clone());
        }
        return opts[rng.usize_below(opts.len())].clone();
    }
    match rng.weighted(&[6, 2, 1, 1]) {
        0 => {
            let i = rng.usize_below(sig.structs.len());
            let a = sig.structs[i];
            if a == 0 {
                format!("S{}", i)
            } else {
                let args: Vec<String> = (0..a).map(|_| ty_text(rng, sig, params, depth - 1)).collect();
                format!("S{}<{}>", i, args.join(", "))
            }
        }
        1 => {
            let n = 2 + rng.usize_below(2);
            let args: Vec<String> = (0..n).map(|_| ty_text(rng, sig, params, depth - 1)).collect();
            format!("({})", args.join(", "))
        }
        2 => format!("[{}]", ty_text(rng, sig, params, depth - 1)),
        _ => format!("*const {}", ty_text(rng, sig, params, depth - 1)),
    }
}

fn gen_program(rng: &mut Rng) -> (String, Sig) {
    let ns = 2 + rng.usize_below(3);
    let nt = 1 + rng.usize_below(2);
    let sig = Sig {
        structs: (0..ns).map(|i| if i == 0 { 0 } else { rng.usize_below(3) }).collect(),
        traits: (0..nt).map(|_| rng.usize_below(3)).collect(),
    };
    let mut s = String::new();
    for (i, a) in sig.structs.iter().enumerate() {
        if *a > 0 && rng.chance(1, 2) {
            let vs: Vec<&str> = (0..*a).map(|_| *rng.pick(VARIANCES)).collect();
            s.push_str(&format!("#[variance({})] ", vs.join(", ")));
        }
        let ps: Vec<String> = (0..*a).map(|j| format!("P{}", j)).collect();
        s.push_str(&format!("struct S{}{} {{}}\n", i, if *a > 0 { format!("<{}>", ps.join(", ")) } else { String::new() }));
    }
    for (i, a) in sig.traits.iter().enumerate() {
        let ps: Vec<String> = (0..*a).map(|j| format!("A{}", j)).collect();
        s.push_str(&format!("trait Tr{}{} {{}}\n", i, if *a > 0 { format!("<{}>", ps.join(", ")) } else { String::new() }));
    }
    let nimpls = 2 + rng.usize_below(5);
    for _ in 0..nimpls {
        let t = rng.usize_below(sig.traits.len());
        let np = rng.usize_below(3);
        let params: Vec<String> = (0..np).map(|j| format!("T{}", j)).collect();
        let self_ty = ty_text(rng, &sig, &params, 2);
        let targs: Vec<String> = (0..sig.traits[t]).map(|_| ty_text(rng, &sig, &params, 2)).collect();
        s.push_str(&format!(
            "impl{} Tr{}{} for {} {{}}\n",
            if np > 0 { format!("<{}>", params.join(", ")) } else { String::new() },
            t,
            if targs.is_empty() { String::new() } else { format!("<{}>", targs.join(", ")) },
            self_ty
        ));
    }
    (s, sig)
}

pub fn run(ctx: &Ctx, out: &mut Out) {
    let n = ctx.budget(300, 10000);
    let _ = lower_goal; // (goals are built from chalk-ir values directly)
    for i in 0..n {
        let mut rng = ctx.rng(7, i as u64);
        let (text, _sig) = gen_program(&mut rng);
        let db = ChalkDatabase::with(&text, SolverChoice::slg_default());
        let program = match db.program_ir() {
            Ok(p) => p,
            Err(e) => {
                out.count("impls_program_rejected");
                out.notes.push(format!("generated program did not lower: {} :: {}", e, text.replace('\n', " ")));
                continue;
            }
        };
        out.count("programs");
        // the unification database as a table indexed by raw id
        let max_id = program.adt_variances.keys().map(|k| k.0.index as usize + 1).max().unwrap_or(0);
        let mut adts = vec![vec![]; max_id];
        for (k, v) in &program.adt_variances {
            adts[k.0.index as usize] = v.clone();
        }
        let udb = TableDb { adts, fns: vec![] };
        let impls: Vec<(ImplId<ChalkIr>, TraitRef<ChalkIr>)> =
            program.impl_data.iter().map(|(id, d)| (*id, d.binders.skip_binders().trait_ref.clone())).collect();
        let impl_list =
            list(impls.iter().map(|(_, tr)| list(vec![nat(tr.trait_id.0.index as usize), enc_subst(&tr.substitution)])).collect());
        // queries: each impl header, generalised / edited
        for q in 0..4 {
            let (_, base) = &impls[rng.usize_below(impls.len())];
            let base_s = enc_subst(&base.substitution);
            // replace bound variables (impl parameters) and random subterms by inference variables
            let mut f = |t: &Sexp| -> Option<Sexp> {
                let is_bound = matches!(t.tagged(), Some(("bound", _)));
                if is_bound || rng.chance(1, 6) {
                    Some(tagged("infer", vec![nat(rng.usize_below(8)), atom("g")]))
                } else if rng.chance(1, 12) {
                    Some(tagged("scalar", vec![nat(*rng.pick(&SCALAR_CODES))]))
                } else {
                    None
                }
            };
            let ps = map_types(&base_s, &mut f);
            let params = match dec_args(&ps) {
                Some(p) => p,
                None => continue,
            };
            let (program2, params2, tid) = (program.clone(), params.clone(), base.trait_id);
            let r = catch(move || program2.impls_for_trait(tid, &params2, &CanonicalVarKinds::empty(I)));
            let expected = match &r {
                Ok(ids) => {
                    let pos: Vec<Sexp> = ids.iter().map(|id| nat(impls.iter().position(|(i, _)| i == id).unwrap())).collect();
                    ok(list(pos))
                }
                Err(site) => panic_resp(&if site.contains("assertion") { "assert_eq substitution.len parameters.len".to_string() } else { site.clone() }),
            };
            // the property on the implementation: every impl left out must fail to unify
            if let Ok(ids) = &r {
                for (id, tr) in &impls {
                    if tr.trait_id != tid || ids.contains(id) {
                        continue;
                    }
                    out.count("impls_filtered_out");
                    let datum = program.impl_data[id].clone();
                    let (program3, params3) = (program.clone(), params.clone());
                    let unifies = catch(move || {
                        let mut table: InferenceTable<ChalkIr> = InferenceTable::new();
                        for _ in 0..16 {
                            table.new_variable(UniverseIndex::root());
                        }
                        let tr = table.instantiate_binders_existentially(I, datum.binders.map_ref(|b| b.trait_ref.clone()));
                        let env = Environment::new(I);
                        table
                            .relate(
                                I,
                                program3.unification_database(),
                                &env,
                                Variance::Invariant,
                                &tr,
                                &TraitRef { trait_id: tr.trait_id, substitution: Substitution::from_iter(I, params3) },
                            )
                            .is_ok()
                    });
                    out.evaluations_extra += 1;
                    if let Ok(true) = unifies {
                        out.fail(
                            "impls_for_trait dropped an impl whose header unifies with the parameters",
                            &format!("{} ;; params {}", text.replace('\n', " "), ps),
                            "impls_for_drops_unifiable",
                        );
                    }
                }
            }
            let req = tagged("impls-for", vec![enc_udb(&udb), nat(tid.0.index as usize), enc_args(&params), impl_list.clone()]);
            let es = expected.to_string();
            let nontrivial = match &r {
                Ok(ids) => ids.len() < impls.iter().filter(|(_, t)| t.trait_id == tid).count(),
                Err(_) => true,
            };
            out.case(req.to_string(), es, nontrivial, if q == 0 { "impls-for" } else { "impls-for-more" });
        }
    }
}
