//! C17, `make_solution` over a COMPLETED table (lean/ChalkModel/MakeSolution.lean, Props/C17ms.lean).
//! The real forest is first brought into the state the model describes: `solve_multiple` enumerates
//! the goal's answers to the end on one `SLGSolver` (the root table is then complete: every answer
//! stored, no strand left); the stored answers are read through the cfg hook; then `solve` is called
//! on the SAME solver.  Its result must be the model's `makeSolution` on the dumped answers, exactly.
//! Independently of the model, a `Definite` guidance is matched against every stored answer with the
//! first-order matcher of wire_sol.rs (the property's own sentence).
use crate::progen::*;
use crate::solver::*;
use crate::wire::*;
use crate::wire_sol::*;
use crate::{Ctx, Out};
use chalk_engine::solve::SLGSolver;
use chalk_integration::db::ChalkDatabase;
use chalk_integration::interner::ChalkIr;
use chalk_solve::{Guidance, Solution, Solver};

pub fn run(ctx: &Ctx, out: &mut Out) {
    let nprog = ctx.budget(250, 8000);
    for i in 0..nprog {
        let mut rng = ctx.rng(7, i as u64);
        let (text, goals) = if rng.chance(2, 3) {
            overlap_program(&mut rng)
        } else {
            let mut pg = ProgGen { rng: &mut rng, cfg: ProgCfg { coinductive: false, growing: false, ..ProgCfg::default() } };
            let prog = pg.program();
            let goals: Vec<String> = (0..5).map(|k| if k < 4 { goal_text(&pg.exists_goal_from_impl(&prog)) } else { goal_text(&pg.exists_goal(&prog, 2)) }).collect();
            (prog.render(), goals)
        };
        let (_d, program) = match lower_program(&text, chalk_integration::SolverChoice::slg_default()) {
            Ok(x) => x,
            Err(_) => {
                out.count("ms_program_rejected");
                continue;
            }
        };
        for gtext in goals {
            let goal = match lower_goal_text(&program, &gtext) {
                Ok(g) => g,
                Err(_) => {
                    out.count("ms_goal_rejected");
                    continue;
                }
            };
            let peeled = peel(&goal);
            let label = format!("ms | {} | goal {{ {} }}", text.replace('\n', " | "), gtext);
            let db = ChalkDatabase::with(&text, chalk_integration::SolverChoice::slg_default());
            let mut solver: SLGSolver<ChalkIr> = SLGSolver::new(10, None);
            // 1. complete the root table
            let mut n = 0usize;
            let q = peeled.clone();
            let finished = with_default_budgets(|| {
                catch(std::panic::AssertUnwindSafe(|| {
                    solver.solve_multiple(&db, &q, &mut |_r, _more| {
                        n += 1;
                        n < 40
                    })
                }))
            });
            match finished {
                Ok(true) => {}
                Ok(false) => {
                    out.count("ms_table_not_completed");
                    continue;
                }
                Err(_) => {
                    out.count("ms_enumeration_panicked");
                    continue;
                }
            }
            // 2. the stored answers
            let (floundered, stored) = match solver.verif_table_dump(&peeled) {
                Some(x) => x,
                None => {
                    out.count("ms_no_table");
                    continue;
                }
            };
            if floundered || stored.iter().any(|(_, _, delayed)| *delayed) {
                out.count("ms_floundered_or_delayed");
                continue;
            }
            out.count(&format!("ms_answers_{}", stored.len().min(6)));
            // 3. the real aggregate on the same solver
            let q2 = peeled.clone();
            let real = match with_default_budgets(|| catch(std::panic::AssertUnwindSafe(|| solver.solve(&db, &q2)))) {
                Ok(r) => r,
                Err(site) => {
                    out.fail(&format!("solve on a completed table panicked: {}", site), &label, "slg_solve_on_completed_table_panic");
                    continue;
                }
            };
            let universes: Vec<Sexp> = peeled.canonical.binders.iter(I).map(|b| nat(b.skip_kind().counter)).collect();
            let answers: Vec<Sexp> = stored
                .iter()
                .map(|(s, amb, _)| {
                    list(vec![
                        enc_binders(&s.binders),
                        enc_subst(&s.value.subst),
                        list(s.value.constraints.iter(I).map(enc_constraint).collect()),
                        nat(*amb as usize),
                    ])
                })
                .collect();
            let req = tagged("make-solution", vec![list(universes), list(answers)]);
            let expected = match &real {
                None => list(vec![atom("ok"), atom("none")]),
                Some(s) => list(vec![atom("ok"), enc_solution(s)]),
            };
            out.count(match &real {
                None => "ms_none",
                Some(Solution::Unique(_)) => "ms_unique",
                Some(Solution::Ambig(Guidance::Definite(_))) => "ms_definite",
                Some(Solution::Ambig(Guidance::Suggested(_))) => "ms_suggested",
                Some(Solution::Ambig(Guidance::Unknown)) => "ms_unknown",
            });
            out.case(req.to_string(), expected.to_string(), stored.len() >= 2, &label);
            // 4. the property's sentence on the implementation: definite guidance excludes no stored answer
            if let Some(Solution::Ambig(Guidance::Definite(g))) = &real {
                let pat = erase_const_types(&enc_subst(&g.value));
                for (s, _, _) in &stored {
                    let tgt = erase_const_types(&enc_subst(&s.value.subst));
                    if !instance_of(&pat, &tgt) {
                        let cls = if is_linear(&pat) { "definite_guidance_excludes_stored_answer" } else { "slg_guidance_nonlinear" };
                        out.fail(
                            &format!("solve returned definite guidance {} of which the stored answer {} is not an instance", pat, tgt),
                            &label,
                            cls,
                        );
                        break;
                    }
                }
            }
        }
    }
}
