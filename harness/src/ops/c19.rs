//! C19: coherence checking is total and its accepted priorities are consistent.
//!
//! Real code: `CoherenceSolver::specialization_priorities` (chalk-solve/src/coherence.rs,
//! coherence/solve.rs) and the `coherence` query of chalk-integration.  Model:
//! lean/ChalkModel/Coherence.lean, ops `priorities` and `coh-trace`.
//!
//! Two streams of cases, one request pair per trait:
//!  * `program <one-line .chalk text>`: generated programs (identical impls, blanket impls, chains,
//!    trees, diamonds, where-clauses, marker traits, negative impls, <= 5 impls per trait).  The real
//!    check runs with the SLG solver; the table of solver answers for *every* pair of impls comes
//!    from the cfg(chalk_verif) hook `CoherenceSolver::verif_pair_oracle`, the queries the check
//!    actually made from the hook's recorder.  Besides the comparison with the model the property
//!    is evaluated directly: a panic is a failure; for an accepted trait the priorities are checked
//!    against the sets of ground trait references (types of depth <= 2 over the program's structs)
//!    each impl applies to, computed by an independent matcher; the solver answers are checked
//!    for soundness against the same sets.
//!  * `script <n> <marker> <negatives> <disjoint answers> <specializes answers>`: the real forest
//!    and priority code driven by a scripted `Solver` that answers from the two bit strings, so that
//!    tables no real program produces (cycles, non-transitive answers) are exercised as well.
use crate::wire::*;
use crate::{Ctx, Out};
use chalk_integration::db::ChalkDatabase;
use chalk_integration::interner::ChalkIr;
use chalk_integration::program::Program;
use chalk_integration::query::LoweringDatabase;
use chalk_integration::{tls, SolverChoice};
use chalk_ir::*;
use chalk_solve::coherence::{verif, CoherenceSolver};
use chalk_solve::rust_ir::ImplDatum;
use chalk_solve::{RustIrDatabase, Solution, Solver, SubstitutionResult};
use std::cell::RefCell;
use std::collections::BTreeMap;
use std::panic::AssertUnwindSafe;
use std::sync::Arc;

const CHAIN_CLASSIFIER: &str = "coherence_spec_chain_assert";

// ---------------------------------------------------------------------------------------------
// scripted solver
// ---------------------------------------------------------------------------------------------

#[derive(Default)]
struct Script {
    disjoint: Vec<bool>,
    spec: Vec<bool>,
    d_pos: usize,
    s_pos: usize,
}

thread_local! {
    static SCRIPT: RefCell<Script> = RefCell::new(Script::default());
}

/// Answers `solve` (used by `disjoint`) from the first bit string and `has_unique_solution`
/// (used by `specializes`) from the second, in call order; an exhausted string answers `true`
/// for `disjoint` and `false` for `specializes`.
#[derive(Debug)]
struct ScriptedSolver;

fn trivial_solution() -> Solution<ChalkIr> {
    Solution::Unique(Canonical {
        value: ConstrainedSubst { subst: Substitution::empty(I), constraints: Constraints::empty(I) },
        binders: CanonicalVarKinds::empty(I),
    })
}

impl Solver<ChalkIr> for ScriptedSolver {
    fn solve(&mut self, _: &dyn RustIrDatabase<ChalkIr>, _: &UCanonical<InEnvironment<Goal<ChalkIr>>>) -> Option<Solution<ChalkIr>> {
        let b = SCRIPT.with(|s| {
            let mut s = s.borrow_mut();
            let b = s.disjoint.get(s.d_pos).copied().unwrap_or(true);
            s.d_pos += 1;
            b
        });
        if b {
            Some(trivial_solution())
        } else {
            None
        }
    }
    fn solve_limited(
        &mut self,
        p: &dyn RustIrDatabase<ChalkIr>,
        g: &UCanonical<InEnvironment<Goal<ChalkIr>>>,
        _: &dyn std::ops::Fn() -> bool,
    ) -> Option<Solution<ChalkIr>> {
        self.solve(p, g)
    }
    fn solve_multiple(
        &mut self,
        _: &dyn RustIrDatabase<ChalkIr>,
        _: &UCanonical<InEnvironment<Goal<ChalkIr>>>,
        _: &mut dyn FnMut(SubstitutionResult<Canonical<ConstrainedSubst<ChalkIr>>>, bool) -> bool,
    ) -> bool {
        true
    }
    fn has_unique_solution(&mut self, _: &dyn RustIrDatabase<ChalkIr>, _: &UCanonical<InEnvironment<Goal<ChalkIr>>>) -> bool {
        SCRIPT.with(|s| {
            let mut s = s.borrow_mut();
            let b = s.spec.get(s.s_pos).copied().unwrap_or(false);
            s.s_pos += 1;
            b
        })
    }
}

// ---------------------------------------------------------------------------------------------
// running the real check for one trait
// ---------------------------------------------------------------------------------------------

#[derive(Clone, Debug, PartialEq, Eq)]
enum Outcome {
    Ok(Vec<Option<usize>>),
    Overlap,
    Panic(String),
}

impl Outcome {
    fn render(&self) -> String {
        match self {
            Outcome::Ok(ps) => {
                let xs: Vec<Sexp> = ps.iter().map(|p| p.map(nat).unwrap_or_else(|| atom("-"))).collect();
                tagged("ok", vec![list(xs)]).to_string()
            }
            Outcome::Overlap => "overlap".into(),
            Outcome::Panic(_) => "panic".into(),
        }
    }
    fn kind(&self) -> &'static str {
        match self {
            Outcome::Ok(_) => "ok",
            Outcome::Overlap => "overlap",
            Outcome::Panic(_) => "panic",
        }
    }
}

struct TraitRun {
    trait_name: String,
    impls: Vec<ImplId<ChalkIr>>,
    marker: bool,
    negative: Vec<bool>,
    outcome: Outcome,
    /// queries the check made: (l, r, number of answers consumed)
    trace: Vec<(usize, usize, usize)>,
    /// answers the check got, per visited pair
    recorded: Vec<(usize, usize, Vec<bool>)>,
}

fn bit(b: bool) -> Sexp {
    atom(if b { "1" } else { "0" })
}

/// Runs `specialization_priorities` for one trait; the recorder of the hook gives the visited pairs.
fn run_trait(
    db: &ChalkDatabase,
    program: &Arc<Program>,
    trait_id: TraitId<ChalkIr>,
    builder: &dyn Fn() -> Box<dyn Solver<ChalkIr>>,
) -> TraitRun {
    let impls = program.local_impls_to_coherence_check(trait_id);
    let datum = program.trait_data[&trait_id].clone();
    let negative: Vec<bool> = impls.iter().map(|i| !program.impl_data[i].is_positive()).collect();
    let trait_name = program.trait_kinds.get(&trait_id).map(|k| format!("{}", k.name)).unwrap_or_default();
    let (outcome, log, names) = tls::set_current_program(program, || {
        let names: Vec<String> = impls.iter().map(|i| format!("{:?}", i)).collect();
        let _ = verif::take();
        let r = catch(AssertUnwindSafe(|| {
            let solver: CoherenceSolver<ChalkIr> = CoherenceSolver::new(db, builder, trait_id);
            solver.specialization_priorities().map(|p| impls.iter().map(|i| p.verif_get(*i)).collect::<Vec<_>>())
        }));
        let log = verif::take();
        let outcome = match r {
            Ok(Ok(ps)) => Outcome::Ok(ps),
            Ok(Err(_)) => Outcome::Overlap,
            Err(site) => Outcome::Panic(site),
        };
        (outcome, log, names)
    });
    let pos = |s: &str| names.iter().position(|n| n == s).unwrap_or(usize::MAX);
    let recorded: Vec<(usize, usize, Vec<bool>)> = log.iter().map(|q| (pos(&q.lhs), pos(&q.rhs), q.answers.clone())).collect();
    let trace = recorded.iter().map(|(l, r, a)| (*l, *r, a.len())).collect();
    TraitRun { trait_name, impls, marker: datum.flags.marker, negative, outcome, trace, recorded }
}

fn pair_list(n: usize) -> Vec<(usize, usize)> {
    let mut v = vec![];
    for l in 0..n {
        for r in l + 1..n {
            v.push((l, r));
        }
    }
    v
}

fn request(op: &str, run: &TraitRun, table: &[(bool, bool, bool)]) -> String {
    let mut flags = vec![bit(run.marker)];
    flags.extend(run.negative.iter().map(|b| bit(*b)));
    let t: Vec<Sexp> = table.iter().map(|(d, a, b)| list(vec![bit(*d), bit(*a), bit(*b)])).collect();
    tagged(op, vec![nat(run.impls.len()), list(flags), list(t)]).to_string()
}

fn emit(run: &TraitRun, table: &[(bool, bool, bool)], out: &mut Out, tags: &str) {
    let n = run.impls.len();
    let nontrivial = n >= 2 && !run.trace.is_empty();
    out.case(request("priorities", run, table), run.outcome.render(), nontrivial, tags);
    let tr: Vec<Sexp> = run.trace.iter().map(|(l, r, k)| list(vec![nat(*l), nat(*r), nat(*k)])).collect();
    out.case(request("coh-trace", run, table), list(tr).to_string(), nontrivial, tags);
    out.count(&format!("{}_outcome_{}", tags, run.outcome.kind()));
    out.count(&format!("{}_impls_{}", tags, n));
    if let Outcome::Ok(ps) = &run.outcome {
        let maxp = ps.iter().flatten().max().copied();
        out.count(&format!("{}_ok_max_priority_{}", tags, maxp.map(|m| m.to_string()).unwrap_or_else(|| "none".into())));
    }
}

fn report_panic(site: &str, what_ctx: &str, input: &str, out: &mut Out) {
    let classifier = if site.contains("old_value.is_none()") { CHAIN_CLASSIFIER } else { "coherence_panic" };
    out.fail(&format!("coherence check panicked ({}): {}", what_ctx, site), input, classifier);
}

// ---------------------------------------------------------------------------------------------
// independent matcher: which ground trait references an impl applies to
// ---------------------------------------------------------------------------------------------

#[derive(Clone, Debug, PartialEq, Eq, PartialOrd, Ord)]
struct G(AdtId<ChalkIr>, Vec<G>);

fn universe(program: &Program, depth: usize) -> Vec<G> {
    let adts: Vec<(AdtId<ChalkIr>, usize)> =
        program.adt_data.iter().map(|(id, d)| (*id, d.binders.len(I))).collect();
    let mut prev: Vec<G> = adts.iter().filter(|(_, a)| *a == 0).map(|(id, _)| G(*id, vec![])).collect();
    let mut all = prev.clone();
    for _ in 0..depth {
        let mut next = vec![];
        for (id, arity) in &adts {
            match arity {
                0 => {}
                1 => next.extend(all.iter().map(|g| G(*id, vec![g.clone()]))),
                2 => {
                    for a in &all {
                        for b in &all {
                            next.push(G(*id, vec![a.clone(), b.clone()]));
                        }
                    }
                }
                _ => {}
            }
        }
        next.retain(|g| !all.contains(g));
        all.extend(next.iter().cloned());
        prev = next;
        if all.len() > 400 {
            break;
        }
    }
    let _ = prev;
    all
}

/// `None`: outside the fragment the matcher understands.
fn match_ty(pat: &Ty<ChalkIr>, g: &G, depth: u32, binds: &mut Vec<Option<G>>) -> Option<bool> {
    match pat.kind(I) {
        TyKind::BoundVar(bv) if bv.debruijn.depth() == depth => {
            let slot = binds.get_mut(bv.index)?;
            match slot {
                Some(x) => Some(x == g),
                None => {
                    *slot = Some(g.clone());
                    Some(true)
                }
            }
        }
        TyKind::Adt(id, subst) => {
            if *id != g.0 {
                return Some(false);
            }
            let args = subst.as_slice(I);
            if args.len() != g.1.len() {
                return None;
            }
            for (a, ga) in args.iter().zip(g.1.iter()) {
                let t = a.ty(I)?;
                if !match_ty(t, ga, depth, binds)? {
                    return Some(false);
                }
            }
            Some(true)
        }
        _ => None,
    }
}

fn inst_ty(pat: &Ty<ChalkIr>, depth: u32, binds: &[Option<G>]) -> Option<G> {
    match pat.kind(I) {
        TyKind::BoundVar(bv) if bv.debruijn.depth() == depth => binds.get(bv.index)?.clone(),
        TyKind::Adt(id, subst) => {
            let mut args = vec![];
            for a in subst.as_slice(I) {
                args.push(inst_ty(a.ty(I)?, depth, binds)?);
            }
            Some(G(*id, args))
        }
        _ => None,
    }
}

fn applies(program: &Program, imp: &ImplDatum<ChalkIr>, g: &G, fuel: usize) -> Option<bool> {
    if fuel == 0 {
        return None;
    }
    let bound = imp.binders.skip_binders();
    let params = bound.trait_ref.substitution.as_slice(I);
    if params.len() != 1 {
        return None;
    }
    let mut binds: Vec<Option<G>> = vec![None; imp.binders.len(I)];
    if !match_ty(params[0].ty(I)?, g, 0, &mut binds)? {
        return Some(false);
    }
    if binds.iter().any(|b| b.is_none()) {
        return None;
    }
    for qwc in &bound.where_clauses {
        if qwc.len(I) != 0 {
            return None;
        }
        match qwc.skip_binders() {
            WhereClause::Implemented(tr) => {
                let ps = tr.substitution.as_slice(I);
                if ps.len() != 1 {
                    return None;
                }
                let t = inst_ty(ps[0].ty(I)?, 1, &binds)?;
                if !holds(program, tr.trait_id, &t, fuel - 1)? {
                    return Some(false);
                }
            }
            _ => return None,
        }
    }
    Some(true)
}

fn holds(program: &Program, trait_id: TraitId<ChalkIr>, g: &G, fuel: usize) -> Option<bool> {
    let td = &program.trait_data[&trait_id];
    if td.is_auto_trait() || td.well_known.is_some() || td.is_coinductive_trait() {
        return None;
    }
    for imp in program.impl_data.values() {
        if imp.trait_id() == trait_id && imp.is_positive() && applies(program, imp, g, fuel)? {
            return Some(true);
        }
    }
    Some(false)
}

/// Membership table: `sets[i][k]` = impl `i` applies to `universe[k]`.
fn impl_sets(program: &Program, impls: &[ImplId<ChalkIr>], uni: &[G]) -> Option<Vec<Vec<bool>>> {
    let mut sets = vec![];
    for id in impls {
        let imp = &program.impl_data[id];
        let mut row = vec![];
        for g in uni {
            row.push(applies(program, imp, g, 6)?);
        }
        sets.push(row);
    }
    Some(sets)
}

fn overlap(a: &[bool], b: &[bool]) -> bool {
    a.iter().zip(b).any(|(x, y)| *x && *y)
}
fn subset(a: &[bool], b: &[bool]) -> bool {
    a.iter().zip(b).all(|(x, y)| !*x || *y)
}

/// The property's own statement on the real outcome, over the bounded universe.
fn evaluate_semantics(text: &str, program: &Program, run: &TraitRun, table: &[(bool, bool, bool)], out: &mut Out) {
    let uni = universe(program, 2);
    let sets = match impl_sets(program, &run.impls, &uni) {
        Some(s) => s,
        None => {
            out.count("semantic_unsupported");
            return;
        }
    };
    out.evaluations_extra += 1;
    out.count("semantic_evaluated");
    let n = run.impls.len();
    // soundness of the solver answers w.r.t. the sets (the converse is not required: the solver
    // reasons about all compatible worlds and may be conservative)
    for (k, (l, r)) in pair_list(n).into_iter().enumerate() {
        let (d, lr, rl) = table[k];
        let ov = overlap(&sets[l], &sets[r]);
        if d && ov {
            out.fail(
                &format!("trait {}: disjoint({}, {}) answered true but both impls apply to a common ground trait reference", run.trait_name, l, r),
                text,
                "coherence_disjoint_unsound",
            );
        }
        if lr && !subset(&sets[r], &sets[l]) {
            out.fail(&format!("trait {}: specializes({}, {}) answered true but impl {} is not within impl {}", run.trait_name, l, r, r, l), text, "coherence_specializes_unsound");
        }
        if rl && !subset(&sets[l], &sets[r]) {
            out.fail(&format!("trait {}: specializes({}, {}) answered true but impl {} is not within impl {}", run.trait_name, r, l, l, r), text, "coherence_specializes_unsound");
        }
        out.count(if d == !ov { "oracle_disjoint_exact" } else { "oracle_disjoint_conservative" });
    }
    let ps = match &run.outcome {
        Outcome::Ok(ps) => ps,
        _ => return,
    };
    for i in 0..n {
        for j in 0..n {
            if i == j {
                continue;
            }
            let ov = overlap(&sets[i], &sets[j]);
            let strict = subset(&sets[j], &sets[i]) && !subset(&sets[i], &sets[j]);
            let nonempty_j = sets[j].iter().any(|x| *x);
            if run.marker {
                if ov {
                    out.count("corner_marker_overlap_allowed");
                }
                continue;
            }
            if run.negative[i] && run.negative[j] {
                if ov && ps[i].is_some() && ps[i] == ps[j] {
                    out.count("corner_negative_pair_equal_priority_overlap");
                }
                continue;
            }
            if ov && i < j && (ps[i].is_none() || ps[i] == ps[j]) {
                out.fail(
                    &format!(
                        "trait {} accepted, impls {} and {} apply to a common ground trait reference but have priorities {:?} and {:?}",
                        run.trait_name, i, j, ps[i], ps[j]
                    ),
                    text,
                    "coherence_equal_priority_overlap",
                );
            }
            if strict && nonempty_j {
                match (ps[i], ps[j]) {
                    (Some(a), Some(b)) if a < b => out.count("semantic_strict_subset_higher_priority"),
                    _ => out.fail(
                        &format!(
                            "trait {} accepted, impl {} applies to a strict non-empty subset of impl {} but priorities are {:?} (subset) and {:?}",
                            run.trait_name, j, i, ps[j], ps[i]
                        ),
                        text,
                        "coherence_subset_priority",
                    ),
                }
            } else if strict {
                out.count("corner_empty_impl_subset");
            }
        }
    }
}

// ---------------------------------------------------------------------------------------------
// one program
// ---------------------------------------------------------------------------------------------

fn one_program(text: &str, out: &mut Out, tags: &str) {
    let db = ChalkDatabase::with(text, SolverChoice::slg_default());
    let program = match catch(AssertUnwindSafe(|| db.program_ir())) {
        Ok(Ok(p)) => p,
        Ok(Err(e)) => {
            out.count("program_not_lowered");
            out.notes.push(format!("generated program did not lower: {} :: {}", e, text));
            return;
        }
        Err(site) => {
            out.count("lowering_panic");
            out.notes.push(format!("lowering panicked ({}) :: {}", site, text));
            return;
        }
    };
    out.count("programs");
    // the whole query, as `checked_program` runs it
    match catch(AssertUnwindSafe(|| db.coherence().map(|_| ()))) {
        Ok(Ok(())) => out.count("query_accepted"),
        Ok(Err(_)) => out.count("query_error"),
        Err(site) => {
            out.count("query_panic");
            report_panic(&site, "coherence query", text, out);
        }
    }
    out.evaluations_extra += 1;
    let solver_choice = SolverChoice::slg_default();
    let builder = move || solver_choice.into_solver();
    let trait_ids: Vec<TraitId<ChalkIr>> = program.trait_data.keys().copied().collect();
    for trait_id in trait_ids {
        let run = run_trait(&db, &program, trait_id, &builder);
        let n = run.impls.len();
        // every pair, all three answers, straight from the real queries
        let table: Result<Vec<(bool, bool, bool)>, String> = tls::set_current_program(&program, || {
            catch(AssertUnwindSafe(|| {
                let solver: CoherenceSolver<ChalkIr> = CoherenceSolver::new(&db, &builder, trait_id);
                let t = pair_list(n).into_iter().map(|(l, r)| solver.verif_pair_oracle(run.impls[l], run.impls[r])).collect();
                let _ = verif::take();
                t
            }))
        });
        let table = match table {
            Ok(t) => t,
            Err(site) => {
                report_panic(&site, "disjoint/specializes query", text, out);
                continue;
            }
        };
        if let Outcome::Panic(site) = &run.outcome {
            report_panic(site, &format!("trait {}", run.trait_name), text, out);
        }
        // the answers the check got are the ones in the table (the solver is deterministic)
        let pl = pair_list(n);
        for (l, r, ans) in &run.recorded {
            if let Some(k) = pl.iter().position(|p| p == &(*l, *r)) {
                let (d, a, b) = table[k];
                let full = [d, a, b];
                if ans.iter().zip(full.iter()).any(|(x, y)| x != y) {
                    out.fail(
                        &format!("trait {}: pair ({}, {}) answered {:?} during the check and {:?} when asked again", run.trait_name, l, r, ans, full),
                        text,
                        "coherence_oracle_unstable",
                    );
                }
            }
        }
        emit(&run, &table, out, tags);
        evaluate_semantics(text, &program, &run, &table, out);
    }
}

// ---------------------------------------------------------------------------------------------
// scripted cases
// ---------------------------------------------------------------------------------------------

fn bits(s: &str) -> Vec<bool> {
    s.chars().filter(|c| *c == '0' || *c == '1').map(|c| c == '1').collect()
}
fn bits_str(v: &[bool]) -> String {
    if v.is_empty() {
        "-".into()
    } else {
        v.iter().map(|b| if *b { '1' } else { '0' }).collect()
    }
}

fn script_program(n: usize, marker: bool, negs: &[bool]) -> String {
    let mut s = String::new();
    s.push_str(if marker { "#[marker] trait Foo { } " } else { "trait Foo { } " });
    for i in 0..n {
        s.push_str(&format!("struct S{} {{ }} ", i));
    }
    for i in 0..n {
        s.push_str(&format!("impl {}Foo for S{} {{ }} ", if negs.get(i).copied().unwrap_or(false) { "!" } else { "" }, i));
    }
    s
}

thread_local! {
    static SCRIPT_DBS: RefCell<BTreeMap<String, (Arc<ChalkDatabase>, Arc<Program>)>> = RefCell::new(BTreeMap::new());
}

fn one_script(n: usize, marker: bool, negs: &[bool], dis: &[bool], spec: &[bool], filler: u64, out: &mut Out, tags: &str) {
    let text = script_program(n, marker, negs);
    let line = format!(
        "script {} {} {} {} {}",
        n,
        if marker { 1 } else { 0 },
        bits_str(&negs[..n.min(negs.len())]),
        bits_str(dis),
        bits_str(spec)
    );
    let cached = SCRIPT_DBS.with(|m| m.borrow().get(&text).cloned());
    let (db, program) = match cached {
        Some(x) => x,
        None => {
            let db = Arc::new(ChalkDatabase::with(&text, SolverChoice::slg_default()));
            let program = match db.program_ir() {
                Ok(p) => p,
                Err(e) => {
                    out.notes.push(format!("script program did not lower: {} :: {}", e, text));
                    return;
                }
            };
            SCRIPT_DBS.with(|m| m.borrow_mut().insert(text.clone(), (db.clone(), program.clone())));
            (db, program)
        }
    };
    SCRIPT.with(|s| *s.borrow_mut() = Script { disjoint: dis.to_vec(), spec: spec.to_vec(), d_pos: 0, s_pos: 0 });
    let builder = || Box::new(ScriptedSolver) as Box<dyn Solver<ChalkIr>>;
    let trait_id = *program.trait_data.keys().next().unwrap();
    let run = run_trait(&db, &program, trait_id, &builder);
    if let Outcome::Panic(site) = &run.outcome {
        report_panic(site, "scripted solver answers", &line, out);
    }
    // the table: recorded answers where the check asked, arbitrary bits elsewhere (the model must
    // not look at them)
    let pl = pair_list(n);
    let mut f = filler;
    let mut table: Vec<(bool, bool, bool)> = pl
        .iter()
        .map(|_| {
            let x = crate::rng::splitmix64(&mut f);
            (x & 1 == 1, x & 2 == 2, x & 4 == 4)
        })
        .collect();
    for (l, r, ans) in &run.recorded {
        if let Some(k) = pl.iter().position(|p| p == &(*l, *r)) {
            if let Some(d) = ans.first() {
                table[k].0 = *d;
            }
            if ans.len() >= 3 {
                table[k].1 = ans[1];
                table[k].2 = ans[2];
            }
        } else {
            out.fail(&format!("visited pair ({}, {}) is not a pair l < r of the impl list", l, r), &line, "coherence_visit_order");
        }
    }
    emit(&run, &table, out, tags);
    // totality and the graph-level reading of consistency, directly on the real outcome: along
    // every recorded specialization the priority strictly increases
    out.evaluations_extra += 1;
    if let Outcome::Ok(ps) = &run.outcome {
        for (l, r, ans) in &run.recorded {
            if ans.len() == 3 && !ans[0] {
                let (less, more) = if ans[1] { (*l, *r) } else { (*r, *l) };
                match (ps[less], ps[more]) {
                    (Some(a), Some(b)) if a < b => {}
                    // the less special impl is on, or only reachable from, a cycle of
                    // "specializes" answers that no root leads into: it gets no priority
                    (None, _) => out.count("script_cycle_without_root"),
                    _ => out.fail(
                        &format!("accepted, impl {} specializes impl {} but priorities are {:?} and {:?}", more, less, ps[more], ps[less]),
                        &line,
                        "coherence_edge_priority",
                    ),
                }
            }
        }
    }
}

fn parse_script(rest: &str) -> Option<(usize, bool, Vec<bool>, Vec<bool>, Vec<bool>)> {
    let f: Vec<&str> = rest.split_whitespace().collect();
    if f.len() != 5 {
        return None;
    }
    Some((f[0].parse().ok()?, f[1] == "1", bits(f[2]), bits(f[3]), bits(f[4])))
}

fn one_line(line: &str, out: &mut Out, tags: &str) {
    let line = line.trim();
    if let Some(text) = line.strip_prefix("program ") {
        one_program(text, out, tags);
    } else if let Some(rest) = line.strip_prefix("script ") {
        match parse_script(rest) {
            Some((n, marker, mut negs, dis, spec)) if n <= 8 => {
                negs.resize(n, false);
                one_script(n, marker, &negs, &dis, &spec, 0, out, tags)
            }
            _ => out.count("unparsed_line"),
        }
    } else if !line.is_empty() {
        // a bare program text
        one_program(line, out, tags);
    }
}

// ---------------------------------------------------------------------------------------------
// generator
// ---------------------------------------------------------------------------------------------

struct Header {
    params: &'static str,
    ty: &'static str,
    pair: bool,
}

const HEADERS: &[Header] = &[
    Header { params: "T", ty: "T", pair: false },
    Header { params: "T", ty: "Vec<T>", pair: false },
    Header { params: "T", ty: "Box<T>", pair: false },
    Header { params: "T", ty: "Vec<Vec<T>>", pair: false },
    Header { params: "T", ty: "Vec<Box<T>>", pair: false },
    Header { params: "T", ty: "Box<Vec<T>>", pair: false },
    Header { params: "", ty: "I32", pair: false },
    Header { params: "", ty: "U8", pair: false },
    Header { params: "", ty: "Vec<I32>", pair: false },
    Header { params: "", ty: "Vec<U8>", pair: false },
    Header { params: "", ty: "Box<I32>", pair: false },
    Header { params: "", ty: "Vec<Vec<I32>>", pair: false },
    Header { params: "", ty: "Vec<Box<U8>>", pair: false },
    Header { params: "T, U", ty: "Pair<T, U>", pair: true },
    Header { params: "T", ty: "Pair<T, T>", pair: true },
    Header { params: "T", ty: "Pair<I32, T>", pair: true },
    Header { params: "T", ty: "Pair<T, I32>", pair: true },
    Header { params: "", ty: "Pair<I32, I32>", pair: true },
    Header { params: "T", ty: "Pair<Vec<T>, T>", pair: true },
];

/// chains / trees / diamonds as index lists into HEADERS
const SHAPES: &[(&str, &[usize])] = &[
    ("chain3", &[0, 1, 8]),
    ("chain4", &[0, 1, 3, 11]),
    ("chain5", &[0, 1, 3, 11, 11]),
    ("chain_box", &[0, 2, 5, 10]),
    ("tree", &[0, 1, 2, 8, 10]),
    ("tree2", &[1, 8, 9, 3, 11]),
    ("diamond_pair", &[13, 15, 16, 17]),
    ("diamond_pair_top", &[0, 13, 15, 16, 17]),
    ("pair_chain", &[13, 14, 17]),
    ("pair_incomparable", &[14, 15, 18]),
    ("flat", &[6, 7, 8, 9, 10]),
    ("two_levels", &[1, 2, 8, 9, 10]),
];

const AUX: &[&str] = &[
    "impl Bar for I32 { }",
    "impl Bar for U8 { }",
    "impl<T> Bar for Vec<T> { }",
    "impl<T> Bar for Vec<T> where T: Bar { }",
    "impl Bar for Vec<I32> { }",
    "impl<T> Bar for Box<T> where T: Baz { }",
    "impl Baz for I32 { }",
    "impl Baz for Vec<I32> { }",
    "impl<T> Baz for Box<T> { }",
    "impl<T> Baz for Vec<T> where T: Bar { }",
    "impl !Bar for Box<U8> { }",
];

const WHERES: &[&str] = &["T: Bar", "T: Baz", "T: Bar, T: Baz", "Vec<T>: Bar", "Box<T>: Baz"];

fn gen_program(rng: &mut crate::rng::Rng, out: &mut Out) -> String {
    let marker = rng.chance(1, 10);
    let shape_kind = rng.weighted(&[4, 5, 2, 2]); // random, shape, identical, shape+mutation
    let mut idx: Vec<usize> = vec![];
    let mut shape_name = "random";
    match shape_kind {
        0 => {
            let k = 1 + rng.usize_below(5);
            for _ in 0..k {
                idx.push(rng.usize_below(HEADERS.len()));
            }
        }
        2 => {
            let k = 1 + rng.usize_below(3);
            for _ in 0..k {
                idx.push(rng.usize_below(HEADERS.len()));
            }
            let d = *rng.pick(&idx);
            idx.push(d);
            shape_name = "identical";
        }
        _ => {
            let (name, xs) = rng.pick(SHAPES);
            shape_name = name;
            idx = xs.to_vec();
            // drop some members, keep at least two
            while idx.len() > 2 && rng.chance(1, 3) {
                let k = rng.usize_below(idx.len());
                idx.remove(k);
            }
            if shape_kind == 3 && idx.len() < 5 {
                idx.push(rng.usize_below(HEADERS.len()));
            }
        }
    }
    // order of the impls decides which of specializes(l, r) / specializes(r, l) is the true one
    if rng.chance(2, 3) {
        for i in (1..idx.len()).rev() {
            let j = rng.usize_below(i + 1);
            idx.swap(i, j);
        }
    }
    out.count(&format!("gen_shape_{}", shape_name));
    let use_pair = idx.iter().any(|i| HEADERS[*i].pair);
    let mut s = String::from("struct I32 { } struct U8 { } struct Vec<T> { } struct Box<T> { } ");
    if use_pair {
        s.push_str("struct Pair<A, B> { } ");
    }
    s.push_str(if marker { "#[marker] trait Foo { } " } else { "trait Foo { } " });
    s.push_str("trait Bar { } trait Baz { } ");
    let n_aux = rng.weighted(&[3, 3, 3, 2, 1]);
    let mut aux_used = vec![];
    for _ in 0..n_aux {
        let a = rng.usize_below(AUX.len());
        if !aux_used.contains(&a) || rng.chance(1, 8) {
            aux_used.push(a);
            s.push_str(AUX[a]);
            s.push(' ');
        }
    }
    let neg_rate = *rng.pick(&[0u64, 0, 1, 3]);
    let wc_rate = *rng.pick(&[0u64, 2, 4]);
    for i in &idx {
        let h = &HEADERS[*i];
        let neg = neg_rate > 0 && rng.chance(neg_rate, 8);
        let wc = if h.params.starts_with('T') && wc_rate > 0 && rng.chance(wc_rate, 8) { Some(*rng.pick(WHERES)) } else { None };
        if neg {
            out.count("gen_negative_impl");
        }
        if wc.is_some() {
            out.count("gen_where_clause");
        }
        if h.params.is_empty() {
            s.push_str("impl ");
        } else {
            s.push_str(&format!("impl<{}> ", h.params));
        }
        s.push_str(&format!("{}Foo for {} ", if neg { "!" } else { "" }, h.ty));
        if let Some(w) = wc {
            s.push_str(&format!("where {} ", w));
        }
        s.push_str("{ } ");
    }
    if marker {
        out.count("gen_marker_trait");
    }
    s.trim_end().to_string()
}

fn gen_script(rng: &mut crate::rng::Rng, out: &mut Out, tags: &str) {
    let n = rng.weighted(&[1, 1, 3, 6, 8, 8]);
    let marker = rng.chance(1, 16);
    let neg_rate = *rng.pick(&[0u64, 0, 1, 2]);
    let negs: Vec<bool> = (0..n).map(|_| neg_rate > 0 && rng.chance(neg_rate, 6)).collect();
    let npairs = n * n.saturating_sub(1) / 2;
    let dis_rate = *rng.pick(&[0u64, 1, 3, 5]);
    let err_rate = *rng.pick(&[0u64, 0, 1, 3]);
    let back_rate = *rng.pick(&[0u64, 1, 4]);
    let dis: Vec<bool> = (0..npairs).map(|_| rng.chance(dis_rate, 8)).collect();
    let mut spec = vec![];
    for _ in 0..npairs {
        if err_rate > 0 && rng.chance(err_rate, 16) {
            let b = rng.chance(1, 2);
            spec.push(b);
            spec.push(b);
        } else if rng.chance(back_rate, 8) {
            spec.push(false);
            spec.push(true);
        } else {
            spec.push(true);
            spec.push(false);
        }
    }
    let filler = rng.next();
    one_script(n, marker, &negs, &dis, &spec, filler, out, tags);
}

pub fn run(ctx: &Ctx, out: &mut Out) {
    if let Some(f) = &ctx.replay {
        for l in std::fs::read_to_string(f).unwrap_or_default().lines() {
            one_line(l, out, "replay");
        }
        return;
    }
    for l in ctx.corpus_lines() {
        one_line(&l, out, "corpus");
    }
    // exhaustive: every pair of answer strings for three impls (every table of solver answers is
    // reached), all negative-flag assignments, marker on/off
    let thorough = ctx.thorough();
    for marker in [false, true] {
        for negmask in 0..8u32 {
            if !thorough && marker && negmask != 0 {
                continue;
            }
            let negs: Vec<bool> = (0..3).map(|i| negmask & (1 << i) != 0).collect();
            for d in 0..8u32 {
                for s in 0..64u32 {
                    let dis: Vec<bool> = (0..3).map(|i| d & (1 << i) != 0).collect();
                    let spec: Vec<bool> = (0..6).map(|i| s & (1 << i) != 0).collect();
                    one_script(3, marker, &negs, &dis, &spec, (d as u64) << 8 | s as u64, out, "exhaustive3");
                }
            }
        }
    }
    out.count("exhaustive_three_impls");
    if thorough {
        // four positive impls of a non-marker trait: every pair of answer strings
        let negs = [false; 4];
        for d in 0..64u32 {
            for s in 0..4096u32 {
                let dis: Vec<bool> = (0..6).map(|i| d & (1 << i) != 0).collect();
                let spec: Vec<bool> = (0..12).map(|i| s & (1 << i) != 0).collect();
                one_script(4, false, &negs, &dis, &spec, (d as u64) << 12 | s as u64, out, "exhaustive4");
            }
        }
        out.count("exhaustive_four_impls");
    }
    let n_script = ctx.budget(40000, 400000);
    for i in 0..n_script {
        let mut rng = ctx.rng(1, i as u64);
        gen_script(&mut rng, out, "script");
    }
    let n_prog = ctx.budget(3000, 40000);
    for i in 0..n_prog {
        let mut rng = ctx.rng(0, i as u64);
        let text = gen_program(&mut rng, out);
        one_program(&format!("{}", text), out, "program");
    }
}
