//! C03: SLG `solve_multiple`.  (1) stream logic: the observed callback sequence (kind, which stored
//! answer, look-ahead flag) vs the model replayed over the root table dumped through the cfg hook;
//! (2) content: the enumerated answers judged by `judgeEnumeration` (soundness, no duplicates,
//! completeness for streams that ended) on the Horn clauses of chalk's lowered Program.
use crate::horn::*;
use crate::progen::*;
use crate::solver::*;
use crate::wire::*;
use crate::{Ctx, Out};
use chalk_engine::solve::SLGSolver;
use chalk_integration::db::ChalkDatabase;
use chalk_integration::interner::ChalkIr;
use chalk_ir::*;
use chalk_solve::{Solver, SubstitutionResult};

pub const FUEL: usize = 10;

pub fn run(ctx: &Ctx, out: &mut Out) {
    let mut jobs: Vec<(String, Vec<String>)> = vec![];
    for l in ctx.corpus_lines() {
        if let Some((p, g)) = l.split_once(";;") {
            jobs.push((p.trim().replace(" | ", "\n"), vec![g.trim().to_string()]));
        }
    }
    let nprog = ctx.budget(120, 4000);
    for i in 0..nprog {
        let mut rng = ctx.rng(0, i as u64);
        let coinductive = rng.chance(1, 5);
        let mut pg = ProgGen { rng: &mut rng, cfg: ProgCfg { coinductive, growing: false, ..ProgCfg::default() } };
        let prog = pg.program();
        let goals: Vec<String> = (0..6)
            .map(|k| if k < 5 { goal_text(&pg.exists_goal_from_impl(&prog)) } else { goal_text(&pg.exists_goal(&prog, 2)) })
            .collect();
        jobs.push((prog.render(), goals));
    }
    // blanket impls over marker traits: positive cycles through several tables sharing one unknown
    let nbl = ctx.budget(250, 6000);
    for i in 0..nbl {
        let mut rng = ctx.rng(5, i as u64);
        let (text, ex, _gr) = blanket_program(&mut rng);
        jobs.push((text, ex));
    }
    // impls with TWO parameters over a trait with a parameter (`impl<P0, P1> T<P1> for W<P0>`): an
    // answer then binds an earlier unknown to a generic type and leaves the last one free
    // (`[W<^0>, ^1]`); declared before, between or after concrete impls of the same trait
    let n2 = ctx.budget(80, 3000);
    for i in 0..n2 {
        let mut rng = ctx.rng(6, i as u64);
        let mut items = vec![
            "struct A {}".to_string(),
            "struct B {}".to_string(),
            "struct C {}".to_string(),
            "struct W<T> {}".to_string(),
            "trait Conv<U> {}".to_string(),
        ];
        let pool = [
            "impl<P0, P1> Conv<P1> for W<P0> {}",
            "impl<P0, P1> Conv<W<P1>> for W<P0> {}",
            "impl<P0> Conv<P0> for W<P0> {}",
            "impl Conv<A> for B {}",
            "impl Conv<C> for A {}",
            "impl Conv<B> for B {}",
            "impl<P0> Conv<W<P0>> for C {}",
            "impl<P0> Conv<A> for W<P0> where P0: Conv<A> {}",
        ];
        let k = 2 + rng.usize_below(3);
        let mut chosen: Vec<&str> = vec![];
        while chosen.len() < k {
            let c = *rng.pick(&pool);
            if !chosen.contains(&c) {
                chosen.push(c);
            }
        }
        items.extend(chosen.iter().map(|c| c.to_string()));
        let goals = vec![
            "exists<X, Y> { X: Conv<Y> }".to_string(),
            "exists<X, Y> { W<X>: Conv<Y> }".to_string(),
            "exists<X, Y> { X: Conv<W<Y>> }".to_string(),
            "exists<X> { X: Conv<A> }".to_string(),
        ];
        jobs.push((items.join("\n"), goals));
    }
    for (jidx, (text, goals)) in jobs.into_iter().enumerate() {
        if !ctx.mine(jidx) {
            continue;
        }
        let (_d, program) = match lower_program(&text, chalk_integration::SolverChoice::slg_default()) {
            Ok(x) => x,
            Err(_) => {
                out.count("program_rejected");
                continue;
            }
        };
        let horn = if has_mixed_trait_cycle(&program) {
            // the content judgement needs the program's logical meaning, which mixed cycles do not have
            out.count("program_with_mixed_cycle_content_skipped");
            None
        } else {
            program_to_horn(&program)
        };
        let sig = signature(&program);
        out.count("programs");
        for gtext in goals {
            let goal = match lower_goal_text(&program, &gtext) {
                Ok(g) => g,
                Err(_) => {
                    out.count("goal_rejected");
                    continue;
                }
            };
            let peeled = peel(&goal);
            if !ctx.inflight(&format!("{} | goal {{ {} }}", text.replace('\n', " | "), gtext)) {
                out.count("skipped_crashed_earlier");
                continue;
            }
            let db = ChalkDatabase::with(&text, chalk_integration::SolverChoice::slg_default());
            let mut solver: SLGSolver<ChalkIr> = SLGSolver::new(10, None);
            // callback policy: continue for `limit` calls
            let limit = 8usize;
            let mut seen: Vec<(String, Option<Canonical<ConstrainedSubst<ChalkIr>>>, bool)> = vec![];
            let q = peeled.clone();
            let finished = with_default_budgets(|| catch(std::panic::AssertUnwindSafe(|| {
                solver.solve_multiple(&db, &q, &mut |r, more| {
                    let (k, c) = match r {
                        SubstitutionResult::Definite(c) => ("definite", Some(c)),
                        SubstitutionResult::Ambiguous(c) => ("ambiguous", Some(c)),
                        SubstitutionResult::Floundered => ("floundered", None),
                    };
                    seen.push((k.to_string(), c, more));
                    seen.len() < limit
                })
            })));
            let label = format!("{} | goal {{ {} }}", text.replace('\n', " | "), gtext);
            let finished = match finished {
                Ok(f) => f,
                Err(site) => {
                    if site.contains("negative cycle") {
                        out.count("slg_negative_cycle_panic");
                    } else {
                        out.fail(&format!("solve_multiple panicked: {}", site), &label, "slg_multiple_panic");
                    }
                    continue;
                }
            };
            out.count(if finished { "stream_ended" } else { "stream_cut" });
            // (1) stream logic against the dumped table
            let dump = solver.verif_table_dump(&peeled);
            // `Table::mark_floundered` (an answer grew beyond max_size) wipes the stored answers and the
            // strands: when that happens in the middle of the enumeration the answers already yielded
            // are no longer in the table, and the model — a replay over the table as dumped at the
            // end — does not apply
            let floundered_midway = matches!(&dump, Some((true, _))) && seen.iter().any(|(k, _, _)| k != "floundered");
            if floundered_midway {
                out.count("table_floundered_midway");
            }
            if let (Some((floundered, stored)), false) = (dump, floundered_midway) {
                // keys: position of the first stored answer with the same (subst, constraints)
                let key_of = |s: &Canonical<AnswerSubst<ChalkIr>>| -> usize {
                    stored
                        .iter()
                        .position(|(t, _, _)| t.value.subst == s.value.subst && t.value.constraints == s.value.constraints && t.binders == s.binders)
                        .unwrap()
                };
                let answers: Vec<Sexp> = stored
                    .iter()
                    .map(|(s, amb, delayed)| {
                        list(vec![nat(key_of(s)), nat(*amb as usize), nat(*delayed as usize), nat(s.value.subst.is_identity_subst(I) as usize)])
                    })
                    .collect();
                let decisions: Vec<Sexp> = (0..limit).map(|i| nat((i + 1 < limit) as usize)).collect();
                let req = tagged("stream", vec![nat(floundered as usize), list(answers), list(decisions)]);
                let observed: Vec<Sexp> = seen
                    .iter()
                    .map(|(k, c, more)| match c {
                        Some(c) => {
                            let key = stored
                                .iter()
                                .position(|(t, _, delayed)| !*delayed && t.value.subst == c.value.subst && t.value.constraints == c.value.constraints && t.binders == c.binders)
                                .map(|p| key_of(&stored[p].0))
                                .unwrap_or(9999);
                            tagged(k, vec![nat(key), nat(*more as usize)])
                        }
                        None => tagged(k, vec![nat(*more as usize)]),
                    })
                    .collect();
                let mut exp = vec![atom("ok")];
                exp.extend(observed);
                out.case(req.to_string(), Sexp::List(exp).to_string(), !seen.is_empty(), &format!("stream | {}", label));
            } else {
                out.count("no_table");
            }
            // (2) content
            if let (Some(horn), Some((hgoal, nvars))) = (&horn, peeled_to_horn(&peeled)) {
                let mut answers = vec![];
                let mut ok = true;
                for (k, c, _) in &seen {
                    if k == "definite" {
                        let c = c.as_ref().unwrap();
                        if !c.value.constraints.is_empty(I) {
                            ok = false;
                            break;
                        }
                        match tms_of_subst(&c.value.subst, &[Bind::Vars]) {
                            Some(t) => answers.push(list(t)),
                            None => {
                                ok = false;
                                break;
                            }
                        }
                    }
                }
                let all_definite = seen.iter().all(|(k, _, _)| k == "definite");
                if ok {
                    let (depth, maxc) = if nvars <= 1 { (2, 120) } else { (1, 150) };
                    let req = tagged(
                        "judge-enumeration",
                        vec![horn.clone(), hgoal, nat(nvars), nat(FUEL), sig.clone(), nat(depth), nat(maxc), list(answers), nat((finished && all_definite) as usize)],
                    );
                    out.case(req.to_string(), "ACCEPT".to_string(), true, &format!("content | {}", label));
                } else {
                    out.count("content_out_of_fragment");
                }
            } else {
                out.count("content_out_of_fragment");
            }
        }
    }
}
