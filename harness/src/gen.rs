//! Type-directed generators over the wire AST (decoded into chalk-ir by `wire::dec_*`, so every
//! generated value is re-serialised from what chalk actually holds).
use crate::rng::Rng;
use crate::wire::*;

#[derive(Clone)]
pub struct GenCfg {
    pub max_depth: usize,
    /// how many binder levels *outside* the generated term its free bound variables may refer to
    pub free_levels: usize,
    pub max_index: usize,
    pub infer: bool,
    pub placeholders: bool,
    pub max_universe: usize,
    pub n_ids: usize,
    pub max_args: usize,
    pub binders: bool, // dyn / fn pointers
    pub aliases: bool,
    pub errors: bool,
    pub lifetimes: bool,
    pub consts: bool,
    pub n_infer: usize,
    /// when set, every free variable refers to the single enclosing binder with these kinds
    /// (index of a matching kind), i.e. the term is a well-formed `Binders` value
    pub scope_kinds: Option<Vec<Sexp>>,
    /// constants may have an arbitrary (non-scalar) type
    pub const_ty_any: bool,
}

impl Default for GenCfg {
    fn default() -> Self {
        GenCfg {
            max_depth: 4,
            free_levels: 3,
            max_index: 3,
            infer: true,
            placeholders: true,
            max_universe: 4,
            n_ids: 4,
            max_args: 3,
            binders: true,
            aliases: true,
            errors: true,
            lifetimes: true,
            consts: true,
            n_infer: 5,
            scope_kinds: None,
            const_ty_any: false,
        }
    }
}

pub struct Gen<'a> {
    pub rng: &'a mut Rng,
    pub cfg: GenCfg,
}

impl<'a> Gen<'a> {
    pub fn new(rng: &'a mut Rng, cfg: GenCfg) -> Self {
        Gen { rng, cfg }
    }

    fn n(&mut self, k: usize) -> Sexp {
        nat(self.rng.usize_below(k.max(1)))
    }

    pub fn tyvarkind(&mut self) -> Sexp {
        atom(["g", "g", "g", "i", "f"][self.rng.usize_below(5)])
    }

    pub fn varkind(&mut self) -> Sexp {
        match self.rng.weighted(&[5, if self.cfg.lifetimes { 3 } else { 0 }, if self.cfg.consts { 1 } else { 0 }]) {
            0 => tagged("kty", vec![self.tyvarkind()]),
            1 => atom("klt"),
            _ => tagged("kconst", vec![nat(*self.rng.pick(&SCALAR_CODES))]),
        }
    }

    pub fn kinds(&mut self, max: usize) -> Vec<Sexp> {
        let n = self.rng.usize_below(max + 1);
        (0..n).map(|_| self.varkind()).collect()
    }

    /// scoped mode: a variable of sort `sort` ("kty"/"klt"/"kconst") bound by the enclosing binder,
    /// or a locally bound one; None if neither exists
    fn scoped_bv(&mut self, binders: usize, sort: &str) -> Option<(Sexp, Sexp, Option<Sexp>)> {
        let kinds = self.cfg.scope_kinds.clone().unwrap();
        let matching: Vec<(usize, Sexp)> = kinds
            .iter()
            .enumerate()
            .filter(|(_, k)| match k {
                Sexp::Atom(a) => a == sort,
                Sexp::List(xs) => xs[0].as_atom() == Some(sort),
            })
            .map(|(i, k)| (i, k.clone()))
            .collect();
        let local = binders > 0 && (matching.is_empty() || self.rng.chance(1, 3));
        if local {
            let db = self.rng.usize_below(binders);
            return Some((nat(db), self.n(self.cfg.max_index), None));
        }
        if matching.is_empty() {
            return None;
        }
        let (i, k) = matching[self.rng.usize_below(matching.len())].clone();
        let cty = match &k {
            Sexp::List(xs) if xs.len() == 2 && xs[0].as_atom() == Some("kconst") => Some(tagged("scalar", vec![xs[1].clone()])),
            _ => None,
        };
        Some((nat(binders), nat(i), cty))
    }

    /// a bound-variable reference: db ranges over local binders and the free levels
    fn bv(&mut self, binders: usize) -> (Sexp, Sexp) {
        let range = binders + self.cfg.free_levels;
        let db = self.rng.usize_below(range.max(1));
        (nat(db), self.n(self.cfg.max_index))
    }

    pub fn lifetime(&mut self, binders: usize) -> Sexp {
        let w_bound = if binders + self.cfg.free_levels > 0 { 4 } else { 0 };
        let w_inf = if self.cfg.infer { 3 } else { 0 };
        let w_ph = if self.cfg.placeholders { 3 } else { 0 };
        match self.rng.weighted(&[w_bound, w_inf, w_ph, 3, 1, if self.cfg.errors { 1 } else { 0 }]) {
            0 => {
                if self.cfg.scope_kinds.is_some() {
                    return match self.scoped_bv(binders, "klt") {
                        Some((d, i, _)) => tagged("lbound", vec![d, i]),
                        None => atom("static"),
                    };
                }
                let (d, i) = self.bv(binders);
                tagged("lbound", vec![d, i])
            }
            1 => tagged("linfer", vec![self.n(self.cfg.n_infer)]),
            2 => tagged("lph", vec![self.n(self.cfg.max_universe), self.n(3)]),
            3 => atom("static"),
            4 => atom("erased"),
            _ => atom("lerror"),
        }
    }

    pub fn konst(&mut self, binders: usize) -> Sexp {
        let ty = if self.cfg.const_ty_any && self.rng.chance(1, 3) {
            let d = self.rng.usize_below(2);
            self.ty(d, binders)
        } else {
            tagged("scalar", vec![nat(*self.rng.pick(&SCALAR_CODES))])
        };
        let w_bound = if binders + self.cfg.free_levels > 0 { 3 } else { 0 };
        let v = match self.rng.weighted(&[
            w_bound,
            if self.cfg.infer { 2 } else { 0 },
            if self.cfg.placeholders { 2 } else { 0 },
            4,
        ]) {
            0 => {
                if self.cfg.scope_kinds.is_some() {
                    return match self.scoped_bv(binders, "kconst") {
                        Some((d, i, Some(cty))) => tagged("const", vec![cty, tagged("cbound", vec![d, i])]),
                        Some((d, i, None)) => tagged("const", vec![ty, tagged("cbound", vec![d, i])]),
                        None => tagged("const", vec![ty, tagged("cval", vec![nat(1)])]),
                    };
                }
                let (d, i) = self.bv(binders);
                tagged("cbound", vec![d, i])
            }
            1 => tagged("cinfer", vec![self.n(self.cfg.n_infer)]),
            2 => tagged("cph", vec![self.n(self.cfg.max_universe), self.n(3)]),
            _ => tagged("cval", vec![self.n(5)]),
        };
        tagged("const", vec![ty, v])
    }

    pub fn garg(&mut self, depth: usize, binders: usize) -> Sexp {
        match self.rng.weighted(&[6, if self.cfg.lifetimes { 2 } else { 0 }, if self.cfg.consts { 1 } else { 0 }]) {
            0 => tagged("ty", vec![self.ty(depth, binders)]),
            1 => tagged("lt", vec![self.lifetime(binders)]),
            _ => tagged("ct", vec![self.konst(binders)]),
        }
    }

    pub fn args(&mut self, depth: usize, binders: usize) -> Sexp {
        let n = self.rng.usize_below(self.cfg.max_args + 1);
        list((0..n).map(|_| self.garg(depth, binders)).collect())
    }

    pub fn ty_args_only(&mut self, n: usize, depth: usize, binders: usize) -> Sexp {
        list((0..n).map(|_| tagged("ty", vec![self.ty(depth, binders)])).collect())
    }

    pub fn wc(&mut self, depth: usize, binders: usize) -> Sexp {
        match self.rng.weighted(&[5, if self.cfg.aliases { 2 } else { 0 }, if self.cfg.aliases { 1 } else { 0 }, 1, 1]) {
            0 => tagged("impl", vec![self.n(self.cfg.n_ids), self.args(depth, binders)]),
            1 => tagged("aeq-proj", vec![self.n(self.cfg.n_ids), self.args(depth, binders), self.ty(depth, binders)]),
            2 => tagged("aeq-opaque", vec![self.n(self.cfg.n_ids), self.args(depth, binders), self.ty(depth, binders)]),
            3 => tagged("lt-outlives", vec![self.lifetime(binders), self.lifetime(binders)]),
            _ => tagged("ty-outlives", vec![self.ty(depth, binders), self.lifetime(binders)]),
        }
    }

    pub fn qwc(&mut self, depth: usize, binders: usize) -> Sexp {
        let ks = self.kinds(2);
        tagged("qwc", vec![list(ks), self.wc(depth, binders + 1)])
    }

    pub fn leaf_ty(&mut self, binders: usize) -> Sexp {
        let w_bound = if binders + self.cfg.free_levels > 0 { 6 } else { 0 };
        match self.rng.weighted(&[
            4,
            1,
            1,
            1,
            if self.cfg.errors { 1 } else { 0 },
            if self.cfg.placeholders { 4 } else { 0 },
            w_bound,
            if self.cfg.infer { 5 } else { 0 },
            3,
        ]) {
            0 => tagged("scalar", vec![nat(*self.rng.pick(&SCALAR_CODES))]),
            1 => atom("str"),
            2 => atom("never"),
            3 => tagged("foreign", vec![self.n(self.cfg.n_ids)]),
            4 => atom("error"),
            5 => tagged("ph", vec![self.n(self.cfg.max_universe), self.n(3)]),
            6 => {
                if self.cfg.scope_kinds.is_some() {
                    return match self.scoped_bv(binders, "kty") {
                        Some((d, i, _)) => tagged("bound", vec![d, i]),
                        None => atom("never"),
                    };
                }
                let (d, i) = self.bv(binders);
                tagged("bound", vec![d, i])
            }
            7 => tagged("infer", vec![self.n(self.cfg.n_infer), self.tyvarkind()]),
            _ => tagged("adt", vec![self.n(self.cfg.n_ids), list(vec![])]),
        }
    }

    pub fn ty(&mut self, depth: usize, binders: usize) -> Sexp {
        if depth == 0 || self.rng.chance(1, 4) {
            return self.leaf_ty(binders);
        }
        let d = depth - 1;
        let wb = if self.cfg.binders { 1 } else { 0 };
        let wa = if self.cfg.aliases { 1 } else { 0 };
        let wl = if self.cfg.lifetimes { 1 } else { 0 };
        let wc = if self.cfg.consts { 1 } else { 0 };
        match self.rng.weighted(&[8, 2, 4, 2, 2, 1, 1, 1, 3 * wc, 3, 3, 4 * wl, 3 * wb, 3 * wa, 2 * wa, 4 * wb]) {
            0 => tagged("adt", vec![self.n(self.cfg.n_ids), self.args(d, binders)]),
            1 => tagged("assoc", vec![self.n(self.cfg.n_ids), self.args(d, binders)]),
            2 => {
                let n = self.rng.usize_below(self.cfg.max_args + 1);
                tagged("tuple", vec![nat(n), self.ty_args_only(n, d, binders)])
            }
            3 => tagged("opaque-ty", vec![self.n(self.cfg.n_ids), self.args(d, binders)]),
            4 => tagged("fndef", vec![self.n(self.cfg.n_ids), self.args(d, binders)]),
            5 => tagged("closure", vec![self.n(self.cfg.n_ids), self.args(d, binders)]),
            6 => tagged("coroutine", vec![self.n(self.cfg.n_ids), self.args(d, binders)]),
            7 => tagged("witness", vec![self.n(self.cfg.n_ids), self.args(d, binders)]),
            8 => tagged("array", vec![self.ty(d, binders), self.konst(binders)]),
            9 => tagged("slice", vec![self.ty(d, binders)]),
            10 => tagged("raw", vec![self.n(2), self.ty(d, binders)]),
            11 => tagged("ref", vec![self.n(2), self.lifetime(binders), self.ty(d, binders)]),
            12 => {
                let nq = self.rng.usize_below(3);
                let qs = (0..nq).map(|_| self.qwc(d, binders + 1)).collect();
                tagged("dyn", vec![list(vec![tagged("kty", vec![atom("g")])]), list(qs), self.lifetime(binders)])
            }
            13 => tagged("proj", vec![self.n(self.cfg.n_ids), self.args(d, binders)]),
            14 => tagged("opaque", vec![self.n(self.cfg.n_ids), self.args(d, binders)]),
            _ => {
                let nb = self.rng.usize_below(3);
                let n = 1 + self.rng.usize_below(self.cfg.max_args);
                tagged("fn", vec![nat(nb), self.n(8), self.ty_args_only(n, d, binders + 1)])
            }
        }
    }
}

/// constructor head of a type sexp (for distribution statistics)
pub fn head(s: &Sexp) -> String {
    match s {
        Sexp::Atom(a) => a.clone(),
        Sexp::List(xs) => xs.first().and_then(|x| x.as_atom()).unwrap_or("?").to_string(),
    }
}

/// all constructor heads occurring in the term
pub fn heads(s: &Sexp, out: &mut std::collections::BTreeMap<String, u64>) {
    match s {
        Sexp::Atom(a) => {
            if a.parse::<u64>().is_err() {
                *out.entry(a.clone()).or_insert(0) += 1;
            }
        }
        Sexp::List(xs) => {
            if let Some(Sexp::Atom(h)) = xs.first() {
                if h.parse::<u64>().is_err() {
                    *out.entry(h.clone()).or_insert(0) += 1;
                }
                for x in &xs[1..] {
                    heads(x, out);
                }
            } else {
                for x in xs {
                    heads(x, out);
                }
            }
        }
    }
}
