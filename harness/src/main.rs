//! Correspondence harness: drives the real chalk functions (compiled from /repo's current
//! working tree through path dependencies) and writes, per case, the request line for the Lean
//! model driver and the implementation's canonical answer.
//!
//!   corr <PROP> --tier quick|thorough --seed N --out DIR [--replay FILE]
//!
//! Outputs in DIR: requests.txt, expected.txt, meta.txt (tab separated: nontrivial flag, tags),
//! stats.json (counters, samples, implementation-vs-oracle failures found on the Rust side).
#![allow(dead_code)]
mod gen;
mod horn;
mod progen;
mod solver;
mod ops;
mod rng;
mod wire;
mod wire_sol;

use std::collections::BTreeMap;
use std::io::Write;

pub struct Ctx {
    pub prop: String,
    pub tier: String,
    pub seed: u64,
    pub replay: Option<String>,
    pub corpus_dir: String,
}

impl Ctx {
    pub fn thorough(&self) -> bool {
        self.tier == "thorough"
    }
    /// number of cases: quick / thorough
    pub fn budget(&self, quick: usize, thorough: usize) -> usize {
        if let Ok(s) = std::env::var("VERIF_CASES") {
            if let Ok(n) = s.parse() {
                return n;
            }
        }
        if self.thorough() {
            thorough
        } else {
            quick
        }
    }
    pub fn rng(&self, stream: u64, index: u64) -> rng::Rng {
        rng::Rng::for_case(self.seed, &self.prop, stream, index)
    }
    /// request lines of the committed corpus for this property followed by the replay file
    pub fn corpus_lines(&self) -> Vec<String> {
        let mut v = vec![];
        let dir = format!("{}/{}", self.corpus_dir, self.prop);
        if let Ok(rd) = std::fs::read_dir(&dir) {
            let mut files: Vec<_> = rd.filter_map(|e| e.ok()).map(|e| e.path()).collect();
            files.sort();
            for f in files {
                if let Ok(s) = std::fs::read_to_string(&f) {
                    for l in s.lines() {
                        let l = l.trim();
                        if !l.is_empty() && !l.starts_with('#') {
                            v.push(l.to_string());
                        }
                    }
                }
            }
        }
        v
    }
}

pub struct Case {
    pub request: String,
    pub expected: String,
    pub nontrivial: bool,
    pub tags: String,
}

/// A failure of the property itself observed on the implementation (independent of the model).
pub struct OracleFailure {
    pub what: String,
    pub input: String,
    pub classifier: String,
}

#[derive(Default)]
pub struct Out {
    pub cases: Vec<Case>,
    pub counters: BTreeMap<String, u64>,
    pub oracle_failures: Vec<OracleFailure>,
    pub notes: Vec<String>,
    /// property-level evaluations done purely on the Rust side (no model line)
    pub evaluations_extra: u64,
}

impl Out {
    pub fn case(&mut self, request: String, expected: String, nontrivial: bool, tags: &str) {
        self.cases.push(Case { request, expected, nontrivial, tags: tags.to_string() });
    }
    pub fn count(&mut self, key: &str) {
        *self.counters.entry(key.to_string()).or_insert(0) += 1;
    }
    pub fn count_n(&mut self, key: &str, n: u64) {
        *self.counters.entry(key.to_string()).or_insert(0) += n;
    }
    pub fn fail(&mut self, what: &str, input: &str, classifier: &str) {
        self.oracle_failures.push(OracleFailure {
            what: what.to_string(),
            input: input.to_string(),
            classifier: classifier.to_string(),
        });
    }
}

pub fn json_str(s: &str) -> String {
    let mut o = String::from("\"");
    for c in s.chars() {
        match c {
            '"' => o.push_str("\\\""),
            '\\' => o.push_str("\\\\"),
            '\n' => o.push_str("\\n"),
            '\t' => o.push_str("\\t"),
            '\r' => o.push_str("\\r"),
            c if (c as u32) < 0x20 => o.push_str(&format!("\\u{:04x}", c as u32)),
            c => o.push(c),
        }
    }
    o.push('"');
    o
}

fn main() {
    let args: Vec<String> = std::env::args().collect();
    if args.len() < 2 {
        eprintln!("usage: corr <PROP> --tier quick|thorough --seed N --out DIR [--replay FILE]");
        std::process::exit(2);
    }
    let prop = args[1].clone();
    let mut tier = "quick".to_string();
    let mut seed: u64 = 1;
    let mut outdir = ".".to_string();
    let mut replay = None;
    let mut corpus_dir = "/verif/corpus".to_string();
    let mut i = 2;
    while i < args.len() {
        match args[i].as_str() {
            "--tier" => {
                tier = args[i + 1].clone();
                i += 2;
            }
            "--seed" => {
                seed = args[i + 1].parse().expect("seed");
                i += 2;
            }
            "--out" => {
                outdir = args[i + 1].clone();
                i += 2;
            }
            "--replay" => {
                replay = Some(args[i + 1].clone());
                i += 2;
            }
            "--corpus" => {
                corpus_dir = args[i + 1].clone();
                i += 2;
            }
            other => {
                eprintln!("unknown argument {}", other);
                std::process::exit(2);
            }
        }
    }
    // panics of the code under test are caught per case; keep stderr quiet
    if std::env::var("VERIF_DEBUG").is_err() {
        std::panic::set_hook(Box::new(|_| {}));
    }
    let ctx = Ctx { prop: prop.clone(), tier, seed, replay, corpus_dir };
    let mut out = Out::default();
    if !ops::run(&ctx, &mut out) {
        eprintln!("unknown property {}", prop);
        std::process::exit(2);
    }
    std::fs::create_dir_all(&outdir).unwrap();
    let mut rq = std::io::BufWriter::new(std::fs::File::create(format!("{}/requests.txt", outdir)).unwrap());
    let mut ex = std::io::BufWriter::new(std::fs::File::create(format!("{}/expected.txt", outdir)).unwrap());
    let mut me = std::io::BufWriter::new(std::fs::File::create(format!("{}/meta.txt", outdir)).unwrap());
    for c in &out.cases {
        writeln!(rq, "{}", c.request).unwrap();
        writeln!(ex, "{}", c.expected).unwrap();
        writeln!(me, "{}\t{}", if c.nontrivial { 1 } else { 0 }, c.tags).unwrap();
    }
    let mut st = String::from("{\n");
    st.push_str(&format!("  \"property\": {},\n", json_str(&prop)));
    st.push_str(&format!("  \"cases\": {},\n", out.cases.len()));
    st.push_str(&format!("  \"evaluations_extra\": {},\n", out.evaluations_extra));
    st.push_str("  \"counters\": {");
    let mut first = true;
    for (k, v) in &out.counters {
        if !first {
            st.push_str(", ");
        }
        first = false;
        st.push_str(&format!("{}: {}", json_str(k), v));
    }
    st.push_str("},\n  \"notes\": [");
    st.push_str(&out.notes.iter().map(|n| json_str(n)).collect::<Vec<_>>().join(", "));
    st.push_str("],\n  \"oracle_failures\": [");
    let fs: Vec<String> = out
        .oracle_failures
        .iter()
        .map(|f| {
            format!(
                "{{\"what\": {}, \"input\": {}, \"classifier\": {}}}",
                json_str(&f.what),
                json_str(&f.input),
                json_str(&f.classifier)
            )
        })
        .collect();
    st.push_str(&fs.join(",\n    "));
    st.push_str("]\n}\n");
    std::fs::write(format!("{}/stats.json", outdir), st).unwrap();
}
